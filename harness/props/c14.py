"""C14 -- Version objects accept exactly valid version strings and decompose losslessly.

spec:      spec/VersionString.tla  (reference layer: Valid / Unspec / Decompose / Recompose and the
           object actions Construct, SetFull, SetEpoch, SetUpstream, SetRevision, Copy;
           implementation layer: the regex of BaseVersion as a matcher + __setattr__ with roll-back)
           spec/TraceVersionString.tla (trace validation on concrete code points)
binding:   (a) CASE lines of the bounded configuration (every string up to length 4/5 over 12 code
               points, expected verdict + decomposition computed by TLC) replayed into
               Version / NativeVersion / BaseVersion, concretized to other members of each class;
           (b) the complete object LTS emitted by TLC (EDGE lines) replayed edge by edge, along
               shortest paths and along random walks; all four attributes compared after each call;
           (c) random strings (up to 25 characters, alphabet + foreign characters) and random
               assignment sequences recorded from the real classes and validated by TLC.
           In (b) and (c) the object is also observed BEHAVIOURALLY after every call (KeyFresh: the
           object state is a function of full_version alone, no memoised / cached derived state
           survives an assignment): hash / == / < are called before each assignment, and after it
           (accepted or rejected) v must be indistinguishable from fresh = type(v)(v.full_version):
           attributes, str, hash, ==, <, >, version_compare(v, fresh) == 0 and the same order
           against two fixed probe versions.  The outcome is the `key` component of the projected
           state, which TLC's EDGE lines / the trace module predict (= parsed components of full).
           Size / threshold stress (notes/SIZE_STRESS.md) in all three legs: epochs of 1..25 digits
           around 2**15, 2**16, 2**31, 2**32, 2**63, 2**64, 10**18, 10**24 with and without leading
           zeros, digit / letter runs of boundary lengths (.. 31,32,33 .. 127,128,129, 255,256,257),
           many hyphens / colons: stretched CASE concretizations (a digit or letter symbol becomes a
           run of the same class; the reference layer only tests class membership, emptiness and
           the positions of ':' and '-', so TLC's verdict and decomposition carry over run-wise;
           a sample of them is re-validated by TLC on the long concrete text in the trace leg),
           stretched symbol maps in the LTS replay, sized strings and values in the recorded traces.
           Object store with two objects (CopyIndependent): a Copy (Version(v) of the same or another
           class, copy.copy, copy.deepcopy, pickle round trip) keeps BOTH objects alive; the history
           continues on either one and the retained one is read back (attributes, str, hash,
           comparisons with a fresh object of its own text) after every later step, accepted or
           rejected.  MC_VersionString_pair*.cfg explores every (obj, kept) pair; in the LTS replay
           assignment edges are preceded by the model's Copy self-loop; traces carry kobs.
API surface (notes/API_SURFACE.md) -- every public way of doing what the statement mentions:
  entry point / variant                                   exercised by
  ------------------------------------------------------  -----------------------------------------
  Version(s) NativeVersion(s) BaseVersion(s), positional  CASE replay (all three for the canonical
                                                          form), LTS construct edges, traces
  ... the same with the keyword  cls(version=s)           CASE replay / LTS / traces, rotating (kw)
  debian.changelog.Version (re-export of the class)       CASE / LTS / traces, rotating class name
  AptPkgVersion                                           out of domain here: apt_pkg is absent in
                                                          this image, the constructor raises
                                                          NotImplementedError (Version = NativeVersion)
  cls(version_object), same class and each other class    Copy edges / copy events ("ctor", "ctor:X")
  copy.copy, copy.deepcopy, pickle round trip             Copy edges / copy events
  reading full_version epoch upstream_version             projection after every call (observe)
    debian_revision debian_version(alias), str()
  repr()                                                  compared with repr of a fresh object of the
                                                          same class after every call; called before
                                                          every assignment (warm)
  assigning full_version epoch upstream_version           LTS edges / trace events; debian_revision
    debian_revision debian_version(alias)                 and its alias alternate (variant bit 1)
  hash, == != < > with version OBJECTS                    KeyFresh comparison with a fresh object
  == < > and version_compare with plain STRINGS           the same comparison with the fresh object's
                                                          text / probe texts, rotating (variant bit 4)
  version_compare(a, b)                                   KeyFresh comparison (objects and strings)
  deprecated aliases (function_deprecated_by)             none concerns versions: printOut, listReleases,
                                                          internRelease, readLinesSHA1, patchesFromEdScript,
                                                          patchLines, replaceFile, downloadGunzipLines,
                                                          downloadFile, updateFile, mergeAsSets only
  indirect users that carry a version through str():      used as further ways to Copy a valid object
    Changelog.new_block(version=v) / set_version(v) /     ("changelog", "block", "dsc", "changes"):
    .version / get_version(), ChangeBlock(version=v)      the result must be the same version, in an
    .version, Dsc / Changes .set_version(v) /             independent object; an exception there is
    .get_version() (deb822._VersionAccessorMixin)         noted, not judged (C04/C15/C09 own them);
                                                          INVALID text through them is out of domain
                                                          (ChangeBlock stores any str, Deb822 values
                                                          have their own validation, C08)
  non-str arguments (None, int epoch, bytes)              out of domain: the statement speaks of
                                                          strings; str(value) coercion is not judged
Variants are mixed within one history: e.g. construct through NativeVersion(version=s), copy through
Version(v) or a Changelog, continue on the copy, assign through the debian_version alias, compare
with strings.  The variant choices are part of every recorded violation (replayable).
negative controls run in every check (spec level): DollarAnchor, UnicodeDigits, NoRollback, StaleKey,
CopySharesParts must make TLC report AcceptExact / ImplRefines / KeyFresh / CopyIndependent violated; corrupted literal traces must be
rejected.
"""
import json
import os
from concurrent.futures import ThreadPoolExecutor

import core
from lts import LTS, skey, strip

MANIFEST = dict(
    technique="TLA+ spec over code points (VersionString: reference Valid/Unspec/Decompose + regex/__setattr__ implementation layer) model-checked by TLC; bounded-exhaustive CASE lines and the complete object LTS replayed into Version/NativeVersion/BaseVersion; recorded constructions and assignment sequences validated by TLC (TraceVersionString)",
    text="TLC enumerates every string up to length 4 (quick) / 5 (thorough) over 12 code points (digit, letter, . + ~ - :, space, LF, '_', non-ASCII letter, non-ASCII digit) and checks that the transcription of re_valid_version accepts exactly the valid strings outside the unspecified zone of D2, decomposes them like the reference and that Recompose(Decompose(s)) = s; it also explores the object LTS (12 start versions + 7 non-versions x 8 assignment values x 3 components + full_version + copy, closed up to a length bound) and checks that the transcription of __setattr__ (assign private, recompute, re-validate, roll back) refines 'recomposed valid version or ValueError with the object unchanged'. Every CASE line is replayed into the three real classes with several class-preserving concretizations (other digits/letters, tab, CR, U+0663, U+FF11, ...), every LTS edge and random walks are replayed with all four attributes compared after each call, and constructions/assignment sequences recorded from the real classes on random text up to 25 characters are validated by TLC on the concrete code points. The object model carries a derived comparison key (invariant KeyFresh: the state is a function of full_version alone); the binding observes it behaviourally after every accepted or rejected assignment (hash/==/< called before the assignment; afterwards v must equal, hash, print and order like a fresh object built from v.full_version, also against two fixed probe versions, and version_compare must give 0), so memoised or cached derived state that an assignment does not invalidate is detected. The model is an object store with two objects (every reachable pair explored, action property CopyIndependent): after a copy (constructor from an object of the same or another class, copy.copy, copy.deepcopy, pickle) both objects stay alive, the history continues on either, and the other one must read back unchanged after every later accepted or rejected call. All three legs are size-stressed: epochs of 1..25 digits around 2**15/2**31/2**32/2**63/10**18 with and without leading zeros, digit and letter runs of boundary lengths up to 257, many hyphens/colons.",
    note="Small scope: strings <= 5 symbols exhaustively, longer ones sampled (traces); the LTS is closed only up to Len(full_version) <= 7/11 because 'a-b' as revision and '1:2' as epoch grow the version without bound. Unspecified (executed, never judged): D2 zone (over version characters: nothing / a colon after the last hyphen, nothing before it), None as upstream, '' as revision. Trusted: TLC, the projection (four attributes, str()), the class-preserving concretizer (cross-checked by feeding concretized cases to trace validation). Spec-level negative controls (DollarAnchor, UnicodeDigits, NoRollback, StaleKey, CopySharesParts) and corrupted control traces are run in every check. BaseVersion has no comparison: only attributes, str and hash are compared with the fresh object there.",
    design="5 (C14)")

ABSENT = [-1]
NOKEY = [ABSENT, ABSENT, ABSENT]
BADKEY = [[-2], [-2], [-2]]         # the object does not behave like a fresh one built from its full_version
NOOBJ = {"full": ABSENT, "epoch": ABSENT, "upstream": ABSENT, "revision": ABSENT, "key": NOKEY}
PROBES = ("1.0-1", "1:0")           # fixed versions the object is ordered against (same signs as a fresh object)
CLASSES = ("Version", "NativeVersion", "BaseVersion")
ALLC = CLASSES + ("changelog.Version",)       # the class as re-exported by debian.changelog
ATTR = {"full": "full_version", "epoch": "epoch", "upstream": "upstream_version", "revision": "debian_revision"}

# ------------------------------------------------------------------ concretization
DIGITS = [ord(c) for c in "0123456789"]
LETTERS = [ord(c) for c in "abcdefghijklmnopqrstuvwxyzABCDEFGHIJKLMNOPQRSTUVWXYZ"]
PUNCT = {46, 43, 126, 45, 58}
SPACEY = [0x20, 0x09, 0x0D, 0x0B, 0x0C, 0x00, 0xA0, 0x2028, 0x3000, 0x85, 0x1C, 0x7F]
LINEY = [0x0A, 0x0A, 0x0A, 0x0A, 0x0D, 0x0B, 0x0C, 0x85, 0x2028, 0x2029]
PUNCTY = [ord(c) for c in "_/*,=()!@%^#\"'\\|<>;?[]{}`$&"]
NALETTER = [0xE9, 0xDF, 0x430, 0x4E2D, 0x3A9, 0xFF41, 0x17F, 0x212A, 0x131, 0x1D400, 0xC0, 0xAA]
NADIGIT = [0x663, 0x967, 0xFF11, 0x1D7CF, 0xBEF, 0xB2, 0x2460, 0x6F0, 0x9E6]
FOREIGN_POOL = {32: SPACEY, 10: LINEY, 95: PUNCTY, 233: NALETTER, 1635: NADIGIT}
ALL_FOREIGN = sorted(set(SPACEY + LINEY + PUNCTY + NALETTER + NADIGIT))

# size / threshold stress (notes/SIZE_STRESS.md): the abstract case does not change, its concretization
# gets a size dimension.  The reference layer tests class membership per character, emptiness and the
# positions of ':' and '-' only, so replacing a digit (letter) by a RUN of digits (letters) keeps
# Valid / Unspec and maps the decomposition run-wise: expectations derived from TLC's abstract case are
# length-independent by construction; stretched cases are additionally handed to the trace leg, where
# TLC evaluates Valid / Decompose on the long concrete text itself.
BOUNDARY_LENS = [1, 2, 7, 8, 9, 15, 16, 17, 31, 32, 33, 63, 64, 65, 71, 72, 73, 79, 80, 81, 127, 128, 129, 255, 256, 257]
EPOCH_NUMS = [0, 9, 10, 99, 100, 2 ** 15 - 1, 2 ** 15, 2 ** 16 - 1, 2 ** 16, 2 ** 31 - 1, 2 ** 31, 2 ** 31, 2 ** 32 - 1,
              2 ** 32, 2 ** 63 - 1, 2 ** 63, 2 ** 64, 10 ** 18, 10 ** 24 - 1]


def big_epoch(rng, big=False):
    """an epoch as a digit sequence (1..25 digits) around the usual numeric thresholds, with and
    without leading zeros (numbers stay digit sequences: TLC integers are 32 bit)"""
    n = max(0, rng.choice(EPOCH_NUMS[9:] if big else EPOCH_NUMS) + rng.choice([-1, 0, 0, 0, 1]))
    d = str(n)
    if rng.random() < 0.35 and len(d) < 25:
        d = "0" * rng.randint(1, 25 - len(d)) + d
    return [ord(c) for c in d]


def sized_len(rng, cap=300):
    r = rng.random()
    pool = BOUNDARY_LENS[:11] if r < 0.55 else BOUNDARY_LENS[11:20] if r < 0.88 else BOUNDARY_LENS[20:]
    return max(1, min(rng.choice(pool), cap))


def run_of(rng, c, n):
    """n members of the class of code point c (digit run / letter run)"""
    pool = DIGITS if 48 <= c <= 57 else LETTERS
    k = rng.randrange(4)
    if k == 0:
        return [rng.choice(pool)] * n
    if k == 1 and pool is DIGITS:
        return [49] + [48] * (n - 1)
    if k == 2 and pool is DIGITS:
        return [57] * n
    return [rng.choice(pool) for _ in range(n)]


def is_dl(c):
    return 48 <= c <= 57 or 65 <= c <= 90 or 97 <= c <= 122


def stretch(rng, case):
    """size-stressed concretization of a CASE: one segment (>= 1 code points of the same class) per
    model symbol; an epoch becomes an exact threshold number, digit / letter symbols become runs of
    boundary lengths"""
    s, d = case["s"], case["d"]
    segs = [[pick(rng, x)] for x in s]
    n_ep = len(d["epoch"]) if d["epoch"] != ABSENT else 0
    if n_ep:
        digits = big_epoch(rng, big=rng.random() < 0.7)
        digits = [48] * (n_ep - len(digits)) + digits
        for j in range(n_ep - 1):
            segs[j] = [digits[j]]
        segs[n_ep - 1] = digits[n_ep - 1:]
    budget = 300
    for i, x in enumerate(s):
        if i >= n_ep and is_dl(x) and rng.random() < (0.35 if n_ep else 0.7) and budget > 1:
            segs[i] = run_of(rng, x, sized_len(rng, budget))
            budget -= len(segs[i])
    return segs


def pick(rng, c):
    """another member of the class of code point c (the reference layer only looks at classes)"""
    if 48 <= c <= 57:
        return rng.choice(DIGITS)
    if 65 <= c <= 90 or 97 <= c <= 122:
        return rng.choice(LETTERS)
    if c in PUNCT or c < 0:
        return c
    return rng.choice(FOREIGN_POOL.get(c, ALL_FOREIGN))


def txt(cp):
    return None if cp == ABSENT else "".join(map(chr, cp))


def enc(x):
    if x is None:
        return ABSENT
    if isinstance(x, str):
        return [ord(c) for c in x]
    return [-2] + [ord(c) for c in repr(x)]          # not text: never equal to a specified value


def show(cp):
    if cp == ABSENT:
        return "None"
    if cp and cp[0] < 0:
        return "<%s>" % "".join(map(chr, cp[1:]))
    return repr("".join(map(chr, cp)))


class SymMap:
    """one class-preserving substitution applied to a whole history (start text, values, states)"""

    def __init__(self, rng=None, symbols=(), sized=False):
        self.m = {}
        if rng is not None:
            for c in sorted(symbols):
                self.m[c] = pick(rng, c)
                if sized and c == 49:
                    self.m[c] = big_epoch(rng, big=True)      # '1' is the epoch of the model's versions and values
                elif sized and is_dl(c) and rng.random() < 0.4:
                    self.m[c] = run_of(rng, c, sized_len(rng, 81))

    def cp(self, seq):
        out = []
        for c in seq:
            r = self.m.get(c, c)
            if isinstance(r, list):
                out.extend(r)
            else:
                out.append(r)
        return out

    def obj(self, o):
        return {k: ([self.cp(x) for x in v] if k == "key" else self.cp(v)) for k, v in o.items()}

    def to_json(self):
        return {str(k): v for k, v in self.m.items()}

    @classmethod
    def from_json(cls, j):
        s = cls()
        s.m = {int(k): v for k, v in j.items()}
        return s


# ------------------------------------------------------------------ driving the real classes

def get_class(name):
    if name == "changelog.Version":
        import debian.changelog
        return debian.changelog.Version
    from debian import debian_support
    return getattr(debian_support, name)


_probe_cache = {}


def probes(cls):
    """fixed probe versions of the same class (never assigned to, so they cannot be stale)"""
    if cls not in _probe_cache:
        _probe_cache[cls] = [cls(p) for p in PROBES]
    return _probe_cache[cls]


def comparable(cls):
    from debian.debian_support import BaseVersion
    return getattr(cls, "_compare", None) is not BaseVersion._compare


def warm(v):
    """call hash / == / < on the object BEFORE an assignment, so that any lazily cached comparison
    key or hash exists and would go stale"""
    if v is None:
        return
    try:
        hash(v)
        repr(v)
        str(v)
        if comparable(type(v)):
            p = probes(type(v))[0]
            v == p
            v < p
            p < v
    except Exception:
        pass


def signs(a, b):
    return (a < b, a == b, a > b)


_fresh_signs = {}


def fresh_signs(cls, fresh, strs=False):
    """how a fresh object of this text orders against the probes (objects, or plain strings when
    strs) (memoised: fresh objects are never assigned to)"""
    k = (cls, fresh.full_version, strs)
    if k not in _fresh_signs:
        if len(_fresh_signs) > 50000:
            _fresh_signs.clear()
        _fresh_signs[k] = [signs(fresh, p) for p in (PROBES if strs else probes(cls))]
    return _fresh_signs[k]


def coherence(v, strs=False):
    """KeyFresh, observed behaviourally: v is indistinguishable from a fresh object built from
    v.full_version.  Returns (key projection, note): the fresh object's parsed components when v
    behaves like it, BADKEY and what differed otherwise"""
    cls = type(v)
    try:
        fresh = cls(v.full_version)
        key = [enc(fresh.epoch), enc(fresh.upstream_version), enc(fresh.debian_revision)]
        for a in ("epoch", "upstream_version", "debian_revision", "debian_version", "full_version"):
            if getattr(v, a) != getattr(fresh, a):
                return BADKEY, "%s is %r, a fresh %s(%r) has %r" % (a, getattr(v, a), cls.__name__, fresh.full_version, getattr(fresh, a))
        if str(v) != str(fresh):
            return BADKEY, "str(v) = %r, a fresh object gives %r" % (str(v), str(fresh))
        if repr(v) != repr(fresh):
            return BADKEY, "repr(v) = %s, a fresh object gives %s" % (repr(v), repr(fresh))
        if hash(v) != hash(fresh):
            return BADKEY, "hash(v) differs from the hash of a fresh %s(%r)" % (cls.__name__, fresh.full_version)
        if comparable(cls):
            other = fresh.full_version if strs else fresh       # comparison with a plain string is public API too
            sg = signs(v, other)
            if sg != (False, True, False) or v != other or fresh < v:
                return BADKEY, "v compared with a fresh %s(%r): (v<f, v==f, v>f) = %r" % (
                    cls.__name__, fresh.full_version, sg)
            from debian.debian_support import version_compare
            if version_compare(v, other) != 0 or (strs and version_compare(other, v) != 0):
                return BADKEY, "version_compare(v, %s %r) = %r" % ("the text" if strs else "fresh", fresh.full_version, version_compare(v, other))
            for p, want in zip(PROBES if strs else probes(cls), fresh_signs(cls, fresh, strs)):
                if signs(v, p) != want:
                    return BADKEY, "(v<p, v==p, v>p) against p = %s is %r, for a fresh %s(%r) it is %r" % (
                        p if strs else p.full_version, signs(v, p), cls.__name__, fresh.full_version, want)
        return key, None
    except Exception as e:      # observation
        return BADKEY, "comparing with a fresh object raised %s: %s" % (type(e).__name__, e)


def observe(v, deep=True, strs=False):
    """projection: (four attributes as code points + behavioural key, message about str()/alias
    inconsistency, note about KeyFresh); the note is not a verdict by itself: the specification
    decides through obs["key"] (unspecified states are adopted whatever they are)"""
    if v is None:
        return dict(NOOBJ), None, None
    try:
        o = {"full": enc(v.full_version), "epoch": enc(v.epoch), "upstream": enc(v.upstream_version),
             "revision": enc(v.debian_revision)}
        alias = enc(v.debian_version)
        s = enc(str(v))
    except Exception as e:      # observation, not a harness failure
        return {"full": [-2], "epoch": [-2], "upstream": [-2], "revision": [-2], "key": BADKEY}, \
            "reading the attributes raised %s: %s" % (type(e).__name__, e), None
    o["key"], note = coherence(v, strs) if deep else (None, None)     # None: not observed at this step
    if s != o["full"]:
        return o, "str(v) = %s but full_version = %s" % (show(s), show(o["full"])), note
    if alias != o["revision"]:
        return o, "debian_version = %s but debian_revision = %s" % (show(alias), show(o["revision"])), note
    return o, None, note


def outcome(fn):
    try:
        return fn(), "ok"
    except ValueError:
        return None, "ValueError"
    except Exception as e:      # any other type is an observation
        return None, "EXC:" + type(e).__name__


COPY_HOW = ("ctor", "ctor:Version", "ctor:NativeVersion", "ctor:BaseVersion", "copy", "deepcopy", "pickle",
            "ctor", "changelog", "block", "dsc", "changes")
copy_unsupported = {}


def make_copy(cls, v, how):
    """a second object from v: Version(v) (same or another of the three classes), copy.copy,
    copy.deepcopy, pickle round trip.  The copy-module ways count only where they work at all:
    if one raises, the constructor is used instead (noted in copy_unsupported).
    Returns (new object or None, result string)"""
    import copy
    import pickle
    if how in ("copy", "deepcopy", "pickle"):
        try:
            if how == "copy":
                return copy.copy(v), "ok"
            if how == "deepcopy":
                return copy.deepcopy(v), "ok"
            return pickle.loads(pickle.dumps(v)), "ok"
        except Exception as e:
            copy_unsupported[how] = type(e).__name__
    if how in ("changelog", "block", "dsc", "changes"):
        # indirect users: the version travels through str() inside a changelog / a .dsc / a .changes
        try:
            if how == "changelog":
                from debian.changelog import Changelog
                c = Changelog()
                c.new_block(version=v)
                c.set_version(v)
                return (c.version if len(v.full_version) % 2 else c.get_version()), "ok"
            if how == "block":
                from debian.changelog import ChangeBlock
                return ChangeBlock(version=v).version, "ok"
            from debian import deb822
            d = (deb822.Dsc if how == "dsc" else deb822.Changes)()
            d.set_version(v)
            return d.get_version(), "ok"
        except Exception as e:
            copy_unsupported[how] = type(e).__name__
    if how.startswith("ctor:"):
        cls = get_class(how[5:])
    return outcome(lambda: cls(v))


def do_op(cls, v, op, val, alias=False, how="ctor", kw=False):
    """one public call on object v (None = no object yet); returns (object, result string);
    for "copy" the object returned is the NEW one (v itself when copying failed)"""
    if op == "construct":
        nv, res = outcome((lambda: cls(version=txt(val))) if kw else (lambda: cls(txt(val))))
        return (nv if res == "ok" else None), res
    if op == "copy":
        nv, res = make_copy(cls, v, how)
        return (nv if res == "ok" else v), res
    attr = ATTR[op]
    if op == "revision" and alias:
        attr = "debian_version"
    _, res = outcome(lambda: setattr(v, attr, txt(val)))
    return v, res


def recomposed(o):
    """the statement's 'its epoch, upstream version and revision recompose to it' on observed values"""
    if o["upstream"] == ABSENT:
        return [-2]
    out = []
    if o["epoch"] != ABSENT:
        out += o["epoch"] + [58]
    out += o["upstream"]
    if o["revision"] != ABSENT:
        out += [45] + o["revision"]
    return out


# ------------------------------------------------------------------ (a) CASE replay

def expected_parts(case, segs):
    """components of the concretized text (one segment of code points per model symbol), cut at the
    positions of TLC's decomposition (Lossless, an invariant of the bounded configuration, makes the
    layout epoch : upstream - revision)"""
    d = case["d"]

    def cut(a, b):
        return [x for seg in segs[a:b] for x in seg]
    pos = 0
    ep = up = rev = ABSENT
    if d["epoch"] != ABSENT:
        ep = cut(0, len(d["epoch"]))
        pos = len(d["epoch"]) + 1
    up = cut(pos, pos + len(d["upstream"]))
    pos += len(d["upstream"])
    if d["revision"] != ABSENT:
        rev = cut(pos + 1, pos + 1 + len(d["revision"]))
    return {"full": cut(0, len(segs)), "epoch": ep, "upstream": up, "revision": rev, "key": [ep, up, rev]}


def check_case(clsname, t, valid, unspec, exp, stats=None, deep=True, kw=False):
    """construct clsname from code points t; TLC said valid/unspec and (if valid) the object exp"""
    cls = get_class(clsname)
    v, res = do_op(cls, None, "construct", t, kw=kw)
    if unspec:
        if stats is not None:
            stats[res] = stats.get(res, 0) + 1
        return None
    if res not in ("ok", "ValueError"):
        return "%s(%s) raised %s (specification: %s)" % (clsname, show(t), res[4:], "valid" if valid else "ValueError")
    if valid and res != "ok":
        return "%s(%s) raised ValueError, the specification says it is a valid version" % (clsname, show(t))
    if not valid and res == "ok":
        return "%s(%s) was accepted (full_version %r), the specification says it is not a valid version" % (
            clsname, show(t), getattr(v, "full_version", None))
    if not valid:
        return None
    o, msg, note = observe(v, deep)
    if msg:
        return "%s(%s): %s" % (clsname, show(t), msg)
    if o["key"] is None:            # a just-constructed object: compared with a second one only when deep
        o["key"] = exp["key"]
    if o != exp:
        return "%s(%s): object is %s, the specification decomposes it as %s%s" % (
            clsname, show(t), fmt(o), fmt(exp), "; " + note if note else "")
    if recomposed(o) != list(t):
        return "%s(%s): components recompose to %s" % (clsname, show(t), show(recomposed(o)))
    return None


def fmt(o):
    out = "[full=%s epoch=%s upstream=%s revision=%s" % tuple(show(o[k]) for k in ("full", "epoch", "upstream", "revision"))
    if o.get("key") == BADKEY:
        out += " STALE/incoherent"
    elif "key" in o and o["key"] != [o["epoch"], o["upstream"], o["revision"]]:
        out += " key=(%s)" % ", ".join(show(k) for k in o["key"])
    return out + "]"


# ------------------------------------------------------------------ (b) LTS replay

def check_kept(kept, kept_exp, where):
    """CopyIndependent: the retained object of the last copy still reads back as it was"""
    if kept is None:
        return None
    o, msg, note = observe(kept)
    if msg:
        return "%s: the other object of the copy: %s" % (where, msg)
    if o != kept_exp:
        return "%s: the OTHER object of the earlier copy changed from %s to %s%s" % (
            where, fmt(kept_exp), fmt(o), "; " + note if note else "")
    return None


def run_path(clsname, start, path, sm, aliases, stats=None, deep=True, copies=(("ctor", "new"),)):
    """replay a model behaviour; start = model object to construct directly (NOOBJ: none);
    returns None or a message (verdict observables only).  deep=False: the behavioural comparison
    with a fresh object (KeyFresh) is made after the last step only (hash / == / < are still
    called before every assignment).  copies: (how, "new" | "src") per copy step, cycled: how the
    second object is made and on which of the two the history continues; the other one is kept
    alive and must read back unchanged after every later step (CopyIndependent)"""
    cls = get_class(clsname)
    v = None
    kept, kept_exp, ncopies = None, None, 0
    before = dict(NOOBJ)
    if start["full"] != ABSENT:
        v, res = do_op(cls, None, "construct", sm.cp(start["full"]))
        o, msg, note = observe(v)
        if res != "ok" or msg or o != sm.obj(start):
            return "step 0: %s(%s) -> %s %s, the specification says %s%s" % (
                clsname, show(sm.cp(start["full"])), res, msg or fmt(o), fmt(sm.obj(start)), "; " + note if note else "")
        before = o
    for i, e in enumerate(path):
        op, val = e["op"], sm.cp(e["args"][0])
        last = i == len(path) - 1
        var = int(aliases[i % len(aliases)])     # variant code: 1 debian_version alias, 2 keyword constructor, 4 compare with strings
        how, cont = copies[ncopies % len(copies)] if op == "copy" else ("ctor", "new")
        where = "step %d %s %s%s" % (i + 1, clsname, "%s = " % ("debian_version" if op == "revision" and var & 1 else ATTR[op]) if op in ATTR else "%s[%s, continue on %s] " % (op, how, cont) if op == "copy" else op + (" version=" if var & 2 else " "), show(val))
        if e["res"] == "unspec":
            # executed on a scratch object, any outcome accepted
            scratch = None
            if e["from"]["full"] != ABSENT:
                scratch, _ = do_op(cls, None, "construct", sm.cp(e["from"]["full"]))
                if scratch is None:
                    continue
            _, res = do_op(cls, scratch, op, val, bool(var & 1), kw=bool(var & 2))
            if stats is not None:
                stats[res] = stats.get(res, 0) + 1
            continue
        warm(v)                  # hash / == / < before the call: cached keys now exist
        warm(kept)
        src = v
        v, res = do_op(cls, v, op, val, bool(var & 1), how, kw=bool(var & 2))
        if res != e["res"]:
            return "%s: outcome %s, the specification says %s (object before: %s)" % (where, res, e["res"], fmt(before))
        exp = sm.obj(e["to"])
        if op == "copy":
            ncopies += 1
            new = v
            if cont == "src":
                v = src
            kept, kept_exp = (src if cont == "new" else new), exp
            if type(v) is not cls:
                cls = type(v)
        o, msg, note = observe(v, deep or last, strs=bool(var & 4))
        if msg:
            return "%s: %s" % (where, msg)
        if o["key"] is None:
            o["key"] = exp["key"]
        if o != exp:
            if Attrs(o) == Attrs(exp):
                return "%s (%s, object before: %s): the object is %s but does not behave like a fresh one: %s" % (
                    where, res, fmt(before), fmt(exp), note)
            if res == "ValueError":
                return "%s: ValueError but the object changed from %s to %s" % (where, fmt(before), fmt(o))
            return "%s: object is %s, the specification says %s" % (where, fmt(o), fmt(exp))
        if res == "ok" and recomposed(o) != o["full"]:
            return "%s: components of %s recompose to %s" % (where, fmt(o), show(recomposed(o)))
        if deep or last:
            m = check_kept(kept, kept_exp, "%s (%s)" % (where, res))
            if m:
                return m
        before = o
    return None


def Attrs(o):
    return [o[k] for k in ("full", "epoch", "upstream", "revision")]


# ------------------------------------------------------------------ (c) trace recording
VERCHARS = [ord(c) for c in "0123456789abcxyzABZ.+~"] + [ord(c) for c in "0123456789.."]
REVCHARS = [ord(c) for c in "0123456789abuntuBPO.+~"]


def sized_part(rng, comp, with_colon=False):
    """a version part of boundary length: long digit run, long letter run, mixed, many hyphens,
    many colons (only with an epoch)"""
    n = sized_len(rng)
    chars = REVCHARS if comp == "revision" else VERCHARS
    k = rng.randrange(6)
    if k == 0:
        return run_of(rng, 49, n)
    if k == 1:
        return run_of(rng, 97, n)
    if k == 2 and comp != "revision":
        return [(45 if i % 2 else rng.choice(chars)) for i in range(n | 1)]
    if k == 3 and with_colon:
        return [(58 if i % 3 == 1 else rng.choice(chars)) for i in range(n)] + [49]
    if k == 4:
        return run_of(rng, 49, max(1, n // 2)) + [46] + run_of(rng, 97, max(1, n - n // 2))
    return [rng.choice(chars) for _ in range(n)]


def gen_sized_string(rng):
    s = []
    has_ep = rng.random() < 0.65
    if has_ep:
        s += big_epoch(rng, big=rng.random() < 0.6) + [58]
    s += sized_part(rng, "upstream", has_ep) if rng.random() < 0.6 else [rng.choice(VERCHARS) for _ in range(rng.randint(1, 6))]
    if rng.random() < 0.5:
        s += [45] + (sized_part(rng, "revision") if rng.random() < 0.5 else [rng.choice(REVCHARS) for _ in range(rng.randint(1, 6))])
    if rng.random() < 0.25:
        s = mutate(rng, s)
    return s


def gen_string(rng):
    k = rng.random()
    if k < 0.12:
        return gen_sized_string(rng)
    k = (k - 0.12) / 0.88
    if k < 0.6:
        s = []
        has_ep = rng.random() < 0.4
        if has_ep:
            s += [rng.choice(DIGITS) for _ in range(rng.randint(1, 3))] + [58]
        n = rng.randint(1, 10)
        for _ in range(n):
            r = rng.random()
            s.append(45 if r < 0.08 else 58 if (r < 0.13 and has_ep) else rng.choice(VERCHARS))
        if rng.random() < 0.5:
            s += [45] + [rng.choice(REVCHARS) for _ in range(rng.randint(1, 6))]
        if rng.random() < 0.55:
            for _ in range(rng.randint(1, 2)):
                s = mutate(rng, s)
        return s[:25]
    if k < 0.85:
        n = rng.randint(0, 25)
        return [anychar(rng) for _ in range(n)]
    return [anychar(rng, 0.5) for _ in range(rng.randint(0, 3))]


def anychar(rng, pf=0.08):
    r = rng.random()
    if r < pf:
        return rng.choice(ALL_FOREIGN)
    if r < pf + 0.1:
        return rng.choice([45, 58])
    return rng.choice(VERCHARS)


def mutate(rng, s):
    s = list(s)
    k = rng.randrange(8)
    special = [i for i, c in enumerate(s) if c in (45, 58)]
    pos = rng.choice([0, len(s)] + special + [i + 1 for i in special] + [rng.randint(0, len(s))])
    if k == 0:
        s.append(10)
    elif k == 1:
        s.insert(pos, rng.choice(ALL_FOREIGN))
    elif k == 2 and s:
        del s[min(pos, len(s) - 1)]
    elif k == 3:
        s.insert(pos, rng.choice([45, 58]))
    elif k == 4 and s:
        s[min(pos, len(s) - 1)] = rng.choice(ALL_FOREIGN + [45, 58])
    elif k == 5:
        s.insert(pos, rng.choice(NADIGIT + DIGITS))
    elif k == 6:
        s.insert(0, rng.choice(SPACEY))
    else:
        s.insert(pos, rng.choice(VERCHARS))
    return s


def gen_value(rng, comp):
    r = rng.random()
    if r < 0.10 and comp != "upstream":
        return ABSENT
    if r < 0.12:
        return ABSENT                      # None also for the upstream (unspecified), rarely
    if r < 0.17:
        return []
    if comp == "epoch":
        base = big_epoch(rng, big=rng.random() < 0.6) if rng.random() < 0.35 else [rng.choice(DIGITS) for _ in range(rng.randint(1, 3))]
    elif comp == "revision":
        base = sized_part(rng, comp) if rng.random() < 0.1 else [rng.choice(REVCHARS) for _ in range(rng.randint(1, 6))]
    elif comp == "full":
        return gen_string(rng)
    else:
        base = sized_part(rng, comp, True) if rng.random() < 0.1 else [rng.choice(VERCHARS) for _ in range(rng.randint(1, 8))]
    if rng.random() < 0.45:
        base = mutate(rng, base)
        if rng.random() < 0.3:
            base = mutate(rng, base)
    return base


def record_trace(rng, clsname, s=None, nops=None):
    """a construction and a random assignment sequence on the real class; stops when there is no
    object or after an exception that is not ValueError (the object may be in any condition then).
    A copy keeps BOTH objects alive: the history continues on one of them (rng), the other one is
    read back after every later event (kobs)"""
    cls = get_class(clsname)
    s = gen_string(rng) if s is None else s
    calls = [{"op": "construct", "v": s, "alias": False, "kw": rng.random() < 0.3, "strs": rng.random() < 0.5}]
    n = rng.randint(0, 8) if nops is None else nops
    for _ in range(n):
        op = rng.choice(["epoch", "upstream", "revision", "epoch", "upstream", "revision", "full", "copy", "copy"])
        val = ABSENT if op == "copy" else gen_value(rng, op)
        if op == "full" and val == ABSENT:
            val = []
        c = {"op": op, "v": val, "alias": rng.random() < 0.5, "strs": rng.random() < 0.5}
        if op == "copy":
            c["how"], c["cont"] = rng.choice(COPY_HOW), rng.choice(["new", "src"])
        calls.append(c)
    return execute_calls(clsname, calls)


def execute_calls(clsname, calls):
    cls = get_class(clsname)
    v = kept = None
    events = []
    for c in calls:
        if c["op"] != "construct" and v is None:
            break
        warm(v)
        warm(kept)
        src = v
        v, res = do_op(cls, v, c["op"], c["v"], c.get("alias", False), c.get("how", "ctor"), kw=c.get("kw", False))
        if c["op"] == "copy" and res == "ok":
            new = v
            if c.get("cont", "new") == "src":
                v = src
            kept = src if c.get("cont", "new") == "new" else new
        o, msg, note = observe(v, strs=c.get("strs", False))
        ko, kmsg, knote = observe(kept, strs=not c.get("strs", False))
        if kmsg and not msg:
            msg = "the other object of the copy: " + kmsg
        ev = dict(c, res=res, obs=o, kobs=ko, msg=msg, note=note or (knote and "other object of the copy: " + knote))
        events.append(ev)
        if res not in ("ok", "ValueError"):
            break
    return {"cls": clsname, "events": events}


def re_record(t):
    """re-execute the calls of a recorded trace on the current tree"""
    return execute_calls(t["cls"], [{k: e[k] for k in ("op", "v", "alias", "how", "cont", "kw", "strs") if k in e} for e in t["events"]])


def _o(full, ep, up, rev, key=None):
    f = lambda x: ABSENT if x is None else [ord(c) for c in x]
    return {"full": f(full), "epoch": f(ep), "upstream": f(up), "revision": f(rev),
            "key": [f(x) for x in (key or (ep, up, rev))]}


def _e(op, v, res, obs, kobs=None):
    return {"op": op, "v": ABSENT if v is None else [ord(c) for c in v], "res": res, "obs": obs,
            "kobs": dict(NOOBJ) if kobs is None else kobs}


# a literal history the specification must accept ...
GOOD_TRACE = {"cls": "literal", "events": [
    _e("construct", "1:2.0-3", "ok", _o("1:2.0-3", "1", "2.0", "3")),
    _e("epoch", "5", "ok", _o("5:2.0-3", "5", "2.0", "3")),
    _e("revision", "\xe9", "ValueError", _o("5:2.0-3", "5", "2.0", "3")),
    _e("upstream", "4-1", "ok", _o("5:4-1-3", "5", "4-1", "3")),
    _e("epoch", None, "ok", _o("4-1-3", None, "4-1", "3")),
    _e("epoch", "", "ValueError", _o("4-1-3", None, "4-1", "3")),
    _e("full", "1.0\n", "ValueError", _o("4-1-3", None, "4-1", "3")),
    _e("revision", None, "ok", _o("4-1", None, "4", "1")),
]}


# ... and one with a copy: the retained object stays what it was
_K = ("1:2.0-3", "1", "2.0", "3")
GOOD_TRACE2 = {"cls": "literal", "events": [
    _e("construct", "1:2.0-3", "ok", _o(*_K)),
    _e("copy", None, "ok", _o(*_K), _o(*_K)),
    _e("epoch", "5", "ok", _o("5:2.0-3", "5", "2.0", "3"), _o(*_K)),
    _e("revision", "\xe9", "ValueError", _o("5:2.0-3", "5", "2.0", "3"), _o(*_K)),
    _e("full", "7", "ok", _o("7", None, "7", None), _o(*_K)),
    _e("copy", None, "ok", _o("7", None, "7", None), _o("7", None, "7", None)),
    _e("upstream", "8", "ok", _o("8", None, "8", None), _o("7", None, "7", None)),
]}


def control_traces():
    """... and corrupted copies (one wrong field each) that it must reject"""
    import copy
    out = []

    def variant(i, **kw):
        t = copy.deepcopy(GOOD_TRACE)
        t["events"] = t["events"][:i + 1]
        t["events"][i].update(kw)
        out.append(t)
    variant(2, res="ok")                                               # invalid revision accepted
    variant(2, obs=_o("5:2.0-3", "5", "2.0", "\xe9"))                   # no roll-back
    variant(3, obs=_o("5:4-1-3", "5", "4", "1-3"))                      # revision = after the FIRST hyphen
    variant(4, obs=_o("4-1-3", "0", "4-1", "3"))                        # absent epoch reported as "0"
    variant(5, res="ok", obs=_o(":4-1-3", "", "4-1", "3"))              # empty epoch accepted
    variant(6, res="ok", obs=_o("1.0\n", None, "1.0", None))            # trailing newline accepted
    variant(7, obs=_o("4-1", None, "4-1", None))                        # not re-decomposed
    variant(1, obs=_o("5:2.0-3", "5", "2.0", "3", key=("1", "2.0", "3")))     # stale comparison key after an assignment
    variant(7, obs=_o("4-1", None, "4", "1", key=(None, "4-1", "3")))        # stale key after revision = None
    variant(2, obs=dict(_o("5:2.0-3", "5", "2.0", "3"), key=BADKEY))    # incoherent after a rejected assignment

    def variant2(i, **kw):
        t = copy.deepcopy(GOOD_TRACE2)
        t["events"] = t["events"][:i + 1]
        t["events"][i].update(kw)
        out.append(t)
    variant2(2, kobs=_o("5:2.0-3", "5", "2.0", "3"))                    # the copy shares its parts: assignment shows in the other
    variant2(3, kobs=_o("1:2.0-3", "1", "2.0", "\xe9"))                 # rejected assignment leaks into the other object
    variant2(4, kobs=_o("7", None, "7", None))                          # full_version assignment shows in the other
    variant2(1, kobs=dict(NOOBJ))                                       # nothing retained by the copy
    variant2(6, kobs=dict(_o("7", None, "7", None), key=BADKEY))        # the other object went stale
    out.append({"cls": "literal", "events": [_e("construct", "٣:1", "ok", _o("٣:1", "٣", "1", None))]})
    out.append({"cls": "literal", "events": [_e("construct", "a:1", "ok", _o("a:1", None, "a:1", None))]})
    out.append({"cls": "literal", "events": [_e("construct", "1-1", "ValueError", dict(NOOBJ))]})
    return out


def slim(t):
    return {"cls": t["cls"], "events": [dict({k: e[k] for k in ("op", "v", "res", "obs")}, kobs=e.get("kobs", NOOBJ))
                                        for e in t["events"]]}


def validate(ctx, traces, with_controls=True):
    """TLC validates the traces; returns (rejected 1-based ids, {id: accepted prefix length})"""
    batch = [slim(t) for t in traces] + [slim(GOOD_TRACE2), slim(GOOD_TRACE)]
    controls = control_traces() if with_controls else []
    acc, _, r = core.validate_traces(ctx, "TraceVersionString", "TraceVersionString.cfg", batch,
                                     extra_env={"TRACE_DIAG": "0"}, controls=controls, workers=4)
    if len(batch) not in acc or len(batch) - 1 not in acc:
        raise core.MachineryError("TraceVersionString rejects a literal good trace: trace module broken")
    rejected = [i for i in range(1, len(traces) + 1) if i not in acc]
    info = {}
    if rejected:
        # second, single-worker run on (the first 20 of) the rejected traces: confirms the rejection
        # and tells how far the specification could follow each of them
        sub = [slim(traces[i - 1]) for i in rejected[:20]]
        acc2, prog, _ = core.validate_traces(ctx, "TraceVersionString", "TraceVersionString.cfg", sub,
                                             extra_env={"TRACE_DIAG": "1"}, workers=1)
        for j, i in enumerate(rejected[:20]):
            info[i] = prog.get(j + 1, 0)
        unconfirmed = [i for j, i in enumerate(rejected[:20]) if j + 1 in acc2]
        if unconfirmed:
            raise core.MachineryError("trace validation is not reproducible: traces %r rejected in the batch, accepted alone" % unconfirmed)
    return rejected, info


# ------------------------------------------------------------------ the check

def cfg_variant(name, **subst):
    text = open(os.path.join(core.SPEC, name)).read()
    for k, v in subst.items():
        import re
        text, n = re.subn(r"(?m)^(\s*%s\s*=\s*).*$" % k, lambda m: m.group(1) + str(v), text)
        if n != 1:
            raise core.MachineryError("cfg %s has no constant %s" % (name, k))
    return text


def spec_negative_controls(ctx):
    """the invariants are not vacuous: each constant that switches in a buggy behaviour must make
    TLC report the violation"""
    jobs = [
        ("DollarAnchor", "MC_VersionString_bnd_quick.cfg", dict(DollarAnchor="TRUE", Emit="FALSE", MaxLen=2), "AcceptExact"),
        ("UnicodeDigits", "MC_VersionString_bnd_quick.cfg", dict(UnicodeDigits="TRUE", Emit="FALSE", MaxLen=3), "AcceptExact"),
        ("NoRollback", "MC_VersionString_lts_quick.cfg", dict(NoRollback="TRUE", Emit="FALSE", MaxLen=5), "ImplRefines"),
        ("StaleKey", "MC_VersionString_lts_quick.cfg", dict(StaleKey="TRUE", Emit="FALSE", MaxLen=5), "KeyFresh"),
        ("CopySharesParts", "MC_VersionString_pair_quick.cfg", dict(CopySharesParts="TRUE"), "CopyIndependent"),
    ]

    if ctx.tier == "quick":
        # two of the five per quick run (rotating with the seed), all of them in the thorough tier
        jobs = [jobs[(ctx.seed + k) % len(jobs)] for k in (0, 2)]

    def one(j):
        name, cfg, sub, want = j
        r = ctx.tlc("VersionString", cfg_variant(cfg, **sub), count=False, workers=2, want_tags=set(),
                    java_opts=["-XX:TieredStopAtLevel=1", "-XX:ParallelGCThreads=2", "-XX:CICompilerCount=1"])
        return name, want, r.violated
    with ThreadPoolExecutor(max_workers=len(jobs)) as ex:
        results = list(ex.map(one, jobs))
    out = {}
    for name, want, got in results:
        out[name] = got
        if got != want:
            raise core.MachineryError("spec-level negative control %s: expected %s violated, TLC reports %r" % (name, want, got))
    ctx.extra["spec_negative_controls"] = out


def run(ctx):
    quick = ctx.tier == "quick"
    rng = ctx.rng
    ctx.assumptions += [
        "bounded: every string up to length %d over 12 code points (1 a . + ~ - : space LF _ U+00E9 U+0663); longer strings are sampled (traces up to 25 characters, size-stressed ones up to a few hundred; stretched CASE concretizations rely on the reference layer being invariant under replacing a digit/letter by a run of the same class and are cross-checked by TLC in the trace leg)" % (4 if quick else 5),
        "object LTS closed only up to Len(full_version) <= %d: 'a-b' as revision / '1:2' as epoch grow the version without bound (DESIGN.md called it closed)" % (7 if quick else 11),
        "unspecified, executed but never judged: D2 zone (version characters only: nothing or a colon after the last hyphen, nothing before it), None as upstream, '' as revision, any assignment recomposing into the zone",
        "concretization is class-preserving (the reference layer only tests class membership); concretized cases are cross-checked by trace validation on the concrete code points",
        "trusted: TLC, the projection (full_version/epoch/upstream_version/debian_revision, str, debian_version alias; key = behaves like type(v)(v.full_version) in attributes/str/hash/==/</>/version_compare/order against probes 1.0-1 and 1:0), the concretizer",
    ]
    workers = min(8, core.NCPU)

    # 0. in the background while the replay legs run: spec-level negative controls and the
    #    two-object store (all (obj, kept) pairs: CopyIndependent, KeptConsistent); joined in step 4
    bg = ThreadPoolExecutor(max_workers=2)
    f_pair = bg.submit(ctx.tlc_must_hold, "VersionString",
                       "MC_VersionString_pair_quick.cfg" if quick else "MC_VersionString_pair.cfg",
                       workers=2 if quick else 4, want_tags=set())
    try:
        _run(ctx, quick, rng, workers, bg, f_pair)
    finally:
        bg.shutdown(wait=True)
    # completion order of concurrent TLC runs varies: keep the evidence stable
    ctx.tlc_runs.sort(key=lambda x: (x["module"], str(x["violated"]), -x["distinct"], x["generated"]))


def _run(ctx, quick, rng, workers, bg, f_pair):
    # 1. bounded configuration: design invariants + CASE lines; object LTS: design invariants + EDGE lines
    with ThreadPoolExecutor(max_workers=2) as ex:
        f_bnd = ex.submit(ctx.tlc_must_hold, "VersionString",
                          "MC_VersionString_bnd_quick.cfg" if quick else "MC_VersionString_bnd.cfg",
                          workers=workers if not quick else 3, want_tags={"CASE"})
        f_lts = ex.submit(ctx.tlc_must_hold, "VersionString",
                          "MC_VersionString_lts_quick.cfg" if quick else "MC_VersionString_lts.cfg",
                          workers=3 if quick else 4, want_tags={"EDGE"})
        r_bnd, r_lts = f_bnd.result(), f_lts.result()
    f_nc = bg.submit(spec_negative_controls, ctx)        # overlaps the replay legs
    cases = r_bnd.printed.get("CASE", [])
    if len(cases) != r_bnd.distinct or any(not isinstance(c, dict) for c in cases):
        raise core.MachineryError("bounded configuration: %d CASE lines for %d states" % (len(cases), r_bnd.distinct))
    edges = r_lts.printed.get("EDGE", [])
    if any(not isinstance(e, dict) for e in edges) or len(edges) + 1 != r_lts.generated:
        raise core.MachineryError("LTS configuration: %d EDGE lines for %d generated states" % (len(edges), r_lts.generated))
    cases.sort(key=lambda c: (len(c["s"]), c["s"]))
    edges.sort(key=lambda e: (skey(e["from"]), e["op"], skey(e["args"])))
    g = LTS(edges, NOOBJ)
    zone = {"valid": sum(1 for c in cases if c["valid"]), "unspec": sum(1 for c in cases if c["unspec"]),
            "invalid": sum(1 for c in cases if not c["valid"] and not c["unspec"])}
    ops = {}
    for e in g.edges:
        k = "%s/%s" % (e["op"], e["res"])
        ops[k] = ops.get(k, 0) + 1
    ctx.extra["model"] = {"alphabet": [49, 97, 46, 43, 126, 45, 58, 32, 10, 95, 233, 1635],
                          "max_len": 4 if quick else 5, "strings": len(cases), "zones": zone,
                          "lts_states": len(g.states), "lts_edges": len(g.edges),
                          "lts_max_full_len": 7 if quick else 11}
    ctx.extra["edges_per_action"] = ops

    # 2. (a) every CASE line into the real classes
    nconc = 2 if quick else 4
    unspec_stats = {}
    n_cases = 0
    cross = []                      # concretized cases handed to trace validation as well
    cross_sized = []
    n_sized = 0
    n_bad = 0                       # at most 2 reports per binding leg, so that each leg can speak
    for idx, c in enumerate(cases):
        if n_bad >= 2:
            break
        s = c["s"]
        nontrivial = c["valid"] or c["unspec"] or any(x in PUNCT or x in (10, 1635) for x in s)
        # the canonical form, nconc ordinary concretizations, and a size-stressed one for every case
        # with an epoch and every 5th other case that has a digit or letter to stretch
        sized = (c["d"]["epoch"] != ABSENT or idx % 5 == 0) and any(is_dl(x) for x in s)
        for k in range(nconc + 1 + (1 if sized else 0)):
            segs = [[x] for x in s] if k == 0 else stretch(rng, c) if k > nconc else [[pick(rng, x)] for x in s]
            t = [x for seg in segs for x in seg]
            if k and t == s:
                continue
            if k > nconc:
                n_sized += 1
            exp = expected_parts(c, segs) if (c["valid"] and not c["unspec"]) else None
            names = CLASSES if k == 0 else (ALLC[(idx + k) % 4],)
            kw = (idx + k) % 3 == 1
            bad = None
            for name in names:
                msg = check_case(name, t, c["valid"], c["unspec"], exp, unspec_stats if c["unspec"] else None,
                                 deep=(k == 0 or k > nconc), kw=kw)
                n_cases += 1
                if msg:
                    bad = (name, msg)
                    break
            ctx.case_seen(("case", tuple(s)), nontrivial)
            if bad:
                n_bad += 1
                ctx.violation({"kind": "case", "cls": bad[0], "s": t, "model_s": s, "valid": c["valid"],
                               "unspec": c["unspec"], "expected": exp, "kw": kw}, bad[1])
                break
            if k > nconc:
                if len(cross_sized) < (150 if quick else 1500) and (c["valid"] or idx % 7 == 0) and rng.random() < (0.1 if quick else 0.3):
                    cross_sized.append(t)
            elif k and (c["valid"] or idx % 97 == 0) and len(cross) < (300 if quick else 1500) and rng.random() < 0.2:
                cross.append(t)
    ex_valid = [c for c in cases if c["valid"] and len(c["s"]) >= 4 and (c["d"]["epoch"] != ABSENT or c["d"]["revision"] != ABSENT)] \
        or [c for c in cases if c["valid"]]
    if ex_valid:
        c = ex_valid[len(ex_valid) // 2]
        ctx.sample("CASE %s valid -> epoch=%s upstream=%s revision=%s" % (
            show(c["s"]), show(c["d"]["epoch"]), show(c["d"]["upstream"]), show(c["d"]["revision"])))
    ex_inv = [c for c in cases if not c["valid"] and not c["unspec"] and c["s"] and c["s"][-1] == 10 and len(c["s"]) > 2]
    if ex_inv:
        ctx.sample("CASE %s not valid -> ValueError (and so for %s)" % (
            show(ex_inv[0]["s"]), show([pick(rng, x) for x in ex_inv[0]["s"]])))
    ex_un = [c for c in cases if c["unspec"]]
    if ex_un:
        ctx.sample("CASE %s unspecified (D2): executed, not judged" % show(ex_un[len(ex_un) // 3]["s"]))
    ctx.extra["case_constructions"] = n_cases
    ctx.extra["size_stressed_case_constructions"] = n_sized
    cross += cross_sized
    ctx.extra["unspecified_zone_outcomes"] = {"construct": dict(unspec_stats)}

    # 3. (b) the object LTS: every edge (directly from its source state and along the shortest path
    #    from "no object"), then random walks
    symbols = set()
    for e in g.edges:
        symbols.update(x for x in e["args"][0] if x >= 0)
        symbols.update(x for x in e["to"]["full"] if x >= 0)
    paths = g.paths()
    assign_stats = {}
    n_replayed = 0
    nconc_e = 1 if quick else 2
    n_bad = 0
    n_sized_paths = 0
    n_pair_paths = 0
    copy_edge = {e["_f"]: e for e in g.edges if e["op"] == "copy"}
    for idx, e in enumerate(g.edges):
        if n_bad >= 2:
            break
        # one more, size-stressed concretization (threshold epochs, long runs) for every 6th (quick) / 2nd (thorough) edge
        extra = 1 if idx % (6 if quick else 2) == 0 and e["res"] != "unspec" else 0
        for k in range(nconc_e + extra):
            sm = SymMap() if k == 0 else SymMap(rng, symbols, sized=(k >= nconc_e))
            n_sized_paths += k >= nconc_e
            clsname = ALLC[(idx + k) % 4]
            aliases = [(idx + k) % 8, (idx // 8 + k) % 8]      # variant codes, see run_path
            if (idx + k) % 2 == 0 and e["_f"] in paths:
                start, path = NOOBJ, paths[e["_f"]] + [e]
            else:
                start, path = e["from"], [e]
            # object store: every 4th (quick) / 2nd assignment edge is preceded by the model's Copy self-loop of
            # its source state; the history continues on the copy or on the source, the other one is
            # retained and must not change (accepted AND rejected assignments)
            copies = [[COPY_HOW[(idx // 2 + k) % len(COPY_HOW)], "new" if (idx // 2 + k) % 3 else "src"]]
            if e["op"] in ATTR and e["res"] != "unspec" and (idx // 3 + k) % (4 if quick else 2) == 0 and e["_f"] in copy_edge:
                path = path[:-1] + [copy_edge[e["_f"]], e]
                n_pair_paths += 1
            msg = run_path(clsname, start, path, sm, aliases, assign_stats, deep=False, copies=copies)
            ctx.case_seen(("edge", e["_f"], e["op"], skey(e["args"])), e["res"] != "unspec")
            n_replayed += 1
            if msg:
                n_bad += 1
                ctx.violation({"kind": "path", "cls": clsname, "start": start, "path": [strip(x) for x in path],
                               "sym": sm.to_json(), "aliases": aliases, "copies": copies}, msg)
                break
    mid = [e for e in g.edges if e["res"] == "ValueError" and e["op"] in ("epoch", "upstream", "revision") and e["args"][0] not in (ABSENT, [])]
    if mid:
        e = mid[len(mid) // 2]
        ctx.sample("EDGE %s: %s = %s -> ValueError, object unchanged" % (fmt(e["from"]), ATTR[e["op"]], show(e["args"][0])))
    okc = [e for e in g.edges if e["res"] == "ok" and e["op"] == "revision" and 45 in e["args"][0]]
    if okc:
        e = okc[len(okc) // 2]
        ctx.sample("EDGE %s: debian_revision = %s -> %s" % (fmt(e["from"]), show(e["args"][0]), fmt(e["to"])))
    nwalks, wlen = (300, 25) if quick else (2000, 30)
    keys = sorted(g.states)
    for w in range(nwalks):
        if n_bad >= 3:
            break
        start_key = rng.choice(keys)
        path = g.walk(rng, start_key, wlen, weight=lambda x: 5 if x["op"] == "copy" else 4 if x["res"] == "ok" and x["_f"] != x["_t"] else 1)
        copies = [[rng.choice(COPY_HOW), rng.choice(["new", "src"])] for _ in range(4)]
        n_pair_paths += any(x["op"] == "copy" for x in path)
        sm = SymMap() if w % 4 == 0 else SymMap(rng, symbols, sized=(w % 4 == 1))
        n_sized_paths += w % 4 == 1
        clsname = ALLC[w % 4]
        aliases = [rng.randrange(8) for _ in range(5)]
        msg = run_path(clsname, g.states[start_key], path, sm, aliases, assign_stats, copies=copies)
        ctx.case_seen(("walk", w), True)
        n_replayed += 1
        if msg:
            n_bad += 1
            ctx.violation({"kind": "path", "cls": clsname, "start": g.states[start_key],
                           "path": [strip(x) for x in path], "sym": sm.to_json(), "aliases": aliases, "copies": copies}, msg)
    ctx.extra["behaviours_replayed"] = n_replayed
    ctx.extra["size_stressed_behaviours"] = n_sized_paths
    ctx.extra["behaviours_with_two_live_objects"] = n_pair_paths
    ctx.extra["unspecified_zone_outcomes"]["lts"] = dict(assign_stats)

    # 4. join the background model-checking runs (MachineryError if a design run or a control failed)
    f_nc.result()
    r_pair = f_pair.result()
    ctx.extra["model"].update({"pair_states": r_pair.distinct, "pair_max_full_len": 4 if quick else 5})

    # 5. (c) code -> spec: recorded constructions and assignment sequences validated by TLC
    ntr = 1200 if quick else 8000
    traces = [record_trace(rng, ALLC[i % 4]) for i in range(ntr)]
    for i, t in enumerate(cross):
        traces.append(record_trace(rng, ALLC[i % 4], s=t, nops=rng.choice([0, 0, 3])))
    rejected, info = validate(ctx, traces)
    # str()/alias inconsistencies seen while recording are verdict observables too
    n_bad = 0
    for i, t in enumerate(traces):
        for j, e in enumerate(t["events"]):
            if e.get("msg") and n_bad < 2:
                n_bad += 1
                ctx.violation({"kind": "trace", "trace": t, "first_unexplained_event": j + 1},
                              "%s event %d %s %s: %s" % (t["cls"], j + 1, e["op"], show(e["v"]), e["msg"]))
    ctx.traces += n_replayed + n_cases + len(traces)
    ctx.evaluations += len(traces)
    for i in range(len(traces)):
        ctx.distinct.add(("trace", i))
    long_ok = [t for t in traces if len(t["events"]) >= 4 and t["events"][0]["res"] == "ok"
               and any(e["res"] == "ValueError" for e in t["events"][1:4])
               and any(e["res"] == "ok" for e in t["events"][1:4])] \
        or [t for t in traces if len(t["events"]) >= 3 and t["events"][0]["res"] == "ok"]
    if long_ok:
        t = long_ok[0]
        ctx.sample("recorded %s(%s): %s" % (t["cls"], show(t["events"][0]["v"]), "; ".join(
            "%s=%s -> %s" % (e["op"], show(e["v"]), e["res"] if e["res"] != "ok" else show(e["obs"]["full"]))
            for e in t["events"][1:4])))
    evs = {}
    for t in traces:
        for e in t["events"]:
            k = "%s/%s" % (e["op"], e["res"])
            evs[k] = evs.get(k, 0) + 1
    ctx.extra["trace_events"] = evs
    ctx.extra["traces_recorded"] = len(traces)
    ctx.extra["copy_ways_not_supported_by_the_code"] = dict(copy_unsupported)
    ctx.extra["traces_rejected"] = len(rejected)
    ctx.extra["concretized_cases_cross_checked_by_tlc"] = len(cross)
    for i in rejected[:2]:
        t = traces[i - 1]
        at = info.get(i, 0)
        ev = t["events"][at] if at < len(t["events"]) else None
        what = "?"
        if ev:
            what = "%s %s -> %s, object %s" % (ev["op"], show(ev["v"]), ev["res"], fmt(ev["obs"]))
            if ev.get("note"):
                what += " which does not behave like a fresh one: " + ev["note"]
            if ev.get("kobs", NOOBJ) != NOOBJ:
                what += "; other object of the last copy: %s" % fmt(ev["kobs"])
                if at and t["events"][at - 1].get("kobs", NOOBJ) not in (NOOBJ, ev["kobs"]) and ev["op"] != "copy":
                    what += " (was %s)" % fmt(t["events"][at - 1]["kobs"])
            if at:
                what += " (before: %s)" % fmt(t["events"][at - 1]["obs"])
        ctx.violation({"kind": "trace", "trace": t, "first_unexplained_event": at + 1},
                      "recorded %s history not explained by VersionString at event %d: %s" % (t["cls"], at + 1, what))


def replay(ctx, case):
    if case["kind"] == "case":
        return check_case(case["cls"], case["s"], case["valid"], case["unspec"], case["expected"], kw=case.get("kw", False))
    if case["kind"] == "path":
        return run_path(case["cls"], case["start"], case["path"], SymMap.from_json(case["sym"]), case["aliases"],
                        copies=case.get("copies") or (("ctor", "new"),))
    if case["kind"] == "trace":
        new = re_record(case["trace"])
        for j, e in enumerate(new["events"]):
            if e.get("msg"):
                return "event %d: %s" % (j + 1, e["msg"])
        rejected, info = validate(ctx, [new], with_controls=False)
        if rejected:
            return "history still not explained by the specification at event %d" % (info.get(1, 0) + 1)
        return None
    return "unknown case kind"
