"""C10 -- structural edits of a preserved document only move or insert whole elements.

spec:     spec/ReproDoc.tla (reference: document = parts, paragraph = field instances [n,s,v,c];
          order_first/last/before/after, sort_fields, indexed/unindexed set and delete,
          insert/append of paragraphs, refused insert/append of already owned paragraphs), start documents in spec/MC_ReproDoc.tla
binding:  (a) complete LTS of closed configurations replayed into debian._deb822_repro with
              dump()/keys/(name,i)/re-parse compared after every call
          (b) recorded histories on random documents validated by spec/TraceReproDoc.tla
negative controls: corrupted traces (swapped fields, wrong outcome, lost comment, merged paragraph,
          two tied neighbours exchanged after a keyed sort, a refused append that left a newline token /
          changed the dump); spec level: MC_ReproDoc_neg_owned.cfg (refused append prepares the tail -> ErrAtomic), ForwardLoopInOrderFirst
          (implementation layer) and MC_ReproDoc_neg_sort.cfg (a sort whose ties fall back to the name
          order instead of the current order violates SortLawsFor -> NegSortByLaws reported by TLC)

API surface / domain (the complete table of entry points and input forms is in the docstring of
harness/repro_common.py, shared with C05); what this check adds to the statement's operation list:
  operation of the statement            model action (ReproDoc.tla)          exercised by
  order_first/last/before/after         OrderFirst/OrderLast/Rel             lts legs + trace leg
  sort_fields() / key=None / str.lower  SortFields (RSort)                   lts legs + trace leg
  sort_fields(key=f), sort_fields(f)    SortBy(p, kt) (RSortBy): the         lts legs: every two-valued key table with a smallest
    arbitrary key function; documented     STABLE sort of the CURRENT order     class + the reversed order, from EVERY reachable state
    "same semantics as for sorted"         by kt[name]; invariants              (i.e. after every history of moves / sorts / edits);
    -> in the domain ("sorting fields";    SortByLaws (permutation, ascending,  trace leg: random tables (one-hot first/last, buckets,
    order equals a reference list          ties keep current order) and         constant, 2-4 levels, reversed) on 5- and 30-name
    model = list.sort(key=f))              DefaultSortIsByName                  documents, both paragraph classes
  set/del indexed and unindexed         Assign / Del                         lts legs + trace leg
  Deb822FileElement.insert/append       InsertPara / AppendPara              lts legs (D, E) + trace leg
  REFUSED structural calls as history   AppendOwned(w) / InsertOwned(idx, w):  lts legs (D, E): from every reachable document, every
    steps: append(q) / insert(i, q) of    q belongs to another file (w = 0)    index, owner = other file / first / last paragraph;
    a paragraph that already belongs      or is paragraph w of this document   trace leg: random owner and index inside the ordinary
    to a file (also "the same one         -> ValueError, doc' = doc            histories.  Verdict observables: outcome, projection
    twice"); order_*(absent name)         (ErrAtomic; control RefusedLeaves <-  AND dump() / token text byte-identical to the dump
    -> in the domain: "any sequence of    NegRefusedPreparesTail in            before the call (run_path: model edge refused;
    structural operations"; a refused     MC_ReproDoc_neg_owned.cfg); Move /    traces: observation `same`, judged by TraceReproDoc),
    call is a step that permutes,         Rel with an absent key: Fail         then the history goes on
    removes, inserts nothing
  unspecified: WHETHER insert(i, q) of an owned q in front of an existing paragraph (i < number of
    paragraphs) is refused - the code checks ownership only on the append path; refused -> nothing may
    change (checked), accepted -> the history ends, the document is never judged again (diagnostic drift)
  out of domain / unspecified: key functions that raise or return mutually incomparable values; the
    spelling in which the key function sees a name (it is folded before the table lookup);
    Deb822Dict.sort_fields of debian.deb822 (not a format-preserving document).
input side (SIZE_STRESS part 4): start documents reach the parser through 17 kinds of line source /
  file object (repro_common.FORMS; compressed kinds over memory or a real file) and a share of them
  has a line end steered to 2^k-1 / 2^k / 2^k+1 (k = 9..17, bytes or code points); the expected
  document is form-independent, the TLA+ case is unchanged; evidence in ctx.extra["file_object_kinds"]
  and ctx.extra["aligned_cases"].
"""
import repro_common as rc

MANIFEST = dict(
    technique="TLA+ spec ReproDoc (documents as sequences of field instances; keyed sorts as stable sorts of the current order) model-checked by TLC in closed configurations; complete LTS replayed into the format-preserving parser; recorded histories validated by TLC (TraceReproDoc)",
    text="The reference model makes 'only whole fields/paragraphs are permuted, removed or inserted, byte for byte' literal: the text of a field is a function of its instance record, so the dump must equal the concatenation of instance texts in model order (modulo the one final newline). TLC checks the model's own invariants (no blob duplicated, every keyed sort is the stable sort of the current order, comments stay with their field, separators kept, paragraphs never adjacent, failing calls - including the refused append/insert of a paragraph that already belongs to a file, offered from every reachable document - change nothing) over closed state spaces for paragraphs with unique and duplicated fields, document-level insert/append shapes and a mixed configuration; every LTS transition (quick: a seeded sample plus all transitions near the start) and long random walks are replayed into the real objects with dump, key order, (name,i) resolution, read-back values and a fresh re-parse compared after each call; random histories on random documents (5 names, 1-3 paragraphs, free comments, with/without final newline) are validated by TLC against the same actions.",
    note="Small-scope: 3 names, <= 4 fields per paragraph in the closed configurations; layouts/values are sampled per replay. Out-of-range indexes and re-ordering an absent key relative to itself are unspecified (any error type accepted); deleting the last field of a paragraph is outside the domain; whether insert() in front of an existing paragraph refuses an already owned paragraph is unspecified (refused: the dump must be byte-identical up to a supplied missing final newline; accepted: the history ends); the side of a free comment on which insert() lands and the formatting of newly written values are diagnostics only. Trusted: TLC, the concretizer, the projection by text lookup.",
    design="5 (C10)")

ALLOPS = ["get", "set", "set", "del", "first", "last", "before", "after", "before", "after", "sort", "sortby", "sortby",
          "insert", "append", "appendo", "inserto"]


def run(ctx):
    quick = ctx.tier == "quick"
    ctx.assumptions += [
        "closed configurations over 3 names; layouts, comments, separators and values concretized per replay (seeded)",
        "dump compared modulo one newline at the very end of the document",
        "unspecified: exception type for out-of-range (name, i); order_before/after(k, k) with k absent",
        "unspecified: whether insert(i, q) in front of an existing paragraph refuses a paragraph q that already belongs to a file (accepted -> history ends)",
    ]
    # design-level runs (independent of /repo) go alongside the emission runs of the lts legs
    also = [lambda: impl_layer(ctx, quick), lambda: sort_negative_control(ctx), lambda: owned_negative_control(ctx)]
    binding_legs(ctx, quick, also)


def sort_negative_control(ctx):
    """non-vacuity of SortByLaws: a sort whose ties fall back to the name order is reported"""
    import core
    neg = ctx.tlc("MC_ReproDoc", "MC_ReproDoc_neg_sort.cfg", workers=1, count=False)
    if neg.violated != "NegSortByLaws":
        raise core.MachineryError("negative control: a sort breaking ties by name is not rejected by SortLawsFor (%r)" % (neg.violated,))
    ctx.extra["negative_control_sort_ties_by_name"] = neg.violated


def owned_negative_control(ctx):
    """non-vacuity of ErrAtomic for refused document-level calls: a refused append / insert that
    leaves its separating newline behind the last paragraph is reported"""
    import core
    neg = ctx.tlc("MC_ReproDoc", "MC_ReproDoc_neg_owned.cfg", workers=1, count=False)
    if neg.violated != "ErrAtomic":
        raise core.MachineryError("negative control: a refused append that prepared the tail is not rejected by ErrAtomic (%r)" % (neg.violated,))
    ctx.extra["negative_control_refused_append_prepares_tail"] = neg.violated


def prefer(e, depth):
    """edges replayed first when the budget does not cover a configuration: everything near the start
    and every SUCCESSFUL insert / append (the refused calls are self-loops from every state and would
    otherwise crowd them out of the sample)"""
    return depth <= 1 or e["op"] in ("insert", "append")


def binding_legs(ctx, quick, also):
    if quick:
        rc.lts_legs(ctx, [("MC_ReproDoc_QA.cfg", (1, 2, 3), 1800, 60, 25, 1),
                          ("MC_ReproDoc_QB.cfg", (1, 2, 3), 1800, 60, 25, 1),
                          ("MC_ReproDoc_D.cfg", (1, 2), 1500, 30, 6, 2),
                          ("MC_ReproDoc_E.cfg", (1, 2), 1100, 40, 20, 1)], also, prefer)
        rc.trace_leg(ctx, 300, 20, ALLOPS)
    else:
        rc.lts_legs(ctx, [("MC_ReproDoc_A.cfg", (1, 2, 3), 30000, 600, 40, 2),
                          ("MC_ReproDoc_B.cfg", (1, 2, 3), 40000, 600, 40, 1),
                          ("MC_ReproDoc_C.cfg", (1, 2, 3), 30000, 600, 40, 1),
                          ("MC_ReproDoc_D.cfg", (1, 2), 10 ** 9, 200, 8, 4),
                          ("MC_ReproDoc_E.cfg", (1, 2), 10 ** 9, 300, 30, 3)], also, prefer)
        rc.trace_leg(ctx, 5000, 30, ALLOPS)


def impl_layer(ctx, quick):
    """design level: the two-structure implementation of the duplicate-tolerant paragraph class
    (linked list + per-name node lists) refines the reference for every history; the pre-fix
    order_first loop must be rejected by the same invariants (non-vacuity)"""
    import core
    cfgs = ["MC_ReproParaImpl_B.cfg"] + ([] if quick else ["MC_ReproParaImpl_C.cfg"])
    n = 0
    for cfg in cfgs:
        r = ctx.tlc_must_hold("MC_ReproParaImpl", cfg, workers=3 if quick else None)
        n += r.distinct
    neg = ctx.tlc("MC_ReproParaImpl", "MC_ReproParaImpl_neg.cfg", workers=2, count=False)
    if neg.violated not in ("Refines", "ByNameConsistent"):
        raise core.MachineryError("negative control ForwardLoopInOrderFirst not rejected by the implementation-layer model")
    ctx.extra["impl_layer"] = {"states": n, "negative_control_ForwardLoopInOrderFirst": neg.violated}


def replay(ctx, case):
    if case["kind"] == "path":
        return rc.replay_path_case(case)
    if case["kind"] == "trace":
        return rc.replay_trace_case(ctx, case)
    return "unknown case kind"
