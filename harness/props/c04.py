"""C04 -- well-formed changelogs round-trip byte-for-byte through Changelog.

spec:      spec/Changelog.tla (shared with C15): the five-state line parser of parse_changelog as one
           named branch per branch of the loop with an incremental output, the formatter as inverse
           operator over lines, and a generator automaton of deb-changelog(5)
              GenLeadBlank* (GenHeader (GenChange | GenBlankInBlock)* GenTrailer GenBlankBetween*)+
           running in lock-step with the parser.
           spec/TraceChangelog.tla: trace validation (shared with C15).
           spec/ChangelogVersions.tla (C04 only; uses the dpkg reference of spec/DpkgVersion.tla): see "versions" below.
model checking (Mode "text", Budget 0): every well-formed text of <= 2 blocks, <= 3 body lines per block,
           <= 2 leading and <= 2 separating blank lines (thorough: also 3 blocks with <= 1 separating blank line): NoWarning, RoundTrip
           (Format(Parse(t)) = t), BlocksAsWritten (per block: header, change lines, trailer, trailing
           lines exactly as the generator wrote them, in file order), StrictIffWarn, BookkeepingOK.
           Spec-level negative controls, re-run in every check (each must make TLC report one of the
           named invariants): Bug = "trailingFirst" (formatter emits trailing lines before the
           trailer) -> RoundTrip; "dropInitial" (leading blank lines not stored) -> RoundTrip /
           BlocksAsWritten; "blankEndsBlock" (a blank line inside a block is not a change line)
           -> NoWarning / BlocksAsWritten.
binding:   (a) every CASE line of TLC (class sequence + the block structure the specification's
               parser computed: which line is which block's header / change line / trailer) is
               concretized by the grammar-driven generator of changelog_common (quick: 3 times, the
               first one canonical; thorough: once, the canonical form is tried after a failure to
               attribute it to structure or payload) and replayed: Changelog(text, strict=True) returns
               and the parser emitted no warning (only UserWarning records originating in the repository
               under test count; nothing is turned into an error process-wide; no TLC job runs while
               warnings are captured); str(cl) == text; package, version,
               distributions, urgency, urgency_comment, other_pairs, changes(), author, date of every
               block equal what the generator wrote in the lines TLC assigned to the block;
           (b) random well-formed changelogs of up to 60 lines are parsed prefix by prefix (prefix
               closure); every line is classified by the independent classifier; TLC
               (TraceChangelog) replays the parser automaton on the classes and must explain every
               observation; at every position where the generator automaton accepts the C04
               observables (no warning, strict returns, str() = text, block contents as written) are
               verdict observables.  Every validation run also contains two hand-written golden
               traces (must be accepted) and seven corruptions of them (must be rejected).
histories: formatting is part of the history (Mode "hist", shared with C15): on every two-block changelog
           parsed from a well-formed text, <= 3 (thorough 4) calls out of Fmt (str(changelog) / str(block)),
           attribute assignment on ANY block through the block object, in-place container edits
           (other_pairs[k] = v, changes().append / insert / del, add_trailing_line), new_block, add_change;
           invariant FormatIsCurrent: every observed output is the reference Format of the CURRENT document.
           Negative controls Bug = "BlockRenderCache" / "OlderBlocksMemo" (the two round-2 seeded changes)
           -> FormatIsCurrent.  Binding: every history that ends in a formatting call carries TLC's reference
           output as line tokens; it is concretized with the generator's own grammar functions and must equal
           what str() / bytes() / write_to_open_file() / str(block) return after the same calls on the real
           object (formatting calls before and between the edits as in the history); the output must parse
           strictly without warning to blocks that expose the same fields as the edited object.  Recorded
           formatting histories (up to 12 random calls, formatted after some of them only) on well-formed
           changelogs are validated by TLC; there `output = Format(current document)` is a verdict.
versions:  spec/ChangelogVersions.tla (round 7): WHICH written version a block exposes.  Changelog.tla keeps the version of a
           header as an opaque token; what the handed-out value ANSWERS for another written version is modelled here: a
           changelog of <= 3 blocks whose versions come from one family of near-equal versions pre.run.post (non-digit runs
           that are proper prefixes of one another: '~b' / '~beta', '+d' / '+dfsg', '~' / '~~', '' / '.'; run in the
           upstream middle, at its end, in the revision, behind an epoch; second spellings of the same numbers: 2.00, 0:9,
           01:, -00).  Equality is the dpkg reference of DpkgVersion.tla (DpkgCmp = 0); invariants Identify (a block exposes
           another written version iff both have the same canonical form), PlainDistinct (plain spellings: identity of the
           written strings decides), WrittenFound (every written version is found in the FIRST block written with it);
           negative control Bug = "prefixRuns" (a run that is a prefix of the other compares equal -- the round-7 seeded
           change M) -> Identify.  Binding: every CASE (quick: all 400 two-block ones, every 4th of the 4000 three-block
           ones) is written into an enumerated well-formed text with as many blocks (ordinary C04 verdict with TLC's
           structure on top; no such text in the bounded configuration: a drawn sentence of the grammar, strict + silent +
           round trip), all input forms in turn, and the real object is asked what TLC answered: block.version ==
           Version(k) / reversed / != for every version k of the family, changelog[k] and changelog[Version(k)] (the block
           TLC names, by identity; TLC says "none": any exception, never a block), Version(k) in versions, the versions list.
add_change: where add_change inserts its line is not part of the statement: TLC hands out one reference
           per insertion position and the real output must equal one of them (today's position first; another
           one is specification drift only -- quiet-expected mutant c04-add-change-appends); the added line
           must be present exactly once with the other change lines intact.
sizes:     notes/SIZE_STRESS.md: the abstract case stays, the concretization gets a size dimension: package
           names / versions / lines / names of 33, 255, 1024, 8193, 65537 characters, epochs >= 2**31 and
           2**63, 100 distributions, 100 key=value pairs, boundary dates, runs of 100 / 1000 change or blank
           lines per abstract line, the block sequence repeated 100 / 256 / 1000 times, 100 / 1000 older
           entries appended below a formatting history.  Length-independent by construction: a run of
           change lines takes the CChange self-loop, blank lines HBlank / CBlank, block follows block as in
           the grammar (closed LTS of C15); expectations stay TLC's.
objects:   earlier Changelog objects are kept alive and re-verified (text and fields) after other objects
           were parsed, edited and formatted.  The objects the API hands out as values of their own -- the
           Version objects of block.version / cl.version / cl.get_version() / cl.versions, the versions list
           -- are edited IN PLACE (spec: MutVer leaves the document unchanged; invariant ExposedAsWritten;
           negative control Bug = "InternedVersions"); afterwards the same text (and later other texts with
           the same version strings) is parsed again and must expose what is written.  The version of the
           block whose own handed-out Version was edited is not judged on that object.
api:       entry point / argument                          | exercised as
           Changelog(file) / parse_changelog(file): str, bytes  | judged: every well-formed text; faulted: truncated (incl. inside a character)
           ... file object (text / binary, 9 kinds)             | judged: every kind; faulted: read raises at line k, early EOF, short read inside a character
           ... iterable of str / byte lines (list, tuple, gen)  | judged; faulted: iterator raises at item k (4 exception classes), truncated last item
           strict / allow_empty_author / max_blocks / encoding  | strict=True judged; the others in unjudged earlier parses of a used object
           str() / bytes() / write_to_open_file / str(block)    | judged (round trip, histories); write_to_open_file also with a failing file object (unjudged step)
           block attributes, other_pairs, changes(), versions   | judged (as written; in-place edits in histories)
           block.version ==/!= Version(k), changelog[str / Version] | judged (ChangelogVersions: near-equal versions in one changelog); changelog[int] = iteration
           new_block / add_change / set_* / add_trailing_line   | histories (FormatIsCurrent)
forms:     the text arrives in every form the constructor documents ("str, list of str, or file-like ... an
           iterator of lines such as a filehandle"; the type comment adds bytes and iterables of bytes
           lines; lines with and without newline): str, bytes, StringIO, BytesIO, a real file, lists of
           lines with / without newlines, of bytes lines, a generator, a tuple, and parse_changelog() on a
           new and on an already used object -- identical verdicts (spec: PEofF; the forms differ on
           blank-only texts only, FormsAgree).
faults:    notes/SIZE_STRESS.md part 5 (harness/changelog_faults.py).  The constructor / parse_changelog accept a
           caller-supplied object (file object, iterable of str or byte lines, bytes); the statement says nothing
           about an input that FAILS, so such a call is never judged -- but it is a step of the history, and the
           statement quantifies over all well-formed texts whatever the process did before.  Spec (Mode "reuse"):
           rs.carry in FaultKinds = how the previous parse of the process ended ("exc" the caller's iterator / read
           raised OSError / ValueError / KeyError / a private exception at the first, a middle or the last line;
           "eofLine" / "eofInLine" / "eofInChar" the input ended early at a line end / inside a line / inside a
           multi-byte character: truncated file, short read), rs.f2 in {"text", "lines", "blines"} (byte lines are
           what the parser decodes line by line), KeptTail = <<>> (the reference keeps nothing), InputIntact,
           ParseIsHistoryFree; negative control Bug = "DecoderTail" (round-6 seeded change L).  TraceChangelog: op
           FaultParse (document unchanged, rs.carry set; every later Reparse shows what is written).  Binding:
           (a) one concretization of every third enumerated text is parsed right after a fault step (by another
           object; every fourth time by the object that then parses the text), the judged form rotating through
           all 23 input forms; (a'') every 7th (thorough: every) CASE of Mode "reuse" -- well-formed text x pf x
           f2 x carry, all 30 combinations per text -- is replayed on a used object; (b) a third of the prefix-
           closure traces have fault steps before one or two prefixes, histories draw FaultParse among their calls,
           mostly followed by a Reparse from byte lines; reused_text / reused_obj histories contain fault steps
           on the object under test.  What came out of the faulted parses is evidence only (fault_steps).
           Writers: write_to_open_file(f) with a file object whose first / second write() raises or accepts only
           half of the text (FaultyWriter) is a step of the formatting histories (replay: before any call of a
           TLC history; traces: op FmtFail) -- never judged; formatting reads the document, so document and
           reference output stay what they are and every later output must be current.
characters: notes/SIZE_STRESS.md part 2: decomposed text next to its precomposed twin, singletons, ligatures,
           full-width forms, Hangul jamo, case-mapping hazards, U+FEFF / joiners / soft hyphen / bidi marks,
           non-BMP, white-space look-alikes inside tokens, line-final characters whose UTF-8 form ends in
           every byte 0x80..0xBF, tab / space mixes; D1 characters stay excluded; comparisons by code point.
domain:    DESIGN D1 (no str.splitlines() boundary character inside a line), D2 (valid versions); exactly
           one space after ';' and ', ' between key=value items, "urgency" first and lower-case, no
           commas / trailing white space in values, exactly two spaces before the date, blank lines are
           empty lines -- the forms deb-changelog(5) documents and the formatter emits.
"""
import json
from concurrent.futures import ThreadPoolExecutor

import core
import changelog_common as cc
import changelog_faults as cf

MANIFEST = dict(
    technique="TLA+ spec Changelog (five-state parser automaton with incremental outputs + formatter as inverse operator + deb-changelog(5) generator automaton in lock-step) model-checked by TLC over all bounded well-formed texts; every TLC case replayed with grammar-driven concretizations into Changelog(text, strict=True); prefix-closure traces of random well-formed changelogs validated by TLC (TraceChangelog) on independently classified lines",
    text="TLC enumerates every well-formed changelog of up to 3 blocks with up to 3 body lines each (change lines and blank lines in any order), up to 2 leading and up to 2 separating blank lines, runs the parser automaton in lock-step with the generator and checks in every accepting state that no branch warned, that formatting the parsed document yields the consumed text and that every block holds exactly the header, change lines, trailer and trailing lines the generator wrote, in file order. Each enumerated text carries the block structure computed by the specification and is replayed k times with generated packages, versions (epochs, hyphens, tildes), 1-3 distributions with dots and hyphens, urgency with and without comment, 0-2 extra key=value pairs, change text with non-ASCII, '#', ':', tabs and trailer look-alikes, trailers with and without weekday, 1- and 2-digit day and hour, arbitrary zones, quoted / bracketed / empty names and mails: strict parsing under warnings-as-errors must return, str() must reproduce the text byte for byte and every block attribute must equal what was written. Formatting is part of the history: TLC enumerates short histories of formatting calls, attribute assignments on any block, in-place container edits, new_block and add_change on two-block changelogs and hands out the reference text of the current document for every formatting call; the real object must return exactly that text (after having been formatted before and between the edits) and it must parse back to the same fields. Which written version a block exposes is modelled separately (ChangelogVersions): TLC enumerates every changelog of up to 3 blocks whose versions come from one family of near-equal versions (non-digit runs that are prefixes of one another in four positions, second spellings of the same numbers), decides with the dpkg reference comparison which block answers to which version and which block a look-up finds, and the real object - parsed from an enumerated well-formed text carrying those versions - must answer block.version == Version(k), changelog[k] and changelog[Version(k)] the same way for every version k of the family. In the other direction random well-formed changelogs of up to 60 lines are parsed prefix by prefix, lines are classified by an independent classifier and TLC replays the automaton on the observed counts, flags and interned block contents.",
    note="Small scope for the exhaustive part (<= 3 blocks x <= 3 body lines, formatting histories of <= 4 calls on two-block changelogs); payload characters are sampled (k concretizations per case, seeded; every 150th case size-stressed: long names/versions/lines, epochs >= 2**31, 100 pairs, runs of 100-1000 lines, 100-1000 blocks). Lines never contain a str.splitlines() boundary character (DESIGN D1). Trusted: TLC, the concretizer (it also states what it wrote), the independent classifier, the projections. Faults of caller-supplied inputs (iterator raises at line k; input ends early at a line end, inside a line, inside a multi-byte character) are steps of the histories that are never judged themselves; the parses after them are (Mode reuse: rs.carry x rs.f2 x rs.pf enumerated by TLC). Spec-level negative controls (among them the two formatter caches of the round-2 seeded changes, the sticky per-object flag and the per-process decoder tail) and corrupted control traces are required to fail in every run.",
    design="5 (C04)")

NEG_CONTROLS = [("trailingFirst", {"RoundTrip"}),
                ("dropInitial", {"RoundTrip", "BlocksAsWritten"}),
                ("blankEndsBlock", {"NoWarning", "BlocksAsWritten", "StrictIffWarn"})]

NEG_CFG = """CONSTANTS
  Mode = "text"
  Classes = {}
  AEAs = {FALSE}
  MaxLines = 100
  MaxBlocks = 2
  MaxBody = 2
  MaxLead = 1
  MaxSep = 1
  Budget = 0
  MaxEdits = 0
  Bug = "%s"
  Emit = FALSE
SPECIFICATION Spec
INVARIANT StrictIffWarn
INVARIANT NoWarning
INVARIANT RoundTrip
INVARIANT BlocksAsWritten
CHECK_DEADLOCK FALSE
"""


def neg_control(ctx, bug, want):
    r = ctx.tlc("Changelog", NEG_CFG % bug, count=False, workers=1, want_tags=set(), java_opts=cc.jopts(ctx))
    if r.violated not in want:
        raise core.MachineryError("spec-level negative control Bug=%s: expected one of %s violated, TLC reports %r"
                                  % (bug, sorted(want), r.violated))
    return r.violated


def hist_neg_control(ctx, bug, want):
    r = ctx.tlc("Changelog", cc.hist_cfg(3, 0, bug=bug, emit=False), count=False, workers=1, want_tags=set(), java_opts=cc.jopts(ctx))
    if r.violated not in want:
        raise core.MachineryError("spec-level negative control Bug=%s: expected one of %s violated, TLC reports %r"
                                  % (bug, sorted(want), r.violated))
    return r.violated


def replay_stress(ctx, rng, case, mode, big):
    """one size-stressed concretization of an enumerated text (notes/SIZE_STRESS.md)"""
    lines, contents, struct = cc.stress_case(rng, case["t"], case["doc"], mode, big)
    form = rng.choice(cc.FORMS)
    msg = cc.c04_check(lines, contents, struct, form=form, mutate=len(lines) if not big else None)
    ctx.case_seen(("stress", mode, "".join(x[0] for x in case["t"])), True)
    if msg:
        keep = len(lines) <= 400
        ctx.violation({"kind": "case", "classes": case["t"], "lines": lines if keep else lines[:400], "contents": contents if keep else contents[:400],
                       "struct": struct if keep else {"ini": [], "bl": []}, "stress": mode, "truncated": not keep, "form": form},
                      "size-stressed concretization (%s, %d lines, %d blocks): %s" % (mode, len(lines), len(struct["bl"]), msg))
        return False
    return True


def replay_case(ctx, rng, case, k, key, canonical_first, alive=None, ci=0, mut_every=5):
    """k concretizations.  canonical_first: the first one is the canonical minimal form; otherwise the
    canonical form is only tried after a failure, to attribute it to structure or to payload.
    One concretization of every third case is parsed right AFTER a fault step: a faulting
    input (changelog_faults) was parsed by another object or, every fourth time, by the object that then parses
    the text under test"""
    classes = case["t"]
    struct = case["doc"]
    nontrivial = len(struct["bl"]) > 0
    for j in range(k):
        canonical = canonical_first and j == 0
        lines, contents = cc.conc_text(rng, classes, canonical=canonical, empty_blank=True)
        # the text arrives in every documented input form in turn; every 5th case (thorough: 25th) the Version objects handed
        # out are edited in place afterwards and the text is parsed again
        form = cc.FORMS[(ci + j) % len(cc.FORMS)]
        fault = None
        if ci % 3 == 1 and j == min(1, k - 1):
            fault = dict(cf.fault_plan(rng), same=(ci % 4 == 3))
        msg = cc.c04_check(lines, contents, struct, alive if j == k - 1 else None, form=form,
                           mutate=(ci + j) if (ci % mut_every == 0 and j == k - 1) else None, fault=fault)
        ctx.case_seen(key, nontrivial)
        if msg:
            if not canonical:
                cl, cc_ = cc.conc_text(rng, classes, canonical=True, empty_blank=True)
                m2 = cc.c04_check(cl, cc_, struct, form=form, mutate=(ci + j) if ci % mut_every == 0 else None, fault=fault)
                msg += " [canonical concretization of the same structure: %s]" % ("fails too: " + m2 if m2 else "passes, so the payload matters")
            ctx.violation({"kind": "case", "classes": classes, "lines": lines, "contents": contents, "struct": struct, "form": form,
                           "mutate": (ci + j) if (ci % mut_every == 0 and j == k - 1) else None, "fault": fault}, msg)
            return False
    return True


def replay_reuse(ctx, rng, cases, every):
    """Mode "reuse": every `every`-th CASE of TLC (complete well-formed text x rs.pf x rs.f2 x rs.carry) is replayed:
    the object under test parsed a text with (pf) / without a final newline before; the previous parse of the process
    -- by that object or by another one -- ended as rs.carry says; then the text arrives in a form of the class
    rs.f2 and must show what TLC computed.  Every carry x f2 combination is drawn.  -> number replayed"""
    n = 0
    per = {}
    for ci, c in enumerate(cases):
        key = (c["carry"], c["f2"], c["pf"])
        per[key] = per.get(key, 0) + 1
        if per[key] % every != 1 % every:
            continue
        lines, contents = cc.conc_text(rng, c["t"], canonical=(n % 3 == 0), empty_blank=True)
        forms = cf.F2_FORMS[c["f2"]]
        form = forms[(n // 7 + per[key]) % len(forms)]
        fault = None
        if c["carry"] != "none":
            fault = dict(cf.fault_plan(rng, kind=c["carry"]), same=(per[key] % 2 == 0))
        msg = cc.c04_check(lines, contents, c["doc"], form=form, fault=fault, reuse={"pf": c["pf"]})
        ctx.case_seen(("reuse", "".join(x[0] for x in c["t"]), c["carry"], c["f2"], c["pf"]), True)
        n += 1
        if msg:
            ctx.violation({"kind": "case", "classes": c["t"], "lines": lines, "contents": contents, "struct": c["doc"], "form": form,
                           "fault": fault, "reuse": {"pf": c["pf"]}}, msg)
            if len(ctx.violations) >= 5:
                break
    return n


def versions_neg_control(ctx):
    bug, want = cc.VERSIONS_NEG
    r = ctx.tlc("ChangelogVersions", cc.versions_cfg(2, bug=bug, emit=False), count=False, workers=1, want_tags=set(), java_opts=cc.jopts(ctx))
    if r.violated not in want:
        raise core.MachineryError("spec-level negative control Bug=%s: expected one of %s violated, TLC reports %r" % (bug, sorted(want), r.violated))
    return r.violated


def replay_versions(ctx, rng, vcases, cases, quick):
    """ChangelogVersions.tla: every changelog of 2 (quick: every 4th of 3) blocks whose versions come from one family of
    near-equal versions is written into an enumerated well-formed text with as many blocks (its structure from TLC:
    the ordinary C04 verdict on top) -- or, when the bounded configuration has no text with that many blocks, into a
    drawn sentence of the same grammar -- and asked what TLC answered: which versions every block exposes, which
    block is found under every version of the family.  -> number replayed"""
    by_blocks = {}
    for c in cases:
        by_blocks.setdefault(len(c["doc"]["bl"]), []).append(c)
    n = 0
    for vi, v in enumerate(vcases):
        nb = len(v["ws"])
        if quick and nb > 2 and vi % 4 != 1:
            continue
        pool = by_blocks.get(nb)
        if pool:
            tc = pool[(vi * 7 + n) % len(pool)]
            classes, struct = tc["t"], tc["doc"]
        else:
            classes, struct = cc.blocks_classes(rng, nb), None
        lines, contents = cc.conc_text(rng, classes, canonical=(n % 5 == 0), empty_blank=True, haz=False)
        form = cc.FORMS[n % len(cc.FORMS)]
        msg = cc.c04_versions_check(lines, contents, struct, v, form=form)
        ctx.case_seen(("versions", v["fam"], tuple(v["ws"])), True)
        n += 1
        if msg:
            lines, contents = cc.write_versions(lines, contents, v["ws"])
            ctx.violation({"kind": "versions", "classes": classes, "lines": lines, "contents": contents, "struct": struct, "form": form,
                           "versions": v}, msg)
            if len(ctx.violations) >= 5:
                break
    return n


def run(ctx):
    quick = ctx.tier == "quick"
    rng = ctx.rng
    ctx.assumptions += [
        "exhaustive part: well-formed texts of %s" % ("<= 2 blocks x <= 3 body lines, <= 2 leading / separating blank lines" if quick else "<= 3 blocks x <= 3 body lines, <= 2 leading and <= 1 separating blank lines, plus <= 2 blocks with <= 2 separating blank lines"),
        "lines never contain a str.splitlines() boundary character (DESIGN D1); versions valid per D2",
        "header metadata in the documented form: '; urgency=value[ comment][, key=value]*' (single spaces, no commas in values)",
        "payload characters are sampled: %s" % ("3 seeded concretizations per enumerated text, the first canonical" if quick else "1 seeded concretization per enumerated text (about 90 000 texts)"),
        "trusted: TLC, the concretizer (states what it wrote), the independent line classifier, the projections",
    ]
    # (b) code -> spec: record first (the recorder does not depend on TLC)
    ntr, maxlines = (60, 40) if quick else (300, 60)
    traces = []
    for i in range(ntr):
        _cls, lines, _ = cc.gen_wellformed(rng, rng.choice([6, 12, 25, maxlines]))
        faults = None
        if i % 3 == 1:          # a faulting input is parsed by another object before the parses of one or two prefixes
            faults = {str(rng.randint(1, len(lines))): cf.fault_plan(rng) for _ in range(rng.choice([1, 2]))}
        traces.append(cc.record_parse_trace(lines, aea=bool(i % 5 == 0), wf=True, doc_every=7, form=cc.FORMS[i % len(cc.FORMS)], faults=faults))
    # formatting histories on well-formed changelogs: calls on any block through the block object, in-place
    # container edits, str(block); the changelog is formatted after some calls only (C04 domain: wf = True)
    for i in range(ntr // 2):
        _cls, lines, _ = cc.gen_wellformed(rng, rng.choice([4, 8, 14, 20]))
        t = cc.record_edit_trace(rng, lines, aea=False, nops=rng.randint(2, 12), wf=True, stress=(i % 10 == 9), form=cc.FORMS[(i * 3) % len(cc.FORMS)])
        if t is None:
            ctx.violation({"kind": "case", "classes": [], "lines": lines, "contents": [], "struct": {"ini": [], "bl": []}, "form": cc.FORMS[(i * 3) % len(cc.FORMS)]},
                          "lenient constructor raised on a well-formed text (input form %s; earlier parses of this process: %d well-formed ones, %d of inputs that failed %s)"
                          % (cc.FORMS[(i * 3) % len(cc.FORMS)], len(traces), sum(sum(v.values()) for v in cf.stats().values()), json.dumps(cf.stats())))
            continue
        traces.append(t)
    cfg = "MC_Changelog_c04_quick.cfg" if quick else "MC_Changelog_c04.cfg"
    with ThreadPoolExecutor(max_workers=5) as ex:
        f_traces = ex.submit(cc.validate, ctx, traces)
        f_bnd = ex.submit(ctx.tlc_must_hold, "Changelog", cfg, workers=4 if quick else 8, want_tags={"CASE"}, java_opts=cc.jopts(ctx))
        f_bnd2 = None if quick else ex.submit(ctx.tlc_must_hold, "Changelog", "MC_Changelog_c04_quick.cfg", workers=4, want_tags={"CASE"}, java_opts=cc.jopts(ctx))
        hjobs = [cc.hist_cfg(3, 1)] if quick else [cc.hist_cfg(3, 1), cc.hist_cfg(4, 0)]
        f_hist = [ex.submit(ctx.tlc_must_hold, "Changelog", h, workers=2 if quick else 6, want_tags={"CASE"}, java_opts=cc.jopts(ctx)) for h in hjobs]
        f_neg = [ex.submit(neg_control, ctx, bug, want) for bug, want in NEG_CONTROLS]
        f_hneg = [ex.submit(hist_neg_control, ctx, bug, want) for bug, want in cc.HIST_NEG]
        f_reuse = ex.submit(cc.reuse_controls, ctx, hold=not quick)
        f_rcases = ex.submit(cc.reuse_cases, ctx)
        f_vers = ex.submit(ctx.tlc_must_hold, "ChangelogVersions", cc.versions_cfg(3), workers=2, want_tags={"CASE", "FAM"}, java_opts=cc.jopts(ctx))
        f_vneg = ex.submit(versions_neg_control, ctx)
        r = f_bnd.result()
        r_hist = [f.result() for f in f_hist]
        ctx.extra["spec_negative_controls"] = {bug: f.result() for (bug, _), f in zip(NEG_CONTROLS + cc.HIST_NEG, f_neg + f_hneg)}
        ctx.extra["spec_negative_controls"].update(f_reuse.result())
        rcases, rstates = f_rcases.result()
        r_vers = f_vers.result()
        ctx.extra["spec_negative_controls"][cc.VERSIONS_NEG[0]] = f_vneg.result()
    ctx.tlc_runs.sort(key=lambda x: (-x["distinct"], str(x["violated"])))
    cases = [c for c in r.printed.get("CASE", []) if isinstance(c, dict)]
    if f_bnd2 is not None:          # thorough: 3 blocks with <= 1 separating blank line + 2 blocks with <= 2
        seen = {tuple(c["t"]) for c in cases}
        r2 = f_bnd2.result()
        extra = [c for c in r2.printed.get("CASE", []) if isinstance(c, dict) and tuple(c["t"]) not in seen]
        cases += extra
        r.printed["CASE"] = r.printed.get("CASE", []) + extra
    if not cases or len(cases) != len(r.printed.get("CASE", [])):
        raise core.MachineryError("bounded configuration printed %d CASE lines, %d parsed" % (len(r.printed.get("CASE", [])), len(cases)))
    for c in cases:
        if not c["wf"] or c["nw"] != 0 or c["sr"] or not c["fmt"]:
            raise core.MachineryError("CASE outside the C04 domain: %r" % c)
    cases.sort(key=lambda c: (len(c["t"]), c["t"]))         # the workers print in no fixed order
    ctx.extra["model"] = {"config": cfg, "states": r.distinct, "texts": len(cases),
                          "longest_text": max(len(c["t"]) for c in cases)}

    # (a) spec -> code
    k = 3 if quick else 1
    n = 0
    alive = cc.Alive()
    every = max(1, len(cases) // 40)
    nstress = 0
    stress_every = max(1, len(cases) // (45 if quick else 400))
    big_at = {len(cases) // 3, 2 * len(cases) // 3} if quick else set(range(0, len(cases), max(1, len(cases) // 8)))
    for ci, c in enumerate(cases):
        if not replay_case(ctx, rng, c, k, "case:" + "".join(x[0] for x in c["t"]), canonical_first=quick,
                           alive=alive if ci % every == 0 else None, ci=ci, mut_every=5 if quick else 25):
            if len(ctx.violations) >= 5:
                break
        n += 1
        if c["doc"]["bl"] and (ci % stress_every == 0 or ci in big_at):
            big = ci in big_at
            mode = ["payload", "payload", "lines", "blocks"][nstress % 4] if not big else ["blocks", "lines"][nstress % 2]
            nstress += 1
            if not replay_stress(ctx, rng, c, mode, big) and len(ctx.violations) >= 5:
                break
    m = alive.recheck()
    if m:
        ctx.violation({"kind": "alive", "note": m}, m)
    ctx.extra["cases_replayed"] = n
    ctx.extra["size_stressed_concretizations"] = nstress

    # (a3) which written version the blocks expose: near-equal versions in one changelog
    vcases = cc.version_cases(r_vers)
    if not vcases:
        raise core.MachineryError("ChangelogVersions printed no CASE line")
    nv = replay_versions(ctx, rng, vcases, cases, quick)
    ctx.extra["version_identity"] = {"states": r_vers.distinct, "cases": len(vcases), "replayed": nv,
                                     "families": sorted({c["keys"][0] + " .. " + c["keys"][-1] for c in vcases})}
    vs = vcases[len(vcases) // 2]
    ctx.sample("versions written %r: exposes %s, found under %s -> block %s" % (
        vs["ws"], json.dumps(vs["eq"], separators=(",", ":")), json.dumps(vs["keys"]), json.dumps(vs["lk"])))
    n += nv

    # (a'') a parse depends on nothing but its own input: used objects, faults of caller-supplied inputs before
    rcases.sort(key=lambda c: (len(c["t"]), c["t"], c["carry"], c["f2"], c["pf"]))
    nr = replay_reuse(ctx, rng, rcases, every=7 if quick else 1)
    ctx.extra["reuse_histories"] = {"states": rstates, "cases": len(rcases), "replayed": nr}
    n += nr
    m = alive.recheck()
    if m:
        ctx.violation({"kind": "alive", "note": m}, m)

    # (a') formatting as part of the history
    hcases = []
    for rh in r_hist:
        hcases += [c for c in rh.printed.get("CASE", []) if isinstance(c, dict)]
    hcases.sort(key=lambda c: (len(c["ops"]), len(c["t"]), json.dumps(c, sort_keys=True)))
    seen = set()
    hcases = [c for c in hcases if not (cc.json_key([c["t"], c["ops"]]) in seen or seen.add(cc.json_key([c["t"], c["ops"]])))]
    nh = cc.replay_hist_cases(ctx, rng, hcases, c04=True, nconc=2, nstress=6 if quick else 40, alive=alive)
    m = alive.recheck()
    if m:
        ctx.violation({"kind": "alive", "note": m}, m)
    ctx.extra["format_histories"] = {"states": sum(rh.distinct for rh in r_hist), "cases": len(hcases), "replayed": nh}
    if hcases:
        hc = hcases[len(hcases) * 2 // 3]
        ctx.sample("formatting history on %s: %s; reference output from TLC: %s" % (
            "".join(x[0] for x in hc["t"]), json.dumps(hc["ops"], separators=(",", ":")), json.dumps(hc["out"], separators=(",", ":"))[:300]))
    n += nh
    per_class = {}
    for c in cases:
        for x in c["t"]:
            per_class[x] = per_class.get(x, 0) + 1
    ctx.extra["lines_per_class_in_cases"] = per_class
    ctx.extra["model_constants"] = {"MaxBlocks": 2 if quick else 3, "MaxBody": 3, "MaxLead": 2, "MaxSep": 2 if quick else "1 (3 blocks) / 2 (2 blocks)", "Budget": 0}
    ctx.extra["concretizations_per_case"] = k
    mid = cases[len(cases) // 2]
    lines, _ = cc.conc_text(rng, mid["t"], empty_blank=True)
    ctx.sample("case %s -> %s" % ("".join(x[0] for x in mid["t"]), json.dumps(cc.join(lines), ensure_ascii=False)))
    ctx.sample("structure from TLC for it: " + json.dumps(mid["doc"], separators=(",", ":")))

    # (b) code -> spec (recorded before, validated by TLC in parallel with the model checking)
    viol, drift, info = f_traces.result()
    ctx.traces += n * k + len(traces)
    ctx.evaluations += len(traces)
    for i in range(len(traces)):
        ctx.distinct.add(("trace", i))
    ctx.extra["traces_recorded"] = len(traces)
    ctx.extra["trace_lines"] = sum(len(t["lines"]) for t in traces if t["kind"] == "parse")
    ctx.extra["history_trace_calls"] = sum(len(t["ops"]) for t in traces if t["kind"] == "edit")
    ctx.extra["traces_rejected"] = len(viol)
    ctx.extra["fault_steps"] = cf.stats()           # what came out of the faulted parses (never judged)
    ctx.extra["traces_drifting"] = len(drift)
    for i in drift[:10]:
        ctx.drift("well-formed %s trace %d: diagnostic mismatch at event %d" % (traces[i - 1]["kind"], i, info.get(i, 0) + 1))
    t0 = traces[0]
    ctx.sample("trace (first 2 events of %d): %s" % (len(t0["lines"]), json.dumps(t0["lines"][:2], separators=(",", ":"))))
    for i in viol[:5]:
        t = traces[i - 1]
        at = info.get(i, 0)
        if t["kind"] == "edit":
            ev = t["ops"][at] if at < len(t["ops"]) else None
            ctx.violation({"kind": "trace", "trace": {"kind": "edit", "text": t["text"], "aea": t["aea"], "wf": True, "calls": t["calls"], "iform": t["iform"]},
                           "first_unexplained_event": at + 1},
                          "history on a well-formed changelog, call %d %r: %s" % (
                              at + 1, [t["calls"][at][k] for k in ("op", "i", "x")] if at < len(t["calls"]) else None,
                              "the formatted text is not the text of the current document / not a normal form" if ev and ev.get("ok") else "unexpected exception"))
            continue
        ctx.violation({"kind": "trace", "trace": {"kind": "parse", "text": t["text"], "aea": t["aea"], "wf": True, "iform": t["iform"],
                                                  "faults": t.get("faults") or {}},
                       "first_unexplained_line": at + 1},
                      "well-formed changelog: observation after line %d (%r) not explained by the specification: %s"
                      % (at + 1, t["text"][at] if at < len(t["text"]) else None,
                         json.dumps({k: v for k, v in t["lines"][at].items() if k != "doc"}) if at < len(t["lines"]) else ""))


def replay(ctx, case):
    if case["kind"] == "case" and case.get("truncated"):
        return "the size-stressed text was too large to record; re-run ./check C04 with the same seed"
    if case["kind"] == "case":
        contents = [tuple(c) if isinstance(c, list) else c for c in case["contents"]]
        for c in contents:
            if isinstance(c, dict):
                c["pairs"] = [tuple(p) for p in c["pairs"]]
        return cc.c04_check(case["lines"], contents, case["struct"], form=case.get("form", "str"), mutate=case.get("mutate"),
                            fault=case.get("fault"), reuse=case.get("reuse"))
    if case["kind"] == "versions":
        return cc.c04_versions_check(case["lines"], cc.norm_contents(case["contents"]), case["struct"], case["versions"], form=case.get("form", "str"))
    if case["kind"] == "hist":
        return cc.run_hist(dict(case, contents=cc.norm_contents(case["contents"]), tail_contents=cc.norm_contents(case.get("tail_contents", []))), c04=True)
    if case["kind"] == "alive":
        return "cross-object interference is not replayable from a single case; re-run ./check C04 (%s)" % case.get("note")
    if case["kind"] == "trace":
        t = cc.rerecord(case["trace"])
        if t is None:
            return "lenient constructor raised"
        viol, _drift, info = cc.validate(ctx, [t])
        if viol:
            return "observation after line %d still not explained by the specification" % (info.get(1, 0) + 1)
        return None
    return "unknown case kind"
