"""C13 -- package relationship fields: PkgRelation.str and PkgRelation.parse_relations are inverse.

spec:      spec/PkgRelation.tla        structures (conjunction of alternatives of atoms with the
                                       independent optional parts qualifier / version / arch list /
                                       restriction formula), Format = the token sequence of
                                       PkgRelation.str, ParseAtom = __dep_RE as an automaton over
                                       token kinds (+ parse_archs, parse_restrictions), Parse = the
                                       comma and pipe splitters around it
           spec/PkgRelationCount.tla   the COUNT dimension: the same invariants for structures in which one list
                                       level -- conjunction, alternatives, architecture list, restriction groups,
                                       terms of a group: one join of the formatter and one splitter of the parser
                                       each -- has hundreds of items (quick: 256, 257, 258, 300, 1000 at the first /
                                       a middle / the last position, 65 structures; thorough: 22 counts 1 .. 2049,
                                       286 structures); negative control SplitLimit / LimitedSplits (a splitter that
                                       stops after 256 separators, re.split(pattern, text, 256): the seeded change
                                       C13-seedJ) -> CountProps at 258 items, while LimitBites (the invariants hold
                                       exactly up to 257 items) holds
           spec/PkgRelationEdit.tla    structures obtained by EDITING a parse result IN PLACE: the result of parse_relations
                                       is a tree of mutable objects (result list, conjunct lists, dicts, the arch list,
                                       the restrictions list, its group lists), each with its own mutators.  State: the
                                       structure the caller holds, the edit history, and -- under the formatter -- a
                                       layer that remembers text per dict (from the parse / from every format call)
                                       and forgets it in the mutators of the levels in Forgets.  One action per
                                       mutator call (append / insert / del / item assignment -- also the negated twin of
                                       the namedtuple that is there -- / reverse / key assignment) on every container at
                                       every nesting level, each followed by a format call; EditProps = Inverse,
                                       NoWarning, Stable, well-formed tokens for what the caller holds after EVERY
                                       history, and the layer is invisible (text = Format(cur)).  The edit records and
                                       their value semantics (EditOk / ApplyEdit / EditTrail) live in PkgRelation.tla and
                                       are re-used by the trace module.  Quick: all histories of <= 2 edits of the parse
                                       of a one-atom relation with every optional part, of 1 edit of a three-atom
                                       relation (2747 states); thorough: <= 2 edits of both, <= 3 edits of the parse
                                       of a bare name (nested lists come in by key assignment / inserted atoms and are
                                       edited afterwards).  Negative controls: Remember = parse, Forgets = {key} (only
                                       the dict's own mutators forget: the seeded change C13-seedK) -> EditProps after
                                       ONE nested edit; Remember = format, Forgets = {key}, start = bare name ->
                                       EditProps only after two edits; thorough also Forgets = {key, arch, groups}
                                       (groups inside the formula unwatched) and the layer that forgets at every
                                       level, which must HOLD (MC_PkgRelationEdit_layer.cfg)
           spec/TracePkgRelation.tla   trace validation re-using Format / Parse / EditTrail
model checking (closed): one focus atom ranging over ALL 3612 combinations of the optional parts
           (2 x {none, 5 operators} x arch lists of 1..2 plain/negated entries x formulas of 1..2
           groups of 1..2 plain/negated terms) at every position of every list shape (quick: 1..2
           conjuncts x 1..2 alternatives with at most 2 atoms, context atoms bare names, 18 058
           structures; thorough:
           1..3 x 1..2, context atoms bare / with every part, 368 350 structures); in every state
           Inverse, NoWarning, Stable, TokensWellFormed.
           Spec-level negative controls, re-run in every check (each must make TLC report the named
           invariant): RestrictionsFirst -> NoWarning and Stable, IgnoreNegation -> Inverse,
           PipeFirst -> Inverse, FormatInKeyOrder -> FormatIgnoresKeyOrder (over all 24 orders of
           the optional parts); PkgRelationMemo: SharedNested (+ DeepStore) -> MemoTransparent
           (the quick tier leaves out RestrictionsFirst -> Stable and the DeepStore variant; the
           thorough tier also model-checks the control configuration with every switch off);
           PkgRelationCount: SplitLimit = 256 -> CountProps (thorough: also once per list level, and
           LimitBites alone over all states).
binding:   (a) every CASE line of TLC (the structure and its expected token string) is concretized
               (package names [a-z0-9][a-z0-9+.-]*, versions valid per DESIGN D2, architecture
               names, qualifiers, lower-case profile names) and replayed:
               parse_relations(str(r)) == r, no warning, str(parse(...)) == first string;
               the CASE lines of PkgRelationCount (long lists) go exactly the same way, each with the
               history, the container variants and the relations property;
               the CASE lines of PkgRelationEdit (start relation, edit history, TLC's structure after every edit) are
               replayed as histories: str(start), parse_relations, then every edit is ONE call of the real mutator on
               the PARSED objects (spelling rotates: append / += / extend / insert at the end; del / pop / empty
               slice / remove; item / slice assignment / _replace; d[k] = v / update / pop + re-insert), and after
               every edit (or only after the last: alternating) str / parse_relations / str of what the caller now
               holds: the live object == TLC's structure (ApplyEdit), the parse == TLC's structure, no warning, same
               string again; every other format call is preceded by one on a faulting twin (see below);
           (b) random deeper structures (<= 5 conjuncts x 4 alternatives, 3 arch entries, 3 groups
               x 3 terms) go through the real str / parse_relations / str; the event logs the
               structure, the produced strings as token codes (independent tokenizer below) and the
               parsed-back structure; TLC (TracePkgRelation) must explain the parse with Parse and
               find Inverse / NoWarning / Stable.  Stdlib random seeded from VERIF_SEED is used
               instead of hypothesis (one generator, deterministic per seed).
               Recorded executions end with step 7 (quick: every other one, and not those with 255+ items): the first string is parsed once more, 1 .. 4 random
               applicable edits (any container, any level, new and identical payloads, negated twins) are applied to
               that structure through the real mutators, and it is formatted / parsed / formatted; the trace carries
               the edit records, the abstracted live object and the results; TLC derives the edited structure with
               EditTrail from the parse of step 2 and requires live = e, Parse(string) = parse = e, no warning, stable.
history:   spec/PkgRelationMemo.tla models a memo layer between caller and reference parser with
           object identity for the nested lists (heap cells), actions ParseCall / CallerMutates /
           CallerReplaces and the invariant MemoTransparent (every Parse result equals the
           reference Parse of its text whatever was parsed or edited before); SharedNested = TRUE
           (results share nested lists with the memo: the seeded change C13-seedB), alone or with
           DeepStore = TRUE (only the results of hits share), must make TLC report it.  Binding:
           after every 2nd round trip of (a) and every one of (b) the returned structure is edited in place (append
           to every arch list, reverse / extend every restriction formula, pop keys, reorder the
           outer lists), the same string is parsed again, that result is edited and the string
           parsed a third time, then a different relation sharing an alternative makes the round
           trip, and str(r) is compared before / after formatting an edited deep copy of r (which
           makes its own round trip): all under the same verdicts; in (b) TLC validates the later
           results against the memo-free Parse (steps 5 and 6 of TracePkgRelation).
public entry points (notes/API_SURFACE.md) -> where they are exercised:
  PkgRelation.parse_relations(text)            classmethod, positional     replay, trace, history, probe
  PkgRelation.parse_relations(raw=text)        keyword                     replay + trace (rotating: API_VARIANTS)
  PkgRelation().parse_relations(text)          through an instance         replay + trace (rotating)
  PkgRelation.str(rels) / str(rels=rels) /     staticmethod: positional,   replay + trace (rotating), every str of
    PkgRelation().str(rels)                    keyword, through instance   the history and the relations leg
  input of str: list of lists of dicts         key order (120), list/tuple/plain-tuple containers, structures
                                               returned by parse_relations (also re-keyed), by the relations property;
                                               structures returned by parse_relations and then EDITED IN PLACE at every
                                               nesting level (PkgRelationEdit: in the domain -- "all relation
                                               structures", however the caller came by them): replay of every edit
                                               history of TLC + step 7 of the recorded executions; in every 4th
                                               of both the edited structure is the one the relations property of an
                                               unmodified paragraph returned
  caller-supplied objects that FAIL            (notes/SIZE_STRESS.md part 5) PkgRelation.str(faulting twin of r): the
                                               result list / a conjunct (list subclass whose iteration raises at the
                                               first / a middle / the last item / its end) or a dict (the n-th lookup
                                               raises), CallerFault / OSError / ValueError / KeyError; Cls(f) and
                                               Cls.iter_paragraphs(f) with a generator of str / bytes lines that raises,
                                               a bytes file whose read methods raise at one call, an early EOF inside
                                               the relation field.  The faulted call has NO verdict (the statement is
                                               silent; outcomes counted: faulted_* in the diagnostics); in the model
                                               Format / Parse are functions, a failed call is a stuttering step, so the
                                               ordinary calls that FOLLOW (str of the same r, the relations property
                                               of the same text, the rest of the history) keep their verdicts: every
                                               3rd replayed case, every other format of an edit history, every 3rd
                                               relations leg, every other recorded edit leg
  Packages(...).relations[f]                   10 fields   } VERDICT for a paragraph not modified since
  Sources(...).relations[f]                    7 fields    } construction (mixin_leg): == r, no warning, str of it
  BuildInfo(...).relations[f]                  1 field     } == the string, absent fields [], two live objects
     paragraph built from dict / str / bytes / list of lines / Cls.iter_paragraphs(use_apt_pkg=False) /
     copy.deepcopy; key spelled lower / as in Policy / upper / title case (the dict lower-cases on lookup)
                                               replay: every 8th case and every long-list case, rotating over 18
                                               fields x 34 forms x 4 spellings; trace: every recorded execution
                                               (TLC: pm = Parse(t) = r)
     paragraph read from a FILE OBJECT / line source, by Cls(f) and by Cls.iter_paragraphs(f, use_apt_pkg=False)
     (notes/SIZE_STRESS.md part 4, harness/fileforms_c13.py): io.StringIO, io.BytesIO, io.TextIOWrapper, a real
     file opened 'r' / 'rb' / 'rb' unbuffered, gzip.open(path), io.BufferedReader over a raw stream returning 1..7
     bytes per read, gzip.GzipFile / bz2.BZ2File / lzma.LZMAFile over compressed bytes, SpooledTemporaryFile,
     generators of bytes lines / of str lines without newline    same legs, same verdicts (the expectation does not
                                               depend on the form); a third of these legs reads a text in which a pad
                                               field puts the newline that ends the relation field / the line before
                                               it / the input, or a separator inside the value, on offset 2**k + d
                                               (k = 9 .. 17, d = -2 .. 1; evidence: aligned_cases, aligned_offsets,
                                               file_object_kinds); the long-list fields (10 KB .. 1 MB) cross many
                                               block boundaries by themselves
  relations after d[f] = new / del d[f] /      UNSPECIFIED (lazily computed snapshot of the paragraph as
     a field added after construction          constructed; lead's decision): executed, outcomes counted in the
                                               evidence, the two shapes seen on the pinned tree recorded as drift
  Dsc, Changes, Deb822, Release ...            no relations property (only the three classes above mix it in)
  iter_paragraphs(use_apt_pkg=True)            apt_pkg is not installed in this image (falls back with a warning)
  deprecated aliases                           none exist for PkgRelation / the mixin (function_deprecated_by is
                                               only used for Deb822.isSingleLine / isMultiLine / mergeFields)
  pickle of a parse result                     not part of the statement; raises PicklingError today when the
                                               result has an arch list / formula (namedtuple classes nested in
                                               PkgRelation): recorded under unspecified_outcomes
  characters: package names, versions, architecture names and qualifiers are ASCII by Policy, profile names
  lower-case ASCII (D3): no Unicode stress inside the domain; non-ASCII / NBSP / BOM payloads are executed in
  the unspecified zone only.  Blank stress (tabs, newlines, runs) is the probe leg.
concretization dimensions the abstract structure does not have (PkgRelation.tla: Format is a
           function of the abstract structure only; negative control FormatInKeyOrder):
           key insertion order of the input dicts (all 120 orders of the five keys over a run, a
           different one per atom; parsed dicts re-ordered by d[k] = d.pop(k)): equal structures
           must format identically and parse back; container types (tuples for the lists, plain
           tuples for the entries: same string where the formatter accepts them, rejection is
           unspecified); sizes per notes/SIZE_STRESS.md: payloads of boundary lengths 1 .. 8193,
           epochs of 2 .. 19 digits with leading zeros, boundary numbers up to 10**18, identical items
           -- in the replay (every 16th case, thorough 8th) and in the recorder (4 % of the payloads).
           Tokens are class symbols with ids, so TLC's expectation is length-independent by construction.
counts:    the length of EVERY list level is part of the domain ("a conjunction of alternatives ..."
           of any length; Installed-Build-Depends of real .buildinfo files has 200 - 700 conjuncts):
           (1) PkgRelationCount (above): TLC states the invariants for 256 .. 1000 (thorough .. 2049)
           items at each of the five levels and every such structure is replayed; (2) one ordinary
           case in 512 (thorough 128) is repeated to 9 .. 101, 255 .. 259, 300 or 1000 items at a
           rotating level (big_variant: the items of TLC's case, identical items included); (3) the
           recorder adds, per level, structures with 9 .. 101 items and one with 255 / 256 / 257, one
           with 258 / 259 / 300 and one with 1000 / 1024 / 1025 items (thorough: 255 .. 259, 300, 512
           and one of the thousands) at a random position, which TLC validates like any other trace.
verdict observables: parse_relations(str(r)) == r (TLC: Inverse), no warning (NoWarning), second
           string == first string (Stable), for every call of a history (MemoTransparent) and for the structure
           the caller holds after every in-place edit (EditProps; the structure itself == ApplyEdit); any
           exception.
diagnostic (drift, never an alarm): the produced string differs from the token string predicted by
           Format (blank details of the formatter), namedtuple types of the parsed entries, and "probe"
           traces: parse_relations on formatter output whose blanks were changed at random (and
           sometimes a token dropped) must be predicted by Parse -- this measures that the automaton
           has the blank tolerance of the real regexes, so that a formatter which writes other
           blanks is judged by what the parser really does with them.
unspecified (executed, any outcome accepted): upper-case profile names (the parser lower-cases
           them, DESIGN D3), empty arch / restriction lists, version tuples with None.
"""
import copy
import json
import os
import re
import shutil
import warnings
import zlib
from concurrent.futures import ThreadPoolExecutor

import core
import fileforms_c13 as ff

MANIFEST = dict(
    technique="TLA+ specs PkgRelation + PkgRelationMemo (formatter as token sequence, the dependency regex as an automaton over token kinds with its optional groups in fixed order, the comma/pipe/blank/restriction splitters) model-checked by TLC over the closed space of all optional-part combinations x list shapes; every TLC case replayed into PkgRelation.str/parse_relations with concretized payloads; recorded executions on deeper random structures validated by TLC (TracePkgRelation); a memo layer with shared nested lists as history model, histories with in-place edits of returned structures replayed and recorded; a count module (PkgRelationCount) with one long list per structure at each of the five list levels of the grammar; an edit module (PkgRelationEdit) enumerating the histories of in-place mutator calls on a parse result at every nesting level, with a text-remembering layer under the formatter as negative control",
    text="TLC enumerates every relation made of one focus atom -- all 3612 combinations of architecture qualifier, version constraint with each of the five operators, architecture lists of 1-2 plain or negated entries and restriction formulas of 1-2 groups of 1-2 plain or negated terms -- at every position of every list shape up to 3 conjuncts of 2 alternatives, surrounded by context atoms, and checks in each state Parse(Format(r)) = r, that the parser's warning fallback is never taken and Format(Parse(Format(r))) = Format(r); Parse is the one big regex written as an automaton over token kinds (name, qualifier, operator, version, arch, '!', profile, brackets, separators, blanks) with exactly the blank tolerance of the code. Each enumerated structure carries TLC's expected token string and is replayed into the real PkgRelation.str / parse_relations with package names over [a-z0-9+.-], versions with epoch, '~', '+' and hyphenated revisions, real architecture names, qualifiers and lower-case profile names: the parse must equal the structure exactly, without a warning, and formatting again must give the same string. In the other direction random deeper structures (5x4 atoms, 3 arch entries, 3x3 restriction terms) are formatted and parsed by the real code, the strings are tokenized independently and TLC must explain the parsed-back structure with Parse and find it equal to the input. The quick tier enumerates lists of up to 2 atoms (one alternative, two alternatives, two conjuncts) with bare-name context atoms (18 058 structures), the thorough tier up to 3 x 2 with bare and fully-equipped context atoms (368 350 structures).",
    note="Characters inside a payload token are sampled, not enumerated; profile names are lower case (DESIGN D3: the parser lower-cases them). The exact blanks written by the formatter are diagnostic only (drift). Trusted: TLC, the concretizer, the small context-sensitive tokenizer used for the recorded strings (a wrong tokenization is rejected by TLC, never accepted). A diagnostic leg (never an alarm) feeds strings with randomly changed blanks to the real parser and lets TLC predict the outcome, warning path included. The round trip is also checked as a history: a small TLA+ model of a memo layer with object identity (PkgRelationMemo) states that no earlier call or caller-side edit may influence Parse; after every replayed case and every recorded execution the returned structure is edited in place, the same string is parsed twice more and a relation sharing an alternative makes the round trip, under the same verdicts. Input dicts are built with all 120 key insertion orders, tuple / plain-tuple containers and size-stressed payloads (boundary lengths up to 8193 characters, epochs up to 19 digits). The length of every list level is a dimension of its own: a second TLA+ module (PkgRelationCount) states the same invariants for structures in which the conjunction, the alternatives of a conjunct, an architecture list, the groups of a restriction formula or the terms of a group have 256, 257, 258, 300 and 1000 items (thorough: 22 counts up to 2049), each replayed like any other case; ordinary cases are repeated to such counts and recorded executions with 255 - 1025 items per level are validated by TLC. The relations property is read from paragraphs built from str, bytes, lists, dicts and from fourteen kinds of file object / line source (real files buffered and unbuffered, short-read streams, gzip / bz2 / lzma wrappers, spooled files, generators) through the constructor and iter_paragraphs, a third of them with a line end or a separator of the value placed on a block boundary (2**9 .. 2**17, -2 .. +1). Structures obtained by editing a parse result in place are a TLA+ module of their own (PkgRelationEdit): every history of up to two (thorough: three) mutator calls -- append, insert, delete, item assignment, negated twin of a namedtuple, reverse, key assignment -- on every container at every nesting level of the parsed tree is enumerated by TLC with the structure the caller then holds, replayed through the real list / dict methods (several spellings per mutator) and judged by the same invariants after every edit; recorded executions end with random edits whose result TLC re-derives (EditTrail). A layer that remembers text per dict and forgets it only in the dict's own mutators is the negative control. Format calls on faulting twins of the caller's containers and paragraph constructions from failing line sources precede ordinary calls, which keep their verdicts. Eleven spec-level negative controls (seven in the quick tier; seventeen TLC runs in the thorough tier) and the corrupted control traces are required to fail in every run.",
    design="5 (C13)")

OPS = ["<<", "<=", "=", ">=", ">>"]
KINDS = ["name", "colon", "qual", "lpar", "op", "ver", "rpar", "lbr", "bang", "arch", "rbr", "lt", "prof", "gt",
         "comma", "pipe", "sp", "x"]
KNO = {k: i + 1 for i, k in enumerate(KINDS)}
TOKBASE = 100000   # token code = kind * TOKBASE + id (PkgRelation.tla: TokBase)
BAD = TOKBASE - 1  # token code of the id Bad
BAD_ID = -1        # Bad in structures
_WORD = re.compile(r"[A-Za-z0-9.+~_-]+")
_VERWORD = re.compile(r"[A-Za-z0-9.+~:_-]+")
FIXED_TEXT = {"colon": ":", "lpar": "(", "rpar": ")", "lbr": "[", "rbr": "]", "lt": "<", "gt": ">", "bang": "!",
              "comma": ",", "pipe": "|", "sp": " "}
PAYLOAD_KINDS = ("name", "qual", "ver", "arch", "prof")
NEG_CONTROLS = [("RestrictionsFirst", "NoWarning"), ("RestrictionsFirst", "Stable"),
                ("IgnoreNegation", "Inverse"), ("PipeFirst", "Inverse"), ("FormatInKeyOrder", "FormatIgnoresKeyOrder")]

# ------------------------------------------------------------------ concretization
NAME_POOL = ["libc6", "g++", "libstdc++6", "python3.11-dev", "0ad", "4ti2", "a2ps", "libgtk-3-0", "x11-common",
             "gcc-13-base", "lib32z1", "c++-annotations", "libsigc++-2.0-0v5", "7zip", "dpkg", "e2fsprogs",
             "fonts-dejavu-core", "r-cran-mass", "node-d3", "libqt5core5a", "z3", "ab", "a+", "9base",
             "libapt-pkg6.0", "tcl8.6-dev", "debhelper-compat", "m4", "texlive-base", "a.b-c+d"]
QUAL_POOL = ["any", "native", "amd64", "i386", "arm64", "all", "armhf", "riscv64"]
ARCH_POOL = ["amd64", "linux-any", "hurd-i386", "any-arm", "i386", "kfreebsd-amd64", "any", "armhf", "any-any",
             "gnu-any-any", "musl-linux-armhf", "x32", "s390x", "hurd-any", "arm64", "ppc64el"]
PROF_POOL = ["nocheck", "stage1", "cross", "pkg.foo.bar", "nodoc", "stage2", "noudeb", "nobiarch", "pkg.gcc.nolang-d",
             "noinsttest", "pkg.src-pkg.with+plus", "nojava", "nopython", "noguile", "pkg.a.b", "x1"]
NAME_REST = "abcdefghijklmnopqrstuvwxyz0123456789+.-"
VER_UP = "ABCxyzabcdefg0123456789.+~"
POOLS = {"qual": QUAL_POOL, "arch": ARCH_POOL, "prof": PROF_POOL}


def canon_payload(kind, i):
    """the canonical text of payload id i + 1 (tables of any size: the long lists of PkgRelationCount)"""
    if kind == "name":
        return "a%d" % (i + 1)
    if kind == "ver":
        return "%d.0" % (i + 1)
    pool = POOLS[kind]
    return pool[i] if i < len(pool) else "%s%d" % ({"qual": "q", "arch": "cpu", "prof": "prof"}[kind], i + 1)


# size dimension of the concretization (notes/SIZE_STRESS.md): the tokens of the specification are
# class symbols with an id, so the expectation TLC derives is length-independent by construction
BOUNDARY_LENGTHS = (1, 2, 7, 8, 9, 15, 16, 17, 31, 32, 33, 63, 64, 65, 71, 72, 73, 79, 80, 81, 127, 128, 129,
                    255, 256, 257, 1023, 1024, 1025, 4095, 4096, 4097, 8191, 8192, 8193)
BOUNDARY_NUMBERS = (0, 9, 10, 99, 100, 2 ** 15, 2 ** 16, 2 ** 31 - 1, 2 ** 31, 2 ** 32 - 1, 2 ** 32, 2 ** 63 - 1,
                    2 ** 63, 10 ** 18)
BOUNDARY_COUNTS = (9, 10, 11, 16, 17, 31, 32, 33, 99, 100, 101)
# every list level of the grammar (conjunction, alternatives, architecture list, restriction groups, terms of a
# group) is split by its own regex: counts around and beyond a byte-sized bound (re.split(..., 256)), 1000+
LEVELS = ("conj", "alt", "arch", "groups", "terms")
LEVEL_NAMES = {"conj": "conjuncts", "alt": "alternatives", "arch": "architecture list entries",
               "groups": "restriction groups", "terms": "terms of a restriction group"}
NEAR_COUNTS = (255, 256, 257)
BEYOND_COUNTS = (258, 259, 300)
FAR_COUNTS = (1000, 1024, 1025)
LONG_COUNTS = BOUNDARY_COUNTS + NEAR_COUNTS + BEYOND_COUNTS + FAR_COUNTS[:1]


def boundary_length(rng):
    """heavy-tailed: mostly up to 81, regularly 127..257, now and then 1023..8193"""
    r = rng.random()
    pool = BOUNDARY_LENGTHS[:20] if r < 0.6 else BOUNDARY_LENGTHS[20:26] if r < 0.88 else BOUNDARY_LENGTHS[26:]
    return rng.choice(pool)


def gen_epoch(rng, stress=False):
    r = rng.random()
    if not stress and r < 0.6:
        return str(rng.choice((0, 1, 2, 10, 2024)))
    if r < 0.5:
        e = str(rng.choice(BOUNDARY_NUMBERS))
    else:                                           # 2 .. 12 digits
        e = "".join(rng.choice("0123456789") for _ in range(rng.randint(2, 12)))
    if rng.random() < 0.25:
        e = "0" * rng.choice((1, 2, 5)) + e           # leading zeros
    return e


def _word(rng, first, rest, n):
    return rng.choice(first) + "".join(rng.choice(rest) for _ in range(n - 1))


def gen_name(rng, length=None):
    if length is None:
        if rng.random() < 0.5:
            return rng.choice(NAME_POOL)
        length = rng.choice((1, 1, 2, 3, 5, 8, 14)) + 1
    return _word(rng, NAME_REST[:36], NAME_REST, max(length, 2))    # Policy: at least two characters


def gen_version(rng, length=None):
    """valid per DESIGN D2: [0-9]+: ? upstream over [A-Za-z0-9.+~] plus '-' (and ':' only with an epoch),
    then, if a hyphen is present, a non-empty revision over [A-Za-z0-9+.~] after the last one"""
    stress = length is not None
    epoch = rng.random() < (0.6 if stress else 0.35)
    revision = rng.random() < 0.6
    alpha = VER_UP + ("-" if revision else "") + (":" if epoch and rng.random() < 0.3 else "")
    first = rng.choice("0123456789") if rng.random() < 0.85 else rng.choice(VER_UP)
    nrev = rng.choice((1, 1, 2, 4)) if not stress else rng.choice((1, 2, max(1, length // 2)))
    nup = rng.choice((0, 1, 2, 3, 5, 9)) if not stress else max(0, length - 1 - (nrev + 1 if revision else 0))
    v = first + "".join(rng.choice(alpha) for _ in range(nup))
    if revision:
        v += "-" + "".join(rng.choice(VER_UP) for _ in range(nrev))
    if epoch:
        v = gen_epoch(rng, stress) + ":" + v
    return v


def gen_payload(rng, kind, length=None):
    """length None: ordinary payload; otherwise a payload of (about) that many characters"""
    if kind == "name":
        return gen_name(rng, length)
    if kind == "ver":
        return gen_version(rng, length)
    if length is not None:
        if kind == "qual":
            return _word(rng, NAME_REST[:36], NAME_REST[:36] + "-", length)
        if kind == "arch":
            return _word(rng, NAME_REST[:36], NAME_REST[:36] + "-", length)
        return _word(rng, NAME_REST[:36], NAME_REST, length)           # lower-case profile name
    if kind == "qual":
        return rng.choice(QUAL_POOL)
    if kind == "arch":
        return rng.choice(ARCH_POOL)
    if rng.random() < 0.8:
        return rng.choice(PROF_POOL)
    return "pkg.%s.%s" % (gen_name(rng), rng.choice(("nodoc", "stage1", "with-x", "no+y", "a1")))


class Conc:
    """id -> text, injective per payload kind (ids are 1-based; text[kind][0] is unused)"""

    def __init__(self, text):
        self.text = text
        self.rev = {k: {s: i for i, s in enumerate(v) if i} for k, v in text.items()}

    @classmethod
    def draw(cls, rng, need, canonical=False, stress=False, maxlen=None):
        """stress: every payload gets a boundary length (names, versions, architecture names,
        qualifiers, profile names of 1 .. 8193 characters -- at most maxlen --, epochs of up to 12 and
        more digits)"""
        text = {}
        for kind in PAYLOAD_KINDS:
            n = need.get(kind, 0)
            if canonical:
                vals = [canon_payload(kind, i) for i in range(n)]
            else:
                vals, seen = [], set()
                while len(vals) < n:
                    # a table larger than the pool of real names (long lists) continues with generated words
                    wide = kind in POOLS and len(vals) >= len(POOLS[kind]) - 1
                    s = gen_payload(rng, kind, min(boundary_length(rng), maxlen or 8193) if stress else
                                    rng.choice((2, 3, 4, 5, 6, 8, 11, 14)) if wide else None)
                    if s not in seen or (stress and len(s) < 3):
                        while s in seen:
                            s += str(len(vals))
                        vals.append(s)
                        seen.add(s)
            text[kind] = [None] + vals
        return cls(text)

    def to_json(self):
        return self.text

    def intern(self, kind, s):
        """id of a payload string; a string the table does not have gets a fresh id (recorded traces);
        text that is not ONE word of the field syntax (the raw text the fallback path returns as a
        name, an empty architecture name, ...) is Bad, as in the specification"""
        if not (_VERWORD if kind == "ver" else _WORD).fullmatch(s):
            return BAD_ID
        i = self.rev[kind].get(s)
        if i is None:
            self.text[kind].append(s)
            i = len(self.text[kind]) - 1
            self.rev[kind][s] = i
        return i


def empty_conc():
    return Conc({k: [None] for k in PAYLOAD_KINDS})


# ------------------------------------------------------------------ abstract <-> Python structures
# abstract atom: {"name": id, "q": id|0, "v": {"some", "op", "ver"}, "a": {"some", "l": [{"e", "id"}]},
#                 "r": {"some", "l": [[{"e", "id"}]]}}   (the records of PkgRelation.tla)

def case_to_abstract(rel):
    """compact CASE form (EncRel; [] = None) -> abstract form"""
    out = []
    for alts in rel:
        o = []
        for a in alts:
            o.append({"name": a["n"], "q": a["q"],
                      "v": {"some": True, "op": a["v"][0], "ver": a["v"][1]} if a["v"] else {"some": False, "op": 0, "ver": 0},
                      "a": {"some": bool(a["a"]), "l": [{"e": bool(e), "id": i} for e, i in a["a"]]},
                      "r": {"some": bool(a["r"]), "l": [[{"e": bool(e), "id": i} for e, i in g] for g in a["r"]]}})
        out.append(o)
    return out


def need_of(rel):
    need = dict.fromkeys(PAYLOAD_KINDS, 0)
    for alts in rel:
        for a in alts:
            need["name"] = max(need["name"], a["name"])
            need["qual"] = max(need["qual"], a["q"])
            need["ver"] = max(need["ver"], a["v"]["ver"])
            for e in a["a"]["l"]:
                need["arch"] = max(need["arch"], e["id"])
            for g in a["r"]["l"]:
                for e in g:
                    need["prof"] = max(need["prof"], e["id"])
    return need


KEYS = ("name", "archqual", "version", "arch", "restrictions")


def _perms(xs):
    if len(xs) <= 1:
        return [list(xs)]
    return [[x] + p for i, x in enumerate(xs) for p in _perms(xs[:i] + xs[i + 1:])]


KEY_ORDERS = _perms(list(KEYS))          # all 120 insertion orders of the five documented keys


def build_atom(a, conc, containers="list"):
    """one abstract atom -> the dict parse_relations returns for it (fresh objects at every level)"""
    from debian.deb822 import PkgRelation
    t = conc.text
    seq = tuple if containers == "tuple" else list
    AR = (lambda e, x: (e, x)) if containers == "plain" else PkgRelation.ArchRestriction
    BR = (lambda e, x: (e, x)) if containers == "plain" else PkgRelation.BuildRestriction
    return {
        "name": t["name"][a["name"]],
        "archqual": t["qual"][a["q"]] if a["q"] else None,
        "version": (OPS[a["v"]["op"] - 1], t["ver"][a["v"]["ver"]]) if a["v"]["some"] else None,
        "arch": seq(AR(e["e"], t["arch"][e["id"]]) for e in a["a"]["l"]) if a["a"]["some"] else None,
        "restrictions": seq(seq(BR(e["e"], t["prof"][e["id"]]) for e in g)
                            for g in a["r"]["l"]) if a["r"]["some"] else None,
    }


def build(rel, conc, order=None, containers="list"):
    """abstract structure -> the Python form parse_relations returns.  What the abstract structure
    does not have is a dimension of the concretization:
      order       None: keys inserted in the order of parse_relations; n: atom i gets the
                  insertion order KEY_ORDERS[(n + 37 * i) % 120] -- an equal dict, the same structure
      containers  "list" (what parse_relations returns) / "tuple": the arch list, the formula and
                  its groups are tuples / "plain": the entries are plain tuples, not namedtuples"""
    out = []
    i = 0
    for alts in rel:
        o = []
        for a in alts:
            d = build_atom(a, conc, containers)
            if order is not None:
                d = {k: d[k] for k in KEY_ORDERS[(order + 37 * i) % len(KEY_ORDERS)]}
            o.append(d)
            i += 1
        out.append(o)
    return out


def reinsert_keys(p, order):
    """a caller re-orders the keys of parsed dicts by pop / re-insert (the dicts stay equal)"""
    i = 0
    for alts in p:
        for d in alts:
            for k in KEY_ORDERS[(order + 37 * i) % len(KEY_ORDERS)]:
                if k in d:
                    d[k] = d.pop(k)
            i += 1


class Malformed(Exception):
    pass


def abstract(py, conc):
    """projection of a parse result to the abstract form (strings interned through conc); raises
    Malformed when the value is not a list of lists of dicts of the documented shape"""
    def entry(x):
        if not isinstance(x, tuple) or len(x) != 2 or not isinstance(x[0], bool) or not isinstance(x[1], str):
            raise Malformed("entry %r" % (x,))
        return x
    try:
        out = []
        if not isinstance(py, list):
            raise Malformed("result %r" % (py,))
        for alts in py:
            if not isinstance(alts, list):
                raise Malformed("conjunct %r" % (alts,))
            o = []
            for d in alts:
                if not isinstance(d, dict) or set(d) != {"name", "archqual", "version", "arch", "restrictions"}:
                    raise Malformed("atom %r" % (d,))
                if not isinstance(d["name"], str) or not (d["archqual"] is None or isinstance(d["archqual"], str)):
                    raise Malformed("atom %r" % (d,))
                v = d["version"]
                if v is None:
                    av = {"some": False, "op": 0, "ver": 0}
                else:
                    if not isinstance(v, tuple) or len(v) != 2 or not all(isinstance(x, str) for x in v):
                        raise Malformed("version %r" % (v,))
                    av = {"some": True, "op": OPS.index(v[0]) + 1 if v[0] in OPS else 0, "ver": conc.intern("ver", v[1])}
                a = d["arch"]
                if a is None:
                    aa = {"some": False, "l": []}
                else:
                    if not isinstance(a, list):
                        raise Malformed("arch %r" % (a,))
                    aa = {"some": True, "l": [{"e": entry(x)[0], "id": conc.intern("arch", x[1])} for x in a]}
                r = d["restrictions"]
                if r is None:
                    ar = {"some": False, "l": []}
                else:
                    if not isinstance(r, list) or not all(isinstance(g, list) for g in r):
                        raise Malformed("restrictions %r" % (r,))
                    ar = {"some": True, "l": [[{"e": entry(x)[0], "id": conc.intern("prof", x[1])} for x in g] for g in r]}
                o.append({"name": conc.intern("name", d["name"]),
                          "q": conc.intern("qual", d["archqual"]) if d["archqual"] is not None else 0,
                          "v": av, "a": aa, "r": ar})
            out.append(o)
        return out
    except Malformed:
        raise
    except Exception as e:       # noqa: BLE001 -- odd containers
        raise Malformed("%s: %s" % (type(e).__name__, e))


def tokens_to_text(codes, conc):
    """the string TLC predicts: concretization of a token code sequence"""
    out = []
    for c in codes:
        k, i = KINDS[c // TOKBASE - 1], c % TOKBASE
        if k in FIXED_TEXT:
            out.append(FIXED_TEXT[k])
        elif k == "op":
            out.append(OPS[i - 1] if 1 <= i <= len(OPS) else "?")
        elif k == "x" or i == BAD:
            out.append("?")
        else:
            out.append(conc.text[k][i])
    return "".join(out)


# ------------------------------------------------------------------ independent tokenizer
# Written from the field syntax of Debian Policy 7.1 / BuildProfileSpec, not from the regexes of the
# code: name[:qualifier] (op version) [!arch ...] <!profile ...> ..., separated by ',' and '|'.
# The class of a word is decided by the bracket it stands in.
_OPRUN = re.compile(r"[<>=]+")
_BLANK = re.compile(r"\s+")


def tokenize(s, conc):
    """string -> token codes (kind * 1000 + id); payload ids through conc.intern"""
    out = []
    mode = "top"
    i, n = 0, len(s)
    after_colon = False

    def emit(kind, ident=0):
        if ident >= BAD:
            raise core.MachineryError("payload id %d does not fit the token code" % ident)
        out.append(KNO[kind] * TOKBASE + (BAD if ident == BAD_ID else ident))
    while i < n:
        c = s[i]
        m = _BLANK.match(s, i)
        if m:
            emit("sp")
            after_colon = False
            i = m.end()
            continue
        if c in ",|":                # separators of the field at any depth: they end an unclosed bracket
            emit("comma" if c == "," else "pipe")
            mode, after_colon = "top", False
            i += 1
            continue
        if mode == "top":
            single = {":": "colon", "(": "lpar", "[": "lbr", "<": "lt"}.get(c)
            if single:
                emit(single)
                mode = {"(": "par", "[": "br", "<": "ang"}.get(c, "top")
                after_colon = c == ":"
                i += 1
                continue
            m = _WORD.match(s, i)
            if m:
                kind = "qual" if after_colon else "name"
                emit(kind, conc.intern(kind, m.group(0)))
                after_colon = False
                i = m.end()
                continue
        elif mode == "par":
            if c == ")":
                emit("rpar")
                mode = "top"
                i += 1
                continue
            m = _OPRUN.match(s, i)
            if m:
                emit("op", OPS.index(m.group(0)) + 1 if m.group(0) in OPS else 0)
                i = m.end()
                continue
            m = _VERWORD.match(s, i)
            if m:
                emit("ver", conc.intern("ver", m.group(0)))
                i = m.end()
                continue
        else:
            close, word = ("]", "arch") if mode == "br" else (">", "prof")
            if c == close:
                emit("rbr" if mode == "br" else "gt")
                mode = "top"
                i += 1
                continue
            if c == "!":
                emit("bang")
                i += 1
                continue
            if c == "<" and mode == "ang":
                emit("lt")
                i += 1
                continue
            m = _WORD.match(s, i)
            if m:
                emit(word, conc.intern(word, m.group(0)))
                i = m.end()
                continue
        emit("x")
        after_colon = False
        i += 1
    return out


# ------------------------------------------------------------------ driving the real code

def emitted(w):
    """the warnings of a catch_warnings(record=True) list that the calls under observation emitted:
    a ResourceWarning is raised by the garbage collector for whatever object it happens to finalize
    (catch_warnings is process-wide, other harness threads run meanwhile); deprecation / import / bytes
    warnings are not the parser's either"""
    # the file a record is attributed to depends on the stacklevel the library passes to warn(): it is not looked at
    # (a benign change of the stacklevel must not hide warnings, nor must this filter make a tree look silent)
    skip = (ResourceWarning, DeprecationWarning, PendingDeprecationWarning, ImportWarning, BytesWarning)
    return [x for x in w if not issubclass(x.category, skip)]


API_VARIANTS = 6


def call_str(rels, api=0):
    """PkgRelation.str through every public calling convention (a staticmethod)"""
    from debian.deb822 import PkgRelation
    k = api % 3
    if k == 0:
        return PkgRelation.str(rels)
    if k == 1:
        return PkgRelation.str(rels=rels)
    return PkgRelation().str(rels)


def call_parse(text, api=0):
    """PkgRelation.parse_relations through every public calling convention (a classmethod)"""
    from debian.deb822 import PkgRelation
    k = (api // 3 + api) % 3
    if k == 0:
        return PkgRelation.parse_relations(text)
    if k == 1:
        return PkgRelation.parse_relations(raw=text)
    return PkgRelation().parse_relations(text)


# ---- faults of caller-supplied objects (notes/SIZE_STRESS.md part 5).  PkgRelation.str takes the caller's
# containers, the paragraph classes behind `relations` take the caller's file object / line iterator.  A faulting
# twin fails at one step (first / middle / last); the statement says nothing about such a call (its outcome is
# counted: the caller's exception should come out), in the model Format / Parse are functions and the failed call
# is a stuttering step -- so the ORDINARY calls that follow on the same objects, in the same process, keep their
# verdicts.  That is where a formatter / reader that kept half of the failed work shows.
class CallerFault(Exception):
    pass


FAULT_EXCS = (CallerFault, OSError, ValueError, KeyError)


class FaultyList(list):
    """the caller's list; iterating it raises after `at` items (negative: counted from the end)"""
    fault_at, fault_exc = 0, CallerFault

    def __iter__(self):
        at = self.fault_at if self.fault_at >= 0 else max(len(self) + self.fault_at, 0)
        for n, x in enumerate(list.__iter__(self)):
            if n == at:
                raise self.fault_exc("the caller's list fails at item %d" % n)
            yield x
        if at >= len(self):
            raise self.fault_exc("the caller's list fails at its end")


class FaultyDict(dict):
    """the caller's dict; the `at`-th lookup (get / []) raises"""
    fault_at, fault_exc, _n = 0, CallerFault, 0

    def _tick(self):
        self._n += 1
        if self._n - 1 == self.fault_at:
            raise self.fault_exc("the caller's dict fails at lookup %d" % (self._n - 1))

    def get(self, *a):
        self._tick()
        return dict.get(self, *a)

    def __getitem__(self, k):
        self._tick()
        return dict.__getitem__(self, k)


def faulted_str(r_py, k, diag):
    """PkgRelation.str with a faulting twin of the caller's structure: the result list, one conjunct or one dict fails
    at the first / a middle / the last step or at its end (the objects inside are the caller's own, shared with r_py)"""
    k = zlib.crc32(b"fault %d" % k)
    exc = FAULT_EXCS[k % len(FAULT_EXCS)]
    at = (0, 1, -1, 2)[(k >> 2) % 4]
    where = (k >> 4) % 3
    try:
        if where == 0 or not r_py:
            twin = FaultyList(r_py)
            twin.fault_at, twin.fault_exc = at, exc
        else:
            twin = list(r_py)
            i = (k >> 6) % len(twin)
            if where == 1 or not twin[i]:
                twin[i] = FaultyList(twin[i])
            else:
                twin[i] = list(twin[i])
                j = (k >> 8) % len(twin[i])
                twin[i][j] = FaultyDict(twin[i][j])
                twin[i][j].fault_at, twin[i][j].fault_exc = abs(at) + (k >> 10) % 4, exc
            if isinstance(twin[i], FaultyList):
                twin[i].fault_at, twin[i].fault_exc = at, exc
        with warnings.catch_warnings(record=True):
            warnings.simplefilter("always")
            call_str(twin, k)
        key = "faulted_str_returned_normally"
    except exc:
        key = "faulted_str_raised_the_caller's_exception"
    except Exception as e:       # noqa: BLE001 -- counted, no verdict
        key = "faulted_str_raised_" + type(e).__name__
    if diag is not None:
        diag[key] = diag.get(key, 0) + 1
    return "%s failing with %s at step %d: %s" % (("the result list", "a conjunct", "a dict")[where], exc.__name__, at, key)


def faulted_paragraph(cls_name, field, value, k, diag):
    """Cls(f) / Cls.iter_paragraphs(f) with a faulting twin of the caller's line source: a generator of lines (str /
    bytes) that raises after some lines, a bytes file whose read methods raise at one call, an early EOF inside
    the relation field"""
    import io
    import debian.deb822 as m
    cls = getattr(m, cls_name)
    exc = FAULT_EXCS[k % len(FAULT_EXCS)]
    text = "Package: zz\nX-Pad: %s\n%s: %s\nX-Last: 1\n" % ("p" * (k % 97), field, value)
    lines = text.split("\n")[:-1]
    at = (0, 2, len(lines) - 1, len(lines))[(k >> 2) % 4]
    kind = (k >> 4) % 4

    def gen(as_bytes):
        for n, line in enumerate(lines):
            if n == at:
                raise exc("the caller's line source fails at line %d" % n)
            yield (line + "\n").encode("utf-8") if as_bytes else line + "\n"
        raise exc("the caller's line source fails at its end")

    class Flaky(io.BytesIO):
        calls = 0

        def _tick(self):
            Flaky.calls += 1
            if Flaky.calls - 1 == at:
                raise exc("the caller's file fails at call %d" % (Flaky.calls - 1))

        def readline(self, *a):
            self._tick()
            return io.BytesIO.readline(self, *a)

        def read(self, *a):
            self._tick()
            return io.BytesIO.read(self, *a)

        def __next__(self):
            self._tick()
            return io.BytesIO.__next__(self)
    try:
        with warnings.catch_warnings(record=True):
            warnings.simplefilter("always")
            if kind == 3:                     # early EOF: the text stops inside the relation field
                cut = text.index(field) + len(field) + 2 + len(value) // 2
                src = io.BytesIO(text[:cut].encode("utf-8"))
            else:
                src = gen(kind == 1) if kind < 2 else Flaky(text.encode("utf-8"))
            if (k >> 6) % 2:
                o = next(iter(cls.iter_paragraphs(src, use_apt_pkg=False)))
            else:
                o = cls(src)
            o.relations[field.lower()]
        key = "early_eof_paragraph_read" if kind == 3 else "faulted_paragraph_source_returned_normally"
    except exc:
        key = "faulted_paragraph_source_raised_the_caller's_exception"
    except Exception as e:       # noqa: BLE001 -- counted, no verdict
        key = "faulted_paragraph_source_raised_" + type(e).__name__
    diag[key] = diag.get(key, 0) + 1


def run_real(r_py, api=0, fault=None, diag=None):
    """str -> parse_relations -> str on the real class (api: which calling conventions).
    Exceptions and warnings are observations.  fault: a number -- the valid calls are preceded by a call
    of PkgRelation.str on a faulting twin of r (faulted_str)"""
    out = {"s": None, "p": None, "s2": None, "warn": [], "exc": ""}
    stage = "PkgRelation.str"
    if fault is not None:
        out["faulted"] = faulted_str(r_py, fault, diag)
    with warnings.catch_warnings(record=True) as w:
        warnings.simplefilter("always")
        try:
            out["s"] = call_str(r_py, api)
            stage = "parse_relations"
            out["p"] = call_parse(out["s"], api)
            stage = "PkgRelation.str of the parse"
            out["s2"] = call_str(out["p"], api + 1)
        except Exception as e:       # noqa: BLE001 -- observation
            out["exc"] = "%s in %s: %s" % (type(e).__name__, stage, e)
    out["warn"] = ["%s: %s" % (x.category.__name__, x.message) for x in emitted(w)]
    return out


# ---- the relation fields of paragraph objects (_PkgRelationMixin.relations)
MIXIN_FIELDS = (
    [("Packages", f) for f in ("Depends", "Pre-Depends", "Recommends", "Suggests", "Breaks", "Conflicts", "Provides",
                               "Replaces", "Enhances", "Built-Using")]
    + [("Sources", f) for f in ("Build-Depends", "Build-Depends-Indep", "Build-Depends-Arch", "Build-Conflicts",
                                "Build-Conflicts-Indep", "Build-Conflicts-Arch", "Binary")]
    + [("BuildInfo", "Installed-Build-Depends")])
# input forms of a paragraph: the in-memory ones, then every kind of file object / line source
# (notes/SIZE_STRESS.md part 4) handed to the constructor ("file:") and to Cls.iter_paragraphs ("iter:")
MIXIN_FORMS = (("dict", "str", "bytes", "lines", "iter_paragraphs", "deepcopy")
               + tuple("file:" + k for k in ff.FILE_KINDS) + tuple("iter:" + k for k in ff.FILE_KINDS))
UNBUFFERED = "buffering=0"


def make_paragraph(cls_name, field, value, form, align=None, note=None):
    """a paragraph object of class cls_name whose relation field `field` has the text `value`, built from
    the input form `form`.  align (a number, see fileforms_c13.aligned_paragraph): the text gets a pad
    field that puts a line end / a separator of the value on a block boundary (2**9 .. 2**17); what was
    done is appended to the list `note`."""
    import debian.deb822 as m
    cls = getattr(m, cls_name)
    text = "Package: zz\n" + ("%s: %s\n" % (field, value) if value is not None else "")
    if form == "dict":
        return cls(dict([("Package", "zz")] + ([(field, value)] if value is not None else [])))
    if align is not None and value is not None and not (UNBUFFERED in form and len(value) > 6000):
        trailer = "\nPackage: yy\n%s: zz-second\n" % field if form.startswith("iter") and align % 2 else ""
        t, desc = ff.aligned_paragraph(field, value, align // 2, trailer)
        if t is not None and not (UNBUFFERED in form and len(t) > 20000):
            text = t
            if note is not None:
                note.append(desc)
    if form == "str":
        return cls(text)
    if form == "bytes":
        return cls(text.encode("utf-8"))
    if form == "lines":
        return cls(text.splitlines(True))
    if form == "iter_paragraphs":
        return next(iter(cls.iter_paragraphs(text.splitlines(True), use_apt_pkg=False)))
    if form == "deepcopy":
        return copy.deepcopy(cls(text))
    how, kind = form.split(":", 1)
    with ff.Opened(kind, text.encode("utf-8"), salt=len(text)) as f:
        if how == "file":
            return cls(f)
        return next(iter(cls.iter_paragraphs(f, use_apt_pkg=False)))


def mixin_plan(k):
    """what the number k selects: class + field, two input forms, the alignment"""
    cls_name, field = MIXIN_FIELDS[k % len(MIXIN_FIELDS)]
    form = MIXIN_FORMS[(k // len(MIXIN_FIELDS)) % len(MIXIN_FORMS)]
    form2 = MIXIN_FORMS[(k // len(MIXIN_FIELDS) + 1 + k % 4 + 6 * (k % 5)) % len(MIXIN_FORMS)]
    align = (k >> 7) if (k >> 5) % 3 == 0 else None
    return cls_name, field, form, form2, align


def count_form(diag, form, notes):
    if form.startswith(("file:", "iter:")):
        diag["fobj|" + form] = diag.get("fobj|" + form, 0) + 1
    for n in notes:
        key = "align|%s (%s)" % (re.sub(r" at offset.*", "", n), form.split(":")[0])
        diag[key] = diag.get(key, 0) + 1
        key = "alignat|" + re.sub(r".* at offset ", "", n)
        diag[key] = diag.get(key, 0) + 1


def spell(field, k):
    return (field.lower(), field, field.upper(), field.title())[k % 4]


def mixin_leg(r_py, s, k, diag):
    """the string the formatter wrote for r, read back through the `relations` property of a paragraph
    object that is NOT modified after construction: same statement, same verdicts.  k selects class,
    field, input form and key spelling.  Afterwards (UNSPECIFIED, outcomes counted): `relations` after
    the field was assigned / deleted, and a field added after construction."""
    cls_name, field, form, form2, align = mixin_plan(k)
    notes, notes2 = [], []
    where = "%s(%s input).relations[%r] for %s: %s" % (cls_name, form, spell(field, k), field, ab(s))
    if k % 3 == 0 and len(s) < 20000:
        faulted_paragraph(cls_name, field, s, k >> 3, diag)     # then the ordinary leg, in the same process
    try:
        with warnings.catch_warnings(record=True) as w:
            warnings.simplefilter("always")
            o1 = make_paragraph(cls_name, field, s, form, align, notes)
            o2 = make_paragraph(cls_name, field, s, form2, None if align is None else align + 3, notes2)   # a second live object, another variant
            if notes:
                where = "%s(%s input; a pad field puts %s).relations[%r] for %s: %s" % (
                    cls_name, form, notes[0], spell(field, k), field, ab(s))
            count_form(diag, form, notes)
            count_form(diag, form2, notes2)
            got = o1.relations[spell(field, k)]
            other = [f for c, f in MIXIN_FIELDS if c == cls_name and f != field]
            absent = o1.relations[other[k % len(other)].lower()] if other else []
            eq = got == r_py
            shown = ab(got, 150) + ("; first difference: " + where_differs(got, r_py) if not eq and len(repr(r_py)) > 1200 else "")
            again = call_str(got, k)
            edit_in_place(got)                                      # the caller edits what it got from o1
            got2 = o2.relations[spell(field, k + 1)]
            eq2 = got2 == r_py
        w = emitted(w)
    except Exception as e:       # noqa: BLE001 -- observation
        return "%s raised %s: %s" % (where, type(e).__name__, e)
    if not eq:
        return "%s = %s, specification (Inverse): %s" % (where, shown, ab(r_py))
    if w:
        return "%s emitted %s" % (where, ab("%s: %s" % (w[0].category.__name__, w[0].message)))
    if again != s:
        return "PkgRelation.str of %s = %s" % (where, ab(again))
    if absent != []:
        return "%s: a relation field that is absent gives %r, not []" % (where, absent)
    if not eq2:
        return "%s: a second paragraph object (%s input%s) gives %r after the caller edited the first one's result in place" % (
            where, form2, "; a pad field puts " + notes2[0] if notes2 else "", ab(got2))
    # ---- unspecified zone: the paragraph is modified after construction
    try:
        with warnings.catch_warnings(record=True):
            warnings.simplefilter("always")
            o3 = make_paragraph(cls_name, field, s, form)
            o3.relations
            o3[field] = "zz-other"
            stale = o3.relations[field.lower()] != call_parse("zz-other")
            del o3[field]
            stale_del = o3.relations[field.lower()] != []
            o4 = make_paragraph(cls_name, field, None, form)
            o4[field] = s
            late = o4.relations[field.lower()] == r_py
        for name, flag in (("relations_after_assignment_is_the_old_parse", stale),
                           ("relations_after_deletion_is_the_old_parse", stale_del),
                           ("relations_of_a_field_added_after_construction_is_parsed", late)):
            diag["unspecified_%s_%s" % (name, flag)] = diag.get("unspecified_%s_%s" % (name, flag), 0) + 1
    except Exception as e:       # noqa: BLE001 -- unspecified
        diag["unspecified_modified_paragraph_raised_" + type(e).__name__] = diag.get(
            "unspecified_modified_paragraph_raised_" + type(e).__name__, 0) + 1
    return None


def ab_s(t, keep=600):
    """for messages: the head and the tail of a long text (fields of hundreds of relations)"""
    return t if len(t) <= 2 * keep + 60 else "%s ...[%d characters]... %s" % (t[:keep], len(t) - 2 * keep, t[-keep:])


def ab(x, keep=600):
    return ab_s(repr(x), keep)


def where_differs(got, want, path="result"):
    """message text only: the first place where a returned structure differs from the expected one"""
    if isinstance(got, (list, tuple)) and isinstance(want, (list, tuple)) and not (want and isinstance(want[0], (bool, str)) and len(want) == 2):
        for i, (g, w) in enumerate(zip(got, want)):
            if g != w:
                return where_differs(g, w, "%s[%d]" % (path, i)) + (
                    "; %s has %d items, expected %d" % (path, len(got), len(want)) if len(got) != len(want) else "")
        return "%s has %d items, expected %d" % (path, len(got), len(want))
    if isinstance(got, dict) and isinstance(want, dict):
        for k in want:
            if k not in got or got[k] != want[k]:
                return where_differs(got.get(k, "<missing>"), want[k], "%s[%r]" % (path, k))
    return "%s is %s, expected %s" % (path, ab(got, 150), ab(want, 150))


def judge(r_py, o):
    """verdict observables of the property (_judge); says when the calls came right after a faulted one"""
    msg = _judge(r_py, o)
    if msg and o.get("faulted"):
        msg += " -- these calls came right after PkgRelation.str on a faulting twin of r (%s): a failed call must leave nothing behind" % o["faulted"]
    return msg


def _judge(r_py, o):
    """verdict observables of the property; the expected values are TLC's (Inverse: the parse is the
    structure itself; NoWarning; Stable)"""
    if o["exc"]:
        return "str(r) = %s; raised %s; specification: parses back to r" % (ab(o["s"]), ab(o["exc"]))
    if o["p"] != r_py:
        if len(repr(r_py)) > 1200:          # a long field: where the parse differs comes first
            return "parse_relations(str(r)) differs from r (Inverse) at %s%s; str(r) = %s; parse = %s; r = %s" % (
                where_differs(o["p"], r_py), ("; warning %s" % ab(o["warn"][0], 150)) if o["warn"] else "",
                ab(o["s"], 150), ab(o["p"], 150), ab(r_py, 150))
        return "parse_relations(%s) = %s, specification (Inverse): %s%s" % (
            ab(o["s"]), ab(o["p"]), ab(r_py), ("; warning %s" % ab(o["warn"][0])) if o["warn"] else "")
    if o["warn"]:
        return "parse_relations(%s) emitted %s, specification (NoWarning): none" % (ab(o["s"]), ab(o["warn"][0]))
    if o["s2"] != o["s"]:
        return "str(parse_relations(%s)) = %s, specification (Stable): the same string" % (ab(o["s"]), ab(o["s2"]))
    return None


# ---- the round trip as a history (spec/PkgRelationMemo.tla): nothing an earlier call returned, and
# nothing the caller did to it, may influence a later parse or format

def edit_in_place(p):
    """what a caller may do to a structure it got from parse_relations: every nested list is edited
    IN PLACE (append / reverse), keys are popped and replaced, the outer lists are reordered"""
    from debian.deb822 import PkgRelation
    try:
        for alts in p:
            for d in alts:
                a = d.get("arch")
                if isinstance(a, list):
                    a.append(PkgRelation.ArchRestriction(False, "bogus-arch"))
                    a.reverse()
                r = d.get("restrictions")
                if isinstance(r, list):
                    for g in r:
                        if isinstance(g, list):
                            g.reverse()
                            g.append(PkgRelation.BuildRestriction(True, "bogus"))
                    r.append([PkgRelation.BuildRestriction(False, "extra")])
                d.pop("version", None)
                d.pop("archqual", None)
                d["name"] = "edited-%s" % (d.get("name"),)
            alts.reverse()
        p.append([])
    except Exception:            # noqa: BLE001 -- a result of the wrong shape was judged before
        pass


def edited_copy(r_py):
    """a deep copy of r with its nested lists edited -- still a structure of the domain"""
    from debian.deb822 import PkgRelation
    rc = copy.deepcopy(r_py)
    for alts in rc:
        for d in alts:
            if d["arch"] is not None:
                d["arch"].reverse()
                d["arch"].append(PkgRelation.ArchRestriction(False, "bogus-arch"))
            if d["restrictions"] is not None:
                for g in d["restrictions"]:
                    g.reverse()
                    g.append(PkgRelation.BuildRestriction(True, "bogus"))
                d["restrictions"].append([PkgRelation.BuildRestriction(False, "extra")])
            if d["version"] is not None:
                d["version"] = (">>" if d["version"][0] != ">>" else "=", d["version"][1] + "+b1")
    return rc


def sharing_structure(r_py):
    """a different relation that shares one alternative with r (the first one with a nested list)"""
    atoms = [d for alts in r_py for d in alts]
    pick = next((d for d in atoms if d["arch"] is not None or d["restrictions"] is not None), atoms[0])
    return [[{"name": "zz-shared", "archqual": None, "version": None, "arch": None, "restrictions": None}],
            [copy.deepcopy(pick)]]


NREPARSE = 2


def run_history(r_py, o, with_copy=True, snap=None, order=None):
    """continues the round trip `o` of r: (1) str(r) again after an edited deep copy was formatted,
    (2) NREPARSE times: the caller edits the latest returned structure in place and the SAME string
    is parsed again, (3) a different relation sharing an alternative makes the round trip.
    -> dict of observations"""
    from debian.deb822 import PkgRelation
    h = {"exc": "", "fmtsame": True, "rc": None, "o_rc": None, "re": [], "r_share": None, "o_share": None,
         "reordered": None}
    stage = "PkgRelation.str of the parse with re-inserted keys"
    try:
        if order is not None:
            reinsert_keys(o["p"], order + 1)        # d[k] = d.pop(k): the parsed dicts stay equal
            h["reordered"] = PkgRelation.str(o["p"])
        stage = "PkgRelation.str (second time)"
        if with_copy:
            h["rc"] = edited_copy(r_py)
            if with_copy == "fmt":                  # format only (the recorder logs the copy as its own trace)
                PkgRelation.str(h["rc"])
            else:
                h["o_rc"] = run_real(h["rc"])
            h["fmtsame"] = PkgRelation.str(r_py) == o["s"]
        latest = o["p"]
        for k in range(NREPARSE):
            edit_in_place(latest)
            stage = "parse_relations (call %d on the same string)" % (k + 2)
            with warnings.catch_warnings(record=True) as w:
                warnings.simplefilter("always")
                latest = PkgRelation.parse_relations(o["s"])
                # (snapshots are taken now: the structure is edited in the next round)
                h["re"].append({"eq": latest == r_py, "repr": ab(latest), "s": PkgRelation.str(latest),
                                "warn": ["%s: %s" % (x.category.__name__, x.message) for x in emitted(w)],
                                "abs": snap(latest) if snap else None})
    except Exception as e:       # noqa: BLE001 -- observation
        h["exc"] = "%s in %s: %s" % (type(e).__name__, stage, e)
        return h
    h["r_share"] = sharing_structure(r_py)
    h["o_share"] = run_real(h["r_share"])
    return h


def judge_history(r_py, o, h):
    """same verdict observables, for the later calls of the history: Parse does not depend on what
    was parsed or edited before (PkgRelationMemo: MemoTransparent)"""
    if h["exc"]:
        return "after the caller edited the result of parse_relations(%s) in place: raised %s" % (ab(o["s"]), ab(h["exc"]))
    if h["reordered"] is not None and h["reordered"] != o["s"]:
        return ("str of the structure parse_relations(%s) returned, after the caller re-inserted its dict keys in "
                "another order (d[k] = d.pop(k)), = %s" % (ab(o["s"]), ab(h["reordered"])))
    if not h["fmtsame"]:
        return "str(r) no longer gives %s after an edited copy of r was formatted" % (ab(o["s"]),)
    if h["o_rc"] is not None:
        m = judge(h["rc"], h["o_rc"])
        if m:
            return "edited copy of r (right after r itself made the round trip): " + m
    for k, e in enumerate(h["re"]):
        if not e["eq"] or e["s"] != o["s"] or e["warn"]:
            what = ("= %s" % e["repr"]) if not e["eq"] else (
                "emitted %s" % ab(e["warn"][0]) if e["warn"] else "formats as %s" % ab(e["s"]))
            return ("call %d of parse_relations(%s) -- the caller had edited the structure returned by call %d in "
                    "place -- %s, specification (Parse does not depend on history): %s, no warning, same string"
                    % (k + 2, ab(o["s"]), k + 1, what, ab(r_py)))
    m = judge(h["r_share"], h["o_share"])
    if m:
        return "relation sharing an alternative with %s (whose parses the caller had edited in place): %s" % (ab(o["s"]), m)
    return None


def type_drift(p):
    from debian.deb822 import PkgRelation
    for alts in p:
        for d in alts:
            for x in d["arch"] or []:
                if type(x) is not PkgRelation.ArchRestriction:
                    return "arch entry is %s, not ArchRestriction" % type(x).__name__
            for g in d["restrictions"] or []:
                for x in g:
                    if type(x) is not PkgRelation.BuildRestriction:
                        return "restriction term is %s, not BuildRestriction" % type(x).__name__
            if d["version"] is not None and type(d["version"]) is not tuple:
                return "version is %s, not tuple" % type(d["version"]).__name__
    return None


# ---- structures obtained by editing a parse result IN PLACE (spec/PkgRelationEdit.tla; the edit records and
# their value semantics -- EditOk / ApplyEdit / EditTrail -- are PkgRelation.tla's).  An edit names the CONTAINER
# whose mutator is called (the result list, a conjunct, a dict, its arch list, its formula, a group of it): the
# binding calls that mutator on the real object.  How the call is SPELLED (append / += / extend / insert at the
# end; del / pop / empty slice / remove; item / slice assignment, _replace of the namedtuple that is there;
# d[k] = v / update / pop and re-insert) is a dimension of the concretization (`style`), not of the edit.
KEY_OF = {"name": "name", "q": "archqual", "v": "version", "a": "arch", "r": "restrictions"}
EDIT_LEVELS = ("conj", "alt", "key", "arch", "groups", "terms")
EDIT_STYLES = 4


def edit_need(e, need):
    """payload ids an edit brings in (sizes of the concretization tables)"""
    x, lv = e["x"], e["lv"]
    if lv == "conj" and isinstance(x, list):
        atoms, entries = x, []
    elif lv == "alt" and isinstance(x, dict):
        atoms, entries = [x], []
    else:
        atoms, entries = [], []
        if lv == "key":
            k = {"name": "name", "q": "qual"}.get(e["op"])
            if k:
                need[k] = max(need[k], x)
            elif e["op"] == "v":
                need["ver"] = max(need["ver"], x["ver"])
            elif e["op"] == "a":
                entries = [("arch", y) for y in x["l"]]
            else:
                entries = [("prof", y) for g in x["l"] for y in g]
        elif lv == "groups" and isinstance(x, list):
            entries = [("prof", y) for y in x]
        elif isinstance(x, dict):
            entries = [("arch" if lv == "arch" else "prof", x)]
    for k, n in need_of([atoms]).items():
        need[k] = max(need[k], n)
    for k, y in entries:
        need[k] = max(need[k], y["id"])
    return need


def apply_edit(p, e, conc, style=0):
    """ONE mutator call on the live structure p (what parse_relations returned): the edit e of the
    specification, new items built from the concretization table.  Exceptions propagate (observations)."""
    from debian.deb822 import PkgRelation
    lv, op, k = e["lv"], e["op"], e["k"] - 1
    AR, BR = PkgRelation.ArchRestriction, PkgRelation.BuildRestriction
    t = conc.text
    if lv == "conj":
        lst, new = p, lambda: [build_atom(a, conc) for a in e["x"]]
    elif lv == "alt":
        lst, new = p[e["i"] - 1], lambda: build_atom(e["x"], conc)
    else:
        d = p[e["i"] - 1][e["j"] - 1]
        if lv == "key":
            key, x = KEY_OF[op], e["x"]
            if op == "name":
                val = t["name"][x]
            elif op == "q":
                val = t["qual"][x] if x else None
            elif op == "v":
                val = (OPS[x["op"] - 1], t["ver"][x["ver"]]) if x["some"] else None
            elif op == "a":
                val = [AR(y["e"], t["arch"][y["id"]]) for y in x["l"]] if x["some"] else None
            else:
                val = [[BR(y["e"], t["prof"][y["id"]]) for y in g] for g in x["l"]] if x["some"] else None
            if style % 4 == 0:
                d[key] = val
            elif style % 4 == 1:
                d.update({key: val})
            elif style % 4 == 2:
                d.update(**{key: val})
            else:
                d.pop(key)
                d[key] = val
            return
        if lv == "arch":
            lst, new = d["arch"], lambda: AR(e["x"]["e"], t["arch"][e["x"]["id"]])
        elif lv == "groups":
            lst, new = d["restrictions"], lambda: [BR(y["e"], t["prof"][y["id"]]) for y in e["x"]]
        else:
            lst, new = d["restrictions"][e["g"] - 1], lambda: BR(e["x"]["e"], t["prof"][e["x"]["id"]])
    if op == "append":
        if style % 4 == 0:
            lst.append(new())
        elif style % 4 == 1:
            lst += [new()]
        elif style % 4 == 2:
            lst.extend(x for x in [new()])
        else:
            lst.insert(len(lst), new())
    elif op == "insert":
        if style % 2 == 0:
            lst.insert(k, new())
        else:
            lst[k:k] = [new()]
    elif op == "del":
        if style % 4 == 0:
            del lst[k]
        elif style % 4 == 1:
            lst.pop(k)
        elif style % 4 == 2 or lst.index(lst[k]) != k:     # (remove takes the FIRST equal item)
            lst[k:k + 1] = []
        else:
            lst.remove(lst[k])
    elif op == "set":
        x = new()
        old = lst[k]
        if style % 2 == 1 and isinstance(old, tuple) and hasattr(old, "_replace") and isinstance(x, tuple) and x[1] == old[1]:
            lst[k] = old._replace(enabled=x[0])             # the namedtuple that is there, negated
        elif style % 4 == 2:
            lst[k:k + 1] = [x]
        else:
            lst[k] = x
    elif op == "rev":
        if style % 2 == 0:
            lst.reverse()
        else:
            lst[:] = lst[::-1]
    else:
        raise core.MachineryError("unknown edit %r" % (e,))


def describe_edit(e, conc):
    """message text only"""
    at = "result" + ("" if e["lv"] == "conj" else "[%d]" % (e["i"] - 1) if e["lv"] == "alt" else "[%d][%d]" % (e["i"] - 1, e["j"] - 1))
    if e["lv"] == "key":
        return "%s[%r] = <new value>" % (at, KEY_OF[e["op"]])
    at += {"arch": "['arch']", "groups": "['restrictions']", "terms": "['restrictions'][%d]" % (e["g"] - 1)}.get(e["lv"], "")
    return {"append": "%s.append(<new>)", "insert": "%s.insert(%d, <new>)", "del": "del %s[%d]", "set": "%s[%d] = <new / negated twin>",
            "rev": "%s.reverse()"}[e["op"]] % ((at,) if e["op"] in ("append", "rev") else (at, e["k"] - 1))


def run_edits(start_py, edits, trail_abs, conc, api=0, style=0, each=True, first=None, diag=None, salt=0, via=None):
    """the history of PkgRelationEdit on the real class: format and parse the start structure, apply the edits to
    the PARSED objects, and -- after every edit (each) or after the last one -- format / parse / format what the
    caller now holds.  Expected structures are TLC's (trail_abs[n], built independently of the live object).
    -> (message or None, last string)"""
    o = first or run_real(start_py, api)
    msg = judge(start_py, o)
    if msg:
        return msg, o["s"]
    live, s = o["p"], o["s"]
    how = "parse_relations(%s)" % ab(s)
    if via is not None:
        # the structure the caller edits comes out of the `relations` property of an unmodified paragraph object
        cls_name, field, form, _, _ = mixin_plan(via)
        how = "%s(%s input).relations[%r] for %s: %s" % (cls_name, form, spell(field, via), field, ab(s))
        try:
            with warnings.catch_warnings(record=True):
                warnings.simplefilter("always")
                para = make_paragraph(cls_name, field, s, form)
                live = para.relations[spell(field, via)]
        except Exception as ex:       # noqa: BLE001 -- observation
            return "%s raised %s: %s" % (how, type(ex).__name__, ex), s
        if live != start_py:
            return "%s = %s, specification (Inverse): %s" % (how, ab(live), ab(start_py)), s
    s_last, done = s, []
    for n, e in enumerate(edits):
        done.append(describe_edit(e, conc))
        try:
            apply_edit(live, e, conc, style + n)
        except Exception as ex:       # noqa: BLE001 -- observation
            return "after result = %s: %s raised %s: %s" % (how, "; ".join(done), type(ex).__name__, ex), s
        if not each and n < len(edits) - 1:
            continue
        want = build(trail_abs[n], conc)
        if live != want:
            return "after result = %s: %s: the structure the caller holds is %s, specification (ApplyEdit): %s" % (
                how, "; ".join(done), ab(live), ab(want)), s
        oe = run_real(live, api + n, fault=salt + 5 * n if (style + n) % 2 == 0 else None, diag=diag)
        m = judge(want, oe)
        if m:
            return "result = %s; %s; now r = result = %s: %s" % (how, "; ".join(done), ab(want, 300), m), oe["s"]
        s_last = oe["s"]
    return None, s_last


def gen_edits(rng, live, conc, n):
    """input generation for the recorded executions: n random applicable edits (abstract records with interned
    payload ids) for the live structure, applied as they are drawn.  Yields nothing the specification does not
    check: TLC re-derives the edited structure with EditTrail and rejects an edit that is not applicable."""
    from debian.deb822 import PkgRelation

    def entry(kind):
        return {"e": rng.random() < 0.5, "id": conc.intern(kind, gen_payload(rng, kind))}

    def atom():
        d = random_structure(rng)[0][0]
        return abstract([[d]], conc)[0][0]
    out = []
    for step in range(n):
        atoms = [(i, j, d) for i, alts in enumerate(live) for j, d in enumerate(alts)]
        nested = [(i, j, d) for i, j, d in atoms if d["arch"] is not None or d["restrictions"] is not None]
        lv = rng.choice(EDIT_LEVELS if nested else ("conj", "alt", "key"))
        i, j, d = rng.choice(nested if lv in ("arch", "groups", "terms") else atoms)
        if lv == "arch" and d["arch"] is None:
            lv = "groups"
        if lv in ("groups", "terms") and d["restrictions"] is None:
            lv = "arch"
        e = {"lv": lv, "op": "", "i": i + 1, "j": j + 1, "g": 0, "k": 0, "x": 0}
        if lv == "key":
            e["op"] = rng.choice(("name", "q", "v", "a", "r"))
            none = rng.random() < 0.3
            e["x"] = (conc.intern("name", gen_payload(rng, "name")) if e["op"] == "name" else
                      (0 if none else conc.intern("qual", gen_payload(rng, "qual"))) if e["op"] == "q" else
                      ({"some": False, "op": 0, "ver": 0} if none else
                       {"some": True, "op": rng.randint(1, 5), "ver": conc.intern("ver", gen_payload(rng, "ver"))}) if e["op"] == "v" else
                      ({"some": False, "l": []} if none else
                       {"some": True, "l": [entry("arch") for _ in range(rng.randint(1, 2))]}) if e["op"] == "a" else
                      ({"some": False, "l": []} if none else
                       {"some": True, "l": [[entry("prof") for _ in range(rng.randint(1, 2))] for _ in range(rng.randint(1, 2))]}))
        else:
            if lv == "conj":
                lst, e["i"], e["j"] = live, 0, 0
                new = lambda: [atom() for _ in range(rng.randint(1, 2))]           # noqa: E731
            elif lv == "alt":
                lst, e["j"] = live[i], 0
                new = atom
            elif lv == "arch":
                lst, new = d["arch"], lambda: entry("arch")                          # noqa: E731
            elif lv == "groups":
                lst, new = d["restrictions"], lambda: [entry("prof") for _ in range(rng.randint(1, 3))]   # noqa: E731
            else:
                e["g"] = rng.randrange(len(d["restrictions"])) + 1
                lst, new = d["restrictions"][e["g"] - 1], lambda: entry("prof")      # noqa: E731
            ops = ["append", "insert", "set", "set"] + (["del", "rev"] if len(lst) > 1 else [])
            e["op"] = rng.choice(ops)
            if e["op"] in ("insert", "set", "del"):
                e["k"] = rng.randrange(len(lst) + (1 if e["op"] == "insert" else 0)) + 1
            if e["op"] in ("append", "insert", "set"):
                e["x"] = new()
                if e["op"] == "set" and lv in ("arch", "terms") and rng.random() < 0.5:
                    old = lst[e["k"] - 1]                 # the namedtuple that is there, negated
                    e["x"] = {"e": not old[0], "id": conc.intern("arch" if lv == "arch" else "prof", old[1])}
        apply_edit(live, e, conc, rng.randrange(EDIT_STYLES))
        out.append(e)
    return out


def check_case(ctx, rel_abs, codes, conc, diag, with_copy=True, history=True, order=None, variants=False, api=0,
               mixin=None):
    """one concretization of one TLC case; returns (message or None, produced string, structure).
    order: key insertion order of the input dicts (see build); variants: also the container-type
    variants of the same structure"""
    from debian.deb822 import PkgRelation
    r_py = build(rel_abs, conc, order=order)
    o = run_real(r_py, api, fault=(order if order is not None else 0) + 121 * len(codes) + 7 * api if (api + len(codes)) % 3 == 0 else None, diag=diag)
    msg = judge(r_py, o)
    if msg is None and mixin is not None:
        msg = mixin_leg(r_py, o["s"], mixin, diag if diag is not None else {})
        if msg:
            msg = "[relations property] " + msg
    if msg is None and order is not None:
        # an equal structure (keys inserted in the order of parse_relations) must format identically
        try:
            s_canon = PkgRelation.str(build(rel_abs, conc))
        except Exception as e:       # noqa: BLE001 -- observation
            s_canon = "raised %s: %s" % (type(e).__name__, e)
        if s_canon != o["s"]:
            msg = "two equal structures (dict keys inserted in different orders) format differently: %r and %r" % (o["s"], s_canon)
    if msg is None:
        if diag is not None:
            want = tokens_to_text(codes, conc)
            if o["s"] != want:
                diag["format"] = diag.get("format", 0) + 1
                if diag["format"] <= 3:
                    ctx.drift("formatter writes %r, Format predicts %r (blank details are not part of the property)" % (o["s"], want))
            td = type_drift(o["p"])
            if td:
                diag["types"] = diag.get("types", 0) + 1
                if diag["types"] <= 3:
                    ctx.drift("%s for %r" % (td, o["s"]))
        if variants:
            msg = container_variants(rel_abs, conc, r_py, o["s"], diag)
    if msg is None and history:
        msg = judge_history(r_py, o, run_history(r_py, o, with_copy=with_copy, order=order))
        if msg:
            msg = "[history] " + msg
    return msg, o["s"], r_py


def container_variants(rel_abs, conc, r_py, s, diag):
    """the same structure with other container types: tuples for the arch list / the formula / its
    groups, plain tuples for the entries.  Where the formatter tolerates the input (no exception:
    rejecting it is unspecified) it must write the same string, which parses back to r."""
    from debian.deb822 import PkgRelation
    for kind in ("tuple", "plain"):
        key = "containers_%s" % kind
        try:
            with warnings.catch_warnings(record=True):
                warnings.simplefilter("always")
                sv = PkgRelation.str(build(rel_abs, conc, containers=kind))
        except Exception as e:       # noqa: BLE001 -- unspecified: the API does not promise to accept them
            diag[key + "_rejected_" + type(e).__name__] = diag.get(key + "_rejected_" + type(e).__name__, 0) + 1
            continue
        diag[key + "_tolerated"] = diag.get(key + "_tolerated", 0) + 1
        if sv != s:
            return "the same structure with %s containers formats as %r, with lists and namedtuples as %r" % (kind, sv, s)
    return None


def big_variant(r_py, n, how):
    """the structure of a case with a boundary COUNT at one list level: its conjuncts (how = 'conj'), the
    alternatives of its first conjunct ('alt'), the entries of its first architecture list ('arch'), the
    groups of its first restriction formula ('groups') or the terms of the first group of that formula
    ('terms') repeated up to n items -- identical items included.  None: the case has no such list."""
    if how == "conj":
        return [copy.deepcopy(r_py[i % len(r_py)]) for i in range(n)]
    if how == "alt":
        first = [copy.deepcopy(r_py[0][i % len(r_py[0])]) for i in range(n)]
        return [first] + copy.deepcopy(r_py[1:])
    out = copy.deepcopy(r_py)
    for alts in out:
        for d in alts:
            if how == "arch" and d["arch"]:
                d["arch"] = [d["arch"][i % len(d["arch"])] for i in range(n)]
                return out
            if how == "groups" and d["restrictions"]:
                d["restrictions"] = [list(d["restrictions"][i % len(d["restrictions"])]) for i in range(n)]
                return out
            if how == "terms" and d["restrictions"]:
                g = d["restrictions"][0]
                d["restrictions"][0] = [g[i % len(g)] for i in range(n)]
                return out
    return None


# ------------------------------------------------------------------ TLC output

def cfg_constants(name):
    out = {}
    with open(os.path.join(core.SPEC, name)) as f:
        lines = f.readlines()
    for line in lines:
        m = re.match(r"^\s+(\w+) = (.+)$", line)
        if m:
            out[m.group(1)] = m.group(2).strip()
    return out


def _case_of(line):
    line = line.rstrip("\n")
    if not line.endswith('">>'):
        raise core.MachineryError("truncated TLC output line: %r" % line[:120])
    body = line[11:-3].replace('\\"', '"')
    return json.loads(body), zlib.crc32(body.encode())


def follow_lines(workdir, running):
    """yield the <<"CASE", "json">> lines of the raw output of the TLC
    run whose scratch directory is `workdir`, WHILE TLC is still writing it (`running()` tells whether
    it is); only complete lines are consumed"""
    import glob
    import time
    path = None
    while path is None:
        found = glob.glob(os.path.join(workdir, "tlc-*", "out.txt"))
        if found:
            path = found[0]
        elif not running():
            return
        else:
            time.sleep(0.05)
    with open(path, errors="replace") as f:
        pending = ""
        while True:
            alive = running()
            chunk = f.readline()
            if chunk:
                pending += chunk
                if not pending.endswith("\n"):
                    continue
                line, pending = pending, ""
                if line.startswith('<<"CASE", "'):
                    yield line
                continue
            if not alive:
                if pending.startswith('<<"CASE", "'):
                    raise core.MachineryError("truncated TLC output line: %r" % pending[:120])
                return
            time.sleep(0.05)


def spec_negative_controls(ctx, quick=False):
    """the invariants are not vacuous: each switch to the buggy design must make TLC report it"""
    with open(os.path.join(core.SPEC, "MC_PkgRelation_neg.cfg")) as f:
        base = f.read()
    done = []
    for const, inv in NEG_CONTROLS:
        if quick and (const, inv) == ("RestrictionsFirst", "Stable"):
            continue                # thorough tier only (JVM starts dominate the quick tier)
        cfg = base.replace("%s = FALSE" % const, "%s = TRUE" % const)
        assert cfg != base
        if const != "FormatInKeyOrder":             # one key order is enough for the other switches
            cfg = cfg.replace("KeyOrders <- AllKeyOrders", "KeyOrders <- OneKeyOrder")
        cfg = re.sub(r"(?m)^INVARIANT (?!%s$).*\n" % inv, "", cfg)
        r = ctx.tlc("PkgRelation", cfg, workers=1, count=False, java_opts=["-XX:ParallelGCThreads=2", "-Xss64m"])
        if r.violated != inv:
            raise core.MachineryError("negative control %s: expected TLC to report %s, got %r" % (const, inv, r.violated))
        done.append("%s -> %s" % (const, inv))
    if not quick:
        # the small configuration itself, every switch off: all 24 key orders, FormatIgnoresKeyOrder holds
        ctx.tlc_must_hold("PkgRelation", "MC_PkgRelation_neg.cfg", workers=2, java_opts=["-XX:ParallelGCThreads=2", "-Xss64m"])
    # the history model: a memo layer in front of the reference parser is invisible unless its results
    # share nested lists with it
    with open(os.path.join(core.SPEC, "MC_PkgRelationMemo.cfg")) as f:
        base = f.read()
    r = ctx.tlc("PkgRelationMemo", "MC_PkgRelationMemo.cfg", workers=1, java_opts=["-XX:ParallelGCThreads=2", "-Xss64m"])
    if r.violated:
        raise core.MachineryError("specification PkgRelationMemo violates %s\n%s" % (r.violated, r.tail))
    for deep in ("FALSE",) if quick else ("FALSE", "TRUE"):
        cfg = base.replace("SharedNested = FALSE", "SharedNested = TRUE").replace("DeepStore = FALSE", "DeepStore = " + deep)
        assert cfg != base
        cfg = re.sub(r"(?m)^INVARIANT (?!MemoTransparent$).*\n", "", cfg)
        r = ctx.tlc("PkgRelationMemo", cfg, workers=1, count=False, java_opts=["-XX:ParallelGCThreads=2", "-Xss64m"])
        if r.violated != "MemoTransparent":
            raise core.MachineryError("negative control SharedNested (DeepStore = %s): expected TLC to report MemoTransparent, got %r" % (deep, r.violated))
        done.append("SharedNested%s -> MemoTransparent (PkgRelationMemo)" % (" + DeepStore" if deep == "TRUE" else ""))
    # (the controls of PkgRelationEdit run in a thread of their own: edit_negative_controls)
    # the count dimension: a splitter that stops after 256 separators (re.split(pattern, text, 256)) is invisible
    # to every list of at most 257 items (LimitBites holds in every state TLC looks at) and breaks the invariants
    # at 258 items -- at every list level
    with open(os.path.join(core.SPEC, "MC_PkgRelationCount_neg.cfg")) as f:
        base = f.read()
    opts = ["-XX:ParallelGCThreads=2", "-Xss16m"]
    r = ctx.tlc("PkgRelationCount", base, workers=1, count=False, java_opts=opts)
    if r.violated != "CountProps":
        raise core.MachineryError("negative control SplitLimit: expected TLC to report CountProps, got %r" % (r.violated,))
    done.append("SplitLimit = 256 at every list level -> CountProps at 258 items, LimitBites holds (PkgRelationCount)")
    if not quick:
        for lv in LEVELS:
            cfg = re.sub(r"(?m)^  (LimitedSplits|Levels) = .*$", r'  \1 = {"%s"}' % lv, base)
            r = ctx.tlc("PkgRelationCount", cfg, workers=1, count=False, java_opts=opts)
            if r.violated != "CountProps":
                raise core.MachineryError("negative control SplitLimit (%s): expected TLC to report CountProps, got %r" % (lv, r.violated))
            done.append("SplitLimit = 256 for the %s -> CountProps (PkgRelationCount)" % LEVEL_NAMES[lv])
        cfg = base.replace("INVARIANT CountProps\n", "")
        assert cfg != base
        r = ctx.tlc("PkgRelationCount", cfg, workers=2, count=False, java_opts=opts)
        if r.violated or not r.ok:
            raise core.MachineryError("negative control SplitLimit: LimitBites does not hold (%r)" % (r.violated,))
        done.append("SplitLimit = 256: the invariants fail exactly for the lists of more than 257 items (LimitBites holds in all %d states)" % r.distinct)
    return done


def edit_negative_controls(ctx, quick):
    """PkgRelationEdit: a layer that remembers the text of a parsed / formatted dict is invisible only if the mutators
    of EVERY container inside the dict drop the text"""
    with open(os.path.join(core.SPEC, "MC_PkgRelationEdit_layer.cfg")) as f:
        base = f.read()
    opts = ["-XX:ParallelGCThreads=2", "-Xss64m"]
    done = []
    if not quick:
        r = ctx.tlc("PkgRelationEdit", base, workers=2, java_opts=opts)
        if r.violated or not r.ok:
            raise core.MachineryError("specification PkgRelationEdit (remembering layer that forgets at every level) violates %s\n%s" % (r.violated, r.tail))
        done.append("a layer remembering text per dict that forgets in the mutators of every nested container: EditProps holds in all %d states (PkgRelationEdit)" % r.distinct)
    controls = [("parse", '{"key"}', None, "only the dict's own mutators forget (the seeded change C13-seedK)"),
                ("format", '{"key"}', '{"bare"}', "text remembered at format time, a nested list that came in by key assignment is edited")]
    if quick:
        del controls[1:]
    else:
        controls.insert(1, ("parse", '{"key", "arch", "groups"}', None, "the groups inside the formula are not watched"))
    for remember, forgets, starts, what in controls:
        cfg = re.sub(r"(?m)^  Remember = .*$", '  Remember = "%s"' % remember, base)
        cfg = re.sub(r"(?m)^  Forgets = .*$", "  Forgets = " + forgets, cfg)
        if starts:
            cfg = re.sub(r"(?m)^  Starts = .*$", "  Starts = " + starts, cfg)
        assert cfg != base
        r = ctx.tlc("PkgRelationEdit", cfg, workers=1, count=False, java_opts=opts)
        if r.violated != "EditProps":
            raise core.MachineryError("negative control Remember = %s, Forgets = %s: expected TLC to report EditProps, got %r" % (remember, forgets, r.violated))
        done.append("Remember = %s, Forgets = %s%s (%s) -> EditProps (PkgRelationEdit)" % (remember, forgets, ", Starts = " + starts if starts else "", what))
    return done


# ------------------------------------------------------------------ (a) replay of TLC's cases

def shape_key(rel_abs):
    return "x".join(str(len(alts)) for alts in rel_abs)


def parts_key(a):
    return "".join(ch for ch, on in (("q", a["q"]), ("v", a["v"]["some"]), ("a", a["a"]["some"]), ("r", a["r"]["some"])) if on) or "-"


FULL_NEED = {"name": 8, "qual": 8, "ver": 8, "arch": 4, "prof": 6}
_W = {}          # set in the parent before the replay workers are forked


class _Drifts:
    """stands in for ctx inside a replay worker: diagnostics are sent back with the chunk result"""

    def __init__(self):
        self.items = []

    def drift(self, what):
        if len(self.items) < 10:
            self.items.append(what)


def mix_no(hs):
    """the number that selects class, field, input forms and alignment of the relations-property leg"""
    return zlib.crc32(b"relations %d" % hs) & 0x7fffffff


def prepare_replay(ctx, quick):
    """pre-drawn concretizations (seeded), selected per case by a hash of the case: TLC's output order
    depends on thread timing, what is done with a case must not.  Returns the pool of worker
    processes (forked here, before any thread is started)."""
    import multiprocessing
    _W.update(seed=ctx.seed, quick=quick,
              canon=Conc.draw(ctx.rng, FULL_NEED, canonical=True),
              pool=[Conc.draw(ctx.rng, FULL_NEED) for _ in range(256)],
              stress=[Conc.draw(ctx.rng, FULL_NEED, stress=True) for _ in range(48)])
    return multiprocessing.get_context("fork").Pool(3 if quick else 6)


def _replay_chunk(lines):
    """worker: replay the CASE lines of one chunk; everything is returned, nothing printed"""
    quick, seed, canon, pool, stress = _W["quick"], _W["seed"], _W["canon"], _W["pool"], _W["stress"]
    dr = _Drifts()
    res = {"ncase": 0, "nrun": 0, "nfail": 0, "per_shape": {}, "per_parts": {}, "per_op": {}, "diag": {},
           "failing": [], "samples": {}, "keys": [], "trivial": 0, "orders": set(), "sizes": {}}
    per_shape, per_parts, per_op, diag = res["per_shape"], res["per_parts"], res["per_op"], res["diag"]
    for line in lines:
        v, h = _case_of(line)
        res["ncase"] += 1
        rel_abs = case_to_abstract(v["r"])
        need = need_of(rel_abs)
        if any(need[k] > FULL_NEED[k] for k in need):
            raise core.MachineryError("CASE needs more payload ids than the pre-drawn tables have: %r" % (need,))
        sk = shape_key(rel_abs)
        per_shape[sk] = per_shape.get(sk, 0) + 1
        parts = {parts_key(a) for alts in rel_abs for a in alts}
        # (the focus atom is not marked: count every optional-part combination once per case)
        for pk in parts:
            per_parts[pk] = per_parts.get(pk, 0) + 1
        for op in {a["v"]["op"] for alts in rel_abs for a in alts if a["v"]["some"]}:
            per_op[OPS[op - 1]] = per_op.get(OPS[op - 1], 0) + 1
        # quick: one concretization per case (canonical for a quarter of the cases);
        # thorough: a random one for every case, the canonical one first for every 16th
        if quick:
            plans = [h % 4 == 0]
        else:
            plans = [True, False] if h % 16 == 0 else [False]
        hs = h ^ (seed * 40503)
        for canonical in plans:
            # size dimension: every 16th (thorough: 8th) non-canonical concretization has payloads of
            # boundary lengths (names .. profile names of up to 8193 characters, epochs of up to 19 digits)
            stressed = (not canonical) and (hs >> 11) % (16 if quick else 8) == 0
            conc = canon if canonical else stress[hs % len(stress)] if stressed else pool[hs % len(pool)]
            # key insertion order of the input dicts: one of the 120 per case (a different one per atom)
            order = (hs >> 4) % len(KEY_ORDERS)
            res["orders"].add(order)
            # the history follows every 2nd case; the edited copy of r makes its own round trip in every 4th of these
            msg, s, r_py = check_case(dr, rel_abs, v["t"], conc, diag, with_copy=(h >> 3) % 4 == 0,
                                      history=(h >> 7) % 2 == 0, order=order,
                                      variants=(hs >> 5) % 8 == 0, api=(hs >> 2) % API_VARIANTS,
                                      mixin=mix_no(hs) if (hs >> 9) % 8 == 0 else None)
            if (hs >> 9) % 8 == 0:
                diag["relations_property_legs"] = diag.get("relations_property_legs", 0) + 1
            res["nrun"] += 1
            big = None
            if msg is None and (hs >> 6) % (512 if quick else 128) == 1:
                # count dimension: the same conjuncts / alternatives repeated up to a boundary count
                big = {"n": LONG_COUNTS[(hs >> 15) % len(LONG_COUNTS)], "how": LEVELS[(hs >> 19) % len(LEVELS)]}
                r_big = big_variant(r_py, big["n"], big["how"])
                if r_big is None:                   # the case has no architecture list / formula
                    big["how"] = LEVELS[(hs >> 19) % 2]
                    r_big = big_variant(r_py, big["n"], big["how"])
                msg = judge(r_big, run_real(r_big, (hs >> 2) % API_VARIANTS))
                res["sizes"]["%s x%d" % (big["how"], big["n"])] = res["sizes"].get("%s x%d" % (big["how"], big["n"]), 0) + 1
                if msg:
                    msg = "[%d %s] %s" % (big["n"], LEVEL_NAMES[big["how"]], msg)
            if stressed:
                res["sizes"]["boundary-length payloads"] = res["sizes"].get("boundary-length payloads", 0) + 1
            if msg:
                res["nfail"] += 1
                # the smallest failing structures are reported (canonical payload first)
                key = (msg.startswith("[history]") + msg.startswith("[relations"), stressed, big["n"] if big else 0,
                       sum(len(x) for x in rel_abs), len(v["t"]), not canonical, len(s or ""), h)
                res["failing"].append((key, {"kind": "case", "abstract": rel_abs, "tokens": v["t"], "conc": conc.to_json(),
                                             "string": s, "order": order, "big": big, "api": (hs >> 2) % API_VARIANTS,
                                             "mixin": mix_no(hs) if (hs >> 9) % 8 == 0 else None}, msg))
                res["failing"].sort(key=lambda x: x[0])
                del res["failing"][20:]
                break
        if parts != {"-"}:
            res["keys"].append(h)
        else:
            res["trivial"] += 1
        if h % 1021 < 2 and msg is None and 2 <= sum(len(x) for x in rel_abs) <= 3 and not plans[-1]:
            res["samples"][h] = "CASE %s: %s -> %r parses back to the structure, no warning, same string again; so do the same string after the caller edited the result in place and a relation sharing an alternative" % (
                sk, json.dumps(v["r"], separators=(",", ":")), s)
    res["drifts"] = dr.items
    return res


def replay_cases(ctx, lines, quick, workers):
    """replay every CASE line (worker processes), merge what they found"""
    import threading
    inflight = threading.Semaphore(24)          # bounds the lines held in memory

    def chunks():
        buf = []
        for line in lines:
            buf.append(line)
            if len(buf) >= 300:
                inflight.acquire()
                yield buf
                buf = []
        if buf:
            inflight.acquire()
            yield buf
    tot = {"ncase": 0, "nrun": 0, "nfail": 0, "trivial": 0}
    per = {"per_shape": {}, "per_parts": {}, "per_op": {}, "diag": {}}
    failing, samples, drifts, orders, sizes = [], {}, [], set(), {}
    for res in workers.imap_unordered(_replay_chunk, chunks()):
        inflight.release()
        for k in tot:
            tot[k] += res[k]
        for name, d in per.items():
            for k, n in res[name].items():
                d[k] = d.get(k, 0) + n
        failing = sorted(failing + res["failing"], key=lambda x: x[0])[:20]
        samples.update(res["samples"])
        orders |= res["orders"]
        for k, n in res["sizes"].items():
            sizes[k] = sizes.get(k, 0) + n
        drifts += res["drifts"]
        for h in res["keys"]:
            ctx.distinct.add(("case", h))
    ctx.evaluations += tot["ncase"]
    for _, case, msg in failing[:ctx.max_violation_files]:
        ctx.violation(case, msg)
    for d in sorted(set(drifts))[:6]:
        ctx.drift(d)
    for h in sorted(samples)[:3]:
        ctx.sample(samples[h])
    ctx.extra["cases_replayed"] = tot["ncase"]
    ctx.extra["real_round_trips_in_replay"] = tot["nrun"]
    ctx.extra["histories_in_replay"] = "every 2nd case: edit the parsed structure in place, parse the same string again, round trip of a relation sharing an alternative; every 4th of these also the round trip of an edited copy and str(r) again"
    ctx.extra["cases_failing"] = tot["nfail"]
    ctx.extra["key_insertion_orders_used"] = len(orders)
    ctx.extra["size_stressed_cases"] = dict(sorted(sizes.items()))
    ctx.extra["cases_per_list_shape"] = dict(sorted(per["per_shape"].items()))
    ctx.extra["cases_per_optional_part_combination"] = dict(sorted(per["per_parts"].items()))
    ctx.extra["cases_per_operator"] = dict(sorted(per["per_op"].items()))
    ctx.extra["diagnostics"] = per["diag"]          # (sorted by the caller, after the long-list cases were added)
    return tot["ncase"]


# ------------------------------------------------------------------ (a') replay of the long-list cases

def _replay_count(line):
    """worker: one CASE line of PkgRelationCount -- a structure in which ONE list level (conjunction,
    alternatives, architecture list, restriction groups, terms of a group) has hundreds of items -- goes
    the way of every other case: concretization (canonical / ordinary / boundary lengths), key orders,
    calling conventions, container variants, the history and the relations property (the long field text
    read from every kind of file object, line ends on block boundaries)"""
    import random
    v, h = _case_of(line)
    rel_abs = case_to_abstract(v["r"])
    hs = h ^ (_W["seed"] * 40503)
    rng = random.Random(hs)
    mode = ("canonical", "ordinary", "ordinary", "boundary lengths")[(hs >> 3) % 4]
    need = need_of(rel_abs)
    # (a thousand payloads of thousands of characters each would only slow the run down: the longest ones
    # go into the cases of up to some hundred items)
    conc = Conc.draw(rng, need, canonical=mode == "canonical", stress=mode == "boundary lengths",
                     maxlen=257 if sum(need.values()) > 700 else None)
    dr, diag = _Drifts(), {}
    order, api, mixin = (hs >> 4) % len(KEY_ORDERS), (hs >> 2) % API_VARIANTS, mix_no(hs)
    msg, s, _ = check_case(dr, rel_abs, v["t"], conc, diag, with_copy=True, history=True, order=order,
                           variants=True, api=api, mixin=mixin)
    out = {"h": h, "key": "%s x%d" % (v["lv"], v["n"]), "lv": v["lv"], "n": v["n"], "pos": v["pos"], "mode": mode,
           "diag": diag, "drifts": dr.items, "len": len(s or ""), "natoms": sum(len(a) for a in rel_abs),
           "msg": None, "case": None}
    if msg:
        out["msg"] = "[%d %s, %s payloads] %s" % (v["n"], LEVEL_NAMES[v["lv"]], mode, msg)
        out["case"] = {"kind": "case", "abstract": rel_abs, "tokens": v["t"], "conc": conc.to_json(), "string": s,
                       "order": order, "big": None, "api": api, "mixin": mixin,
                       "long_list": {"level": v["lv"], "count": v["n"], "position": v["pos"]}}
    return out


def replay_count_cases(ctx, lines, workers, diag_into):
    """replay every CASE line of PkgRelationCount (worker processes); the smallest failing counts are reported"""
    per, failing, drifts, lens, modes = {}, [], [], {}, {}
    n = 0
    sample = None
    for res in workers.imap_unordered(_replay_count, lines):
        n += 1
        per[res["key"]] = per.get(res["key"], 0) + 1
        modes[res["mode"]] = modes.get(res["mode"], 0) + 1
        lens[res["lv"]] = max(lens.get(res["lv"], 0), res["len"])
        for k, c in res["diag"].items():
            diag_into[k] = diag_into.get(k, 0) + c
        drifts += res["drifts"]
        ctx.distinct.add(("count", res["h"]))
        if res["msg"]:
            failing.append(((res["msg"].count("[history]") + res["msg"].count("[relations"), res["n"], res["len"], res["h"]),
                            res["case"], res["msg"]))
        elif sample is None or (res["n"], res["lv"]) < sample[:2]:
            sample = (res["n"], res["lv"], res["natoms"], res["len"], res["mode"])
    ctx.evaluations += n
    failing.sort(key=lambda x: x[0])
    for _, case, msg in failing[:ctx.max_violation_files]:
        ctx.violation(case, msg[:4000])
    for d in sorted(set(drifts))[:3]:
        ctx.drift(d[:700])
    if sample:
        ctx.sample("CASE of PkgRelationCount: %d %s (%d atoms, a string of %d characters, %s payloads) parses back to the "
                   "structure, no warning, same string again; so do the history and the relations property" % (
                       sample[0], LEVEL_NAMES[sample[1]], sample[2], sample[3], sample[4]))
    ctx.extra["long_list_cases"] = dict(sorted(per.items()))
    ctx.extra["long_list_cases_failing"] = len(failing)
    ctx.extra["long_list_concretizations"] = dict(sorted(modes.items()))
    ctx.extra["long_list_longest_string"] = dict(sorted(lens.items()))
    return n


# ------------------------------------------------------------------ (a'') replay of the edit histories

def _edit_case_of(line):
    v, h = _case_of(line)
    return {"start": case_to_abstract(v["s"]), "edits": v["e"], "trail": [case_to_abstract(x) for x in v["tr"]],
            "tokens": v["t"]}, h


def edit_conc_need(c):
    need = need_of(c["start"])
    for r in c["trail"]:
        for k, n in need_of(r).items():
            need[k] = max(need[k], n)
    for e in c["edits"]:
        edit_need(e, need)
    return need


def _replay_edit(line):
    """worker: one CASE line of PkgRelationEdit -- a start relation, a history of in-place edits of its parse and
    TLC's structure after each of them -- on the real class"""
    import random
    c, h = _edit_case_of(line)
    hs = h ^ (_W["seed"] * 40503)
    rng = random.Random(hs)
    mode = ("canonical", "ordinary", "ordinary", "boundary lengths")[(hs >> 3) % 4] if (hs >> 13) % 8 == 0 else \
           ("canonical", "ordinary")[(hs >> 3) % 2]
    conc = Conc.draw(rng, edit_conc_need(c), canonical=mode == "canonical", stress=mode == "boundary lengths")
    order, api, style, each = (hs >> 4) % len(KEY_ORDERS), (hs >> 2) % API_VARIANTS, (hs >> 5) % EDIT_STYLES, (hs >> 7) % 2 == 0
    diag = {}
    via = mix_no(hs) if (hs >> 9) % 4 == 0 else None     # every 4th history edits what the relations property returned
    if via is not None:
        diag["edit_histories_on_the_relations_property"] = 1
    msg, s = run_edits(build(c["start"], conc, order=order), c["edits"], c["trail"], conc, api, style, each, diag=diag, salt=hs & 0xffffff, via=via)
    drift = None
    if msg is None and s != tokens_to_text(c["tokens"], conc):
        drift = "formatter writes %r for an edited structure, Format predicts %r (blank details are not part of the property)" % (
            s, tokens_to_text(c["tokens"], conc))
    out = {"h": h, "levels": [e["lv"] + "." + e["op"] for e in c["edits"]], "n": len(c["edits"]), "each": each,
           "msg": None, "case": None, "drift": drift, "sample": None, "diag": diag}
    if msg:
        out["msg"] = "[in-place edits] " + msg
        out["case"] = dict(c, kind="edit", conc=conc.to_json(), order=order, api=api, style=style, each=each, salt=hs & 0xffffff, via=via)
    elif h % 499 == 0:
        out["sample"] = "CASE of PkgRelationEdit: result = parse_relations(%r); %s -> str(result) = %r parses back to the edited structure, no warning, same string again" % (
            PkgRelation_str_of(c["start"], conc), "; ".join(describe_edit(e, conc) for e in c["edits"]), s)
    return out


def PkgRelation_str_of(rel_abs, conc):
    """message text only"""
    try:
        return call_str(build(rel_abs, conc))
    except Exception as e:       # noqa: BLE001
        return "<%s>" % type(e).__name__


def replay_edit_cases(ctx, lines, workers, diag_into):
    per, failing, drifts, samples = {}, [], set(), {}
    n = nseq = 0
    for res in workers.imap_unordered(_replay_edit, lines, chunksize=40):
        n += 1
        nseq += res["each"]
        for k, c in res["diag"].items():
            diag_into[k] = diag_into.get(k, 0) + c
        for lv in res["levels"]:
            per[lv] = per.get(lv, 0) + 1
        ctx.distinct.add(("edit", res["h"]))
        if res["drift"]:
            drifts.add(res["drift"])
        if res["sample"]:
            samples[res["h"]] = res["sample"]
        if res["msg"]:
            failing.append(((res["n"], len(res["msg"]), res["h"]), res["case"], res["msg"]))
    ctx.evaluations += n
    failing.sort(key=lambda x: x[0])
    for _, case, msg in failing[:ctx.max_violation_files]:
        ctx.violation(case, msg[:4000])
    for d in sorted(drifts)[:2]:
        ctx.drift(d[:700])
    for h in sorted(samples)[:2]:
        ctx.sample(samples[h][:900])
    ctx.extra["edit_histories_replayed"] = n
    ctx.extra["edit_histories_failing"] = len(failing)
    ctx.extra["edit_histories_formatting_after_every_edit"] = nseq
    ctx.extra["edits_per_container_and_mutator"] = dict(sorted(per.items()))
    return n


def split_form_counters(ctx, diag):
    """the counters of input forms / alignments (count_form) leave the diagnostics for their own evidence keys"""
    kinds, aligned, at = {}, {}, {}
    for k in [k for k in diag if k.startswith(("fobj|", "align|", "alignat|"))]:
        tag, name = k.split("|", 1)
        {"fobj": kinds, "align": aligned, "alignat": at}[tag][name] = diag.pop(k)
    for key, d in (("file_object_kinds", kinds), ("aligned_cases", aligned), ("aligned_offsets", at)):
        cur = ctx.extra.setdefault(key, {})
        for k, n in d.items():
            cur[k] = cur.get(k, 0) + n
        ctx.extra[key] = dict(sorted(cur.items()))


# ------------------------------------------------------------------ unspecified zone

def unspecified_zone(ctx):
    """executed, any outcome accepted; recorded in the evidence"""
    from debian.deb822 import PkgRelation
    B = PkgRelation.BuildRestriction

    def atom(**kw):
        d = {"name": "foo", "archqual": None, "version": None, "arch": None, "restrictions": None}
        d.update(kw)
        return [[d]]
    inputs = {
        "upper-case profile": atom(restrictions=[[B(True, "NoCheck")]]),
        "empty arch list": atom(arch=[]),
        "empty restriction formula": atom(restrictions=[]),
        "empty restriction group": atom(restrictions=[[]]),
        "version with None operator": atom(version=(None, "1.0")),
        "upper-case package name": atom(name="Foo"),
        "name with underscore": atom(name="foo_bar"),
        "empty relation": [],
        "empty conjunct": [[]],
        "plain tuples instead of namedtuples": atom(arch=[(True, "amd64")]),
        # names, versions, architecture names and qualifiers are ASCII by Policy (5.6.1, 5.6.12, 11.1),
        # profile names lower-case ASCII: other characters are outside the domain
        "non-ASCII package name": atom(name="f\u00fc\u00fc"),
        "non-ASCII version (Arabic-Indic digit)": atom(version=(">=", "\u0663.0")),
        "profile name with sharp s": atom(restrictions=[[B(True, "stra\u00dfe")]]),
        "profile name with dotted capital I": atom(restrictions=[[B(True, "\u0130x")]]),
        "full-width architecture name": atom(arch=[PkgRelation.ArchRestriction(True, "\uff41md64")]),
        "NBSP inside a name": atom(name="foo\u00a0bar"),
        "BOM before the name": atom(name="\ufefffoo"),
    }
    res = {}
    for name, r_py in sorted(inputs.items()):
        o = run_real(r_py)
        if o["exc"]:
            res[name] = "raised " + o["exc"].split(":")[0]
        else:
            res[name] = "%r -> %s%s" % (o["s"], "same structure" if o["p"] == r_py else "different structure",
                                        ", warning" if o["warn"] else "")
    # pickling a parse result (the namedtuple classes live inside PkgRelation): not part of the statement
    try:
        import pickle
        pickle.dumps(PkgRelation.parse_relations("foo [amd64]"))
        res["pickle of a parse result with an arch list"] = "works"
    except Exception as e:       # noqa: BLE001
        res["pickle of a parse result with an arch list"] = "raised " + type(e).__name__
    ctx.extra["unspecified_outcomes"] = res
    # `relations` of a paragraph MODIFIED after construction is unspecified (a lazily computed snapshot):
    # the shapes seen on the pinned tree are recorded as observations for the maintainers
    try:
        from debian.deb822 import Packages
        p1 = Packages({"Package": "x", "Depends": "a (>= 1) [amd64]"})
        p1.relations
        p1["Depends"] = "b <!nocheck>"
        if p1.relations["depends"] != PkgRelation.parse_relations("b <!nocheck>"):
            ctx.drift("observation (unspecified): p = Packages({'Package': 'x', 'Depends': 'a (>= 1) [amd64]'}); p.relations; "
                      "p['Depends'] = 'b <!nocheck>'; p.relations['depends'] is still the parse of the old text "
                      "(the relations dict is computed once; same after del p['Depends'])")
        p2 = Packages({"Package": "x"})
        p2["Depends"] = "c"
        if p2.relations["depends"] != PkgRelation.parse_relations("c"):
            ctx.drift("observation (unspecified): q = Packages({'Package': 'x'}); q['Depends'] = 'c'; q.relations['depends'] "
                      "== [] (fields absent at construction are fixed to [] in _PkgRelationMixin.__init__)")
    except Exception as e:       # noqa: BLE001
        ctx.drift("observation (unspecified): relations of a modified paragraph raised %s: %s" % (type(e).__name__, e))


# ------------------------------------------------------------------ (b) recorded executions

def random_structure(rng, big=None, count=None):
    """a random concrete relation in the Python form (input generation only).  Dict keys are inserted
    in a random one of the 120 orders; now and then a payload has a boundary length; big: one of
    'conj' / 'alt' / 'arch' / 'groups' / 'terms' -- that list has `count` items (default: a boundary
    count 9 .. 101), at a random position of the relation"""
    from debian.deb822 import PkgRelation

    def payload(kind):
        return gen_payload(rng, kind, boundary_length(rng) if rng.random() < 0.04 else None)

    def entries(maker, kind, n):
        seen, out = set(), []
        for _ in range(n):
            s = payload(kind)
            if s in seen and rng.random() < 0.8 and n <= 3:
                continue
            seen.add(s)                      # (identical entries do occur)
            out.append(maker(rng.random() < 0.5, s))
        return out or [maker(True, payload(kind))]
    if big and count is None:
        count = rng.choice(BOUNDARY_COUNTS if big in ("conj", "alt") else BOUNDARY_COUNTS[:8])
    nconj = count if big == "conj" else rng.choice((1, 1, 2, 2, 3, 4, 5)) if not big else rng.choice((1, 2, 3))
    where = (rng.randrange(nconj), rng.randrange(2))        # the conjunct (and the alternative) with the long list
    rel = []
    for ci in range(nconj):
        alts = []
        nalt = count if (big == "alt" and ci == where[0]) else rng.choice((1, 1, 1, 2, 2, 3, 4)) if not big else rng.choice((1, 2))
        for ai in range(nalt):
            heavy = rng.random() < 0.5
            pr = 0.6 if heavy else 0.25
            if big in ("conj", "alt"):
                pr = 0.15
            force = big in ("arch", "groups", "terms") and ci == where[0] and ai == min(where[1], nalt - 1)
            d = {
                "name": payload("name"),
                "archqual": payload("qual") if rng.random() < pr else None,
                "version": (rng.choice(OPS), payload("ver")) if rng.random() < pr + 0.1 else None,
                "arch": entries(PkgRelation.ArchRestriction, "arch", count if big == "arch" and force else rng.randint(1, 3))
                if (rng.random() < pr or (big == "arch" and force)) else None,
                "restrictions": [entries(PkgRelation.BuildRestriction, "prof",
                                         count if big == "terms" and force and gi == where[1] % ng else rng.randint(1, 3))
                                 for ng in (count if big == "groups" and force else rng.randint(1, 3),) for gi in range(ng)]
                if (rng.random() < pr or (force and big != "arch")) else None,
            }
            alts.append({k: d[k] for k in rng.choice(KEY_ORDERS)})
        rel.append(alts)
    return rel


def record(r_py, stats=None, edit=True):
    """one trace: the structure, what the real code made of it (first round trip, then the history:
    edit the result in place and parse the same string again, round trip of a relation sharing an
    alternative, str(r) again after formatting an edited copy), everything interned to ids"""
    conc = empty_conc()
    r_abs = abstract(r_py, conc)              # the harness' own structure: always well-formed
    api = len(r_abs) + sum(len(a) for a in r_abs)
    o = run_real(r_py, api)
    exc = o["exc"].split(" ")[0] if o["exc"] else ""
    observed = {"parsed": repr(o["p"]), "warnings": o["warn"], "exception": o["exc"], "second_string": o["s2"]}
    p_abs = []
    if not exc:
        try:
            p_abs = abstract(o["p"], conc)
        except Malformed as e:
            exc = "MalformedResult"
            observed["exception"] = "parse_relations returned a value of the wrong shape (%s)" % e
    trace = {"kind": "rt", "r": r_abs,
             "t": tokenize(o["s"], conc) if o["s"] is not None else [],
             "p": p_abs,
             "warn": bool(o["warn"]),
             "exc": exc,
             "t2": tokenize(o["s2"], conc) if o["s2"] is not None else [],
             "same": o["s2"] is not None and o["s2"] == o["s"],
             "tc": [], "pm": [], "mixok": False,
             "re": [], "rs": [], "ts": [], "ps": [], "warns": False, "sames": False,
             "fmtsame": False,
             "ed": {"on": bool(edit), "es": [], "live": [], "t": [], "p": [], "warn": False, "same": False}}
    if not exc:
        # an equal structure whose dict keys are inserted in the order of parse_relations
        try:
            from debian.deb822 import PkgRelation
            s_canon = PkgRelation.str([[{k: d[k] for k in KEYS} for d in alts] for alts in r_py])
            trace["tc"] = tokenize(s_canon, conc)
            observed["string_of_the_equal_structure_in_parse_key_order"] = s_canon
        except Exception as e:       # noqa: BLE001 -- observation
            trace["exc"] = type(e).__name__
            observed["exception"] = "%s in PkgRelation.str of an equal structure: %s" % (type(e).__name__, e)

        # the same string read through the relations property of an unmodified paragraph object
        k = zlib.crc32(o["s"].encode("utf-8", "replace")) & 0x7fffffff
        cls_name, field, form, _, align = mixin_plan(k)
        notes = []
        pm_live = None
        try:
            with warnings.catch_warnings(record=True) as w:
                warnings.simplefilter("always")
                para = make_paragraph(cls_name, field, o["s"], form, align, notes)
                if stats is not None:
                    count_form(stats, form, notes)
                if notes:
                    form += " input; a pad field puts " + notes[0]
                pm = para.relations[spell(field, k)]
                others = [para.relations[f.lower()] for c, f in MIXIN_FIELDS if c == cls_name and f != field]
                sm = call_str(pm, k)
            trace["pm"] = abstract(pm, conc)
            pm_live = pm
            trace["mixok"] = not emitted(w) and sm == o["s"] and all(x == [] for x in others)
            observed["relations_property"] = {"object": "%s(%s%s).relations[%r]" % (cls_name, form, "" if notes else " input", spell(field, k)),
                                              "parsed": repr(pm), "warnings": [str(x.message) for x in emitted(w)],
                                              "str_of_it": sm, "absent_fields": repr([x for x in others if x != []])}
        except Exception as e:       # noqa: BLE001 -- observation
            trace["exc"] = type(e).__name__
            observed["exception"] = "%s in %s(%s input).relations[%r]: %s" % (type(e).__name__, cls_name, form, field, e)

        def snap(x):
            try:
                return abstract(x, conc)
            except Malformed:
                return None
        h = run_history(r_py, o, with_copy="fmt", snap=snap)
        osh = h["o_share"]
        hexc = h["exc"] or (osh["exc"] if osh else "")
        observed["history"] = {
            "later_parses_after_in_place_edits": [e["repr"] for e in h["re"]],
            "warnings": [x for e in h["re"] for x in e["warn"]], "exception": hexc,
            "str_r_unchanged_after_formatting_an_edited_copy": h["fmtsame"],
            "sharing_relation_string": osh["s"] if osh else None, "sharing_relation_parse": repr(osh["p"]) if osh else None,
            "sharing_relation_warnings": osh["warn"] if osh else None}
        try:
            if hexc:
                raise Malformed(hexc)
            if any(e["abs"] is None for e in h["re"]):
                raise Malformed("re-parse")
            trace.update({"re": [{"p": e["abs"], "warn": bool(e["warn"]), "same": e["s"] == o["s"]} for e in h["re"]],
                          "rs": abstract(h["r_share"], conc), "ts": tokenize(osh["s"], conc),
                          "ps": abstract(osh["p"], conc), "warns": bool(osh["warn"]), "sames": osh["s2"] == osh["s"],
                          "fmtsame": bool(h["fmtsame"])})
        except Malformed as e:
            trace["exc"] = hexc.split(" ")[0] if hexc else "MalformedResult"
            observed["exception"] = hexc or "a later parse_relations returned a value of the wrong shape (%s)" % e
    if edit and not trace["exc"]:
        # the first string parsed once more; THAT structure edited in place (1 .. 4 random mutator calls at any
        # nesting level), then formatted / parsed / formatted: TLC derives the edited structure (EditTrail)
        import random
        rng = random.Random(k ^ 0x5eed)
        stage, edits = "parse_relations", []
        try:
            with warnings.catch_warnings(record=True):
                warnings.simplefilter("always")
                live = call_parse(o["s"], api + 1)
                if k % 4 == 1 and pm_live is not None:
                    live = pm_live                    # what the relations property returned (abstracted above: pm)
                    observed["edited_structure_from"] = "the relations property"
                stage = "an in-place edit of the parsed structure"
                edits = gen_edits(rng, live, conc, rng.choice((1, 1, 2, 3, 4)))
            oe = run_real(live, api + 2, fault=k >> 3 if k % 2 else None, diag=stats)
            if oe["exc"]:
                raise Malformed(oe["exc"])
            trace["ed"] = {"on": True, "es": edits, "live": abstract(live, conc), "t": tokenize(oe["s"], conc), "p": abstract(oe["p"], conc),
                           "warn": bool(oe["warn"]), "same": oe["s2"] == oe["s"]}
            observed["edited"] = {"edits": [describe_edit(e, conc) for e in edits], "structure": repr(live), "string": oe["s"],
                                  "parsed": repr(oe["p"]), "warnings": oe["warn"], "second_string": oe["s2"]}
        except core.MachineryError:
            raise
        except Exception as e:       # noqa: BLE001 -- observation
            trace["exc"] = "MalformedResult" if isinstance(e, Malformed) else type(e).__name__
            observed["exception"] = "%s in %s (edits so far: %s): %s" % (
                type(e).__name__, stage, "; ".join(describe_edit(x, conc) for x in edits), e)
    meta = {"kind": "trace", "abstract": r_abs, "conc": conc.to_json(), "string": o["s"], "observed": observed}
    return trace, meta


def perturb(rng, codes, conc):
    """formatter output with other blanks between the tokens (and, rarely, one token missing): input
    generation for the probe traces.  Two things the token abstraction cannot express are avoided:
    a missing '<', or a missing separator right after a '>', lets the greedy <.+> swallow words
    that were tokenized as top-level names; strip('<> ') takes blanks but not tabs off the formula,
    so no tab is put next to an angle bracket."""
    codes = list(codes)
    kinds = [KINDS[c // TOKBASE - 1] for c in codes]
    if rng.random() < 0.08:
        def droppable(j):
            if kinds[j] in ("sp", "lt"):
                return False
            if kinds[j] in ("comma", "pipe"):
                before = [k for k in kinds[:j] if k != "sp"]
                return not (before and before[-1] == "gt")
            return True
        cand = [j for j in range(len(codes)) if droppable(j)]
        del codes[rng.choice(cand)]
    kinds = [KINDS[c // TOKBASE - 1] for c in codes] + ["end"]
    wordy = set(PAYLOAD_KINDS) | {"bang", "op"}
    out = []
    for j, c in enumerate(codes):
        k = kinds[j]
        if k == "sp":
            tight = not (kinds[j - 1] in wordy and kinds[j + 1] in wordy)
            angle = kinds[j - 1] in ("lt", "gt") or kinds[j + 1] in ("lt", "gt")
            out.append(rng.choice(("", " ", " ", "  ", " " if angle else "\t", " ") if tight else (" ", "  ", "\t")))
        else:
            out.append(tokens_to_text([c], conc))
            if rng.random() < 0.12 and k != "bang" and not (k in wordy and kinds[j + 1] in wordy):
                out.append(rng.choice((" ", "  ")))
    s = "".join(out)
    if rng.random() < 0.2:
        s = rng.choice((" ", "\t")) + s
    if rng.random() < 0.2:
        s = s + rng.choice((" ", "\n"))
    return s


def record_probe(rng, r_py):
    """diagnostic trace: parse_relations on a string that is not formatter output"""
    from debian.deb822 import PkgRelation
    conc = empty_conc()
    s = perturb(rng, tokenize(PkgRelation.str(r_py), conc), conc)
    conc = empty_conc()
    exc, p_abs, p = "", [], None
    with warnings.catch_warnings(record=True) as w:
        warnings.simplefilter("always")
        try:
            p = PkgRelation.parse_relations(s)
            p_abs = abstract(p, conc)
        except Malformed:
            exc = "MalformedResult"
        except Exception as e:       # noqa: BLE001 -- observation
            exc = type(e).__name__
    w = emitted(w)
    trace = {"kind": "probe", "r": [], "t": tokenize(s, conc), "p": p_abs, "warn": bool(w), "exc": exc, "t2": [], "same": True}
    meta = {"kind": "probe", "string": s, "observed": {"parsed": repr(p), "warnings": [str(x.message) for x in w],
                                                       "exception": exc, "second_string": None}}
    return trace, meta


def control_traces(traces):
    """corrupted copies the trace specification must reject"""
    out = []

    def first(pred):
        for t in traces:
            if t["kind"] == "rt" and not t["exc"] and not t["warn"] and t["same"] and pred(t):
                return copy.deepcopy(t)
        return None
    t = first(lambda t: any(a["a"]["some"] for alts in t["r"] for a in alts))
    if t:                                           # the parse lost a negation marker
        for alts in t["p"]:
            for a in alts:
                if a["a"]["some"]:
                    a["a"]["l"][0]["e"] = not a["a"]["l"][0]["e"]
        out.append(t)
    t = first(lambda t: True)
    if t:                                           # a warning was emitted
        t["warn"] = True
        out.append(t)
    t = first(lambda t: len(t["r"]) >= 2)
    if t:                                           # structure and parse agree with each other, not with the string
        t["r"].reverse()
        t["p"].reverse()
        out.append(t)
    t = first(lambda t: len(t["t"]) >= 3)
    if t:                                           # the second string differs
        del t["t2"][1]
        out.append(t)
    t = first(lambda t: len(t["pm"]) >= 2)
    if t:                                           # the relations property lost a conjunct
        t["pm"] = t["pm"][:-1]
        out.append(t)
    t = first(lambda t: True)
    if t:                                           # the relations property warned / formats differently
        t["mixok"] = False
        out.append(t)
    t = first(lambda t: len(t["tc"]) >= 3)
    if t:                                           # an equal structure (other key order) formatted differently
        t["tc"][1], t["tc"][2] = t["tc"][2], t["tc"][1] + 1
        out.append(t)
    t = first(lambda t: True)
    if t:                                           # same tokens, but the strings were not equal
        t["same"] = False
        out.append(t)
    t = first(lambda t: any(a["r"]["some"] for alts in t["r"] for a in alts))
    if t:                                           # input had no restriction formula, the parse is what the string says
        for alts in t["r"]:
            for a in alts:
                a["r"] = {"some": False, "l": []}
        out.append(t)
    t = first(lambda t: True)
    if t:                                           # an exception was raised
        t["exc"] = "TypeError"
        out.append(t)
    t = first(lambda t: any(a["a"]["some"] for alts in t["r"] for a in alts))
    if t:                                           # the second parse shows the caller's edit (a sharing memo)
        for alts in t["re"][-1]["p"]:
            for a in alts:
                if a["a"]["some"]:
                    a["a"]["l"].append({"e": False, "id": 1})
        out.append(t)
    t = first(lambda t: True)
    if t:                                           # the sharing relation came back with a warning
        t["warns"] = True
        out.append(t)
    t = first(lambda t: True)
    if t:                                           # the sharing relation lost its first conjunct
        t["ps"] = t["ps"][1:]
        out.append(t)
    t = first(lambda t: True)
    if t:                                           # the formatter remembered the edited copy
        t["fmtsame"] = False
        out.append(t)
    t = first(lambda t: t["ed"]["on"] and t["ed"]["p"] != t["p"])
    if t:                                           # the edited structure was written with the text it was parsed from
        t["ed"]["t"], t["ed"]["p"] = list(t["t"]), copy.deepcopy(t["p"])
        out.append(t)
    t = first(lambda t: len(t["ed"]["es"]) >= 2)
    if t:                                           # an edit the caller made is not in the history
        del t["ed"]["es"][0]
        out.append(t)
    t = first(lambda t: t["ed"]["on"])
    if t:                                           # the edited structure formats differently the second time
        t["ed"]["same"] = False
        out.append(t)
    t = first(lambda t: t["ed"]["on"])
    if t:                                           # the harness edited, the trace has no edits
        t["ed"]["es"] = []
        out.append(t)
    t = first(lambda t: not t["ed"]["on"])
    if t:                                           # edits logged for an execution the harness did not edit
        t["ed"]["es"] = [{"lv": "conj", "op": "rev", "i": 0, "j": 0, "g": 0, "k": 0, "x": 0}]
        out.append(t)
    for t in traces:
        if t["kind"] == "probe" and not t["exc"]:   # a probe whose warning flag is wrong
            out.append(dict(copy.deepcopy(t), warn=not t["warn"]))
            break
    return out


STEP = {0: "the string (diagnostic step)", 1: "Parse does not explain what parse_relations returned",
        2: "Inverse / NoWarning", 3: "Stable",
        4: "history: the same string parsed again after the caller edited the first result in place",
        5: "history: a relation sharing an alternative / str(r) after formatting an edited copy / the relations property of a paragraph object",
        6: "a structure obtained by editing a parse result in place (EditTrail) does not make the round trip"}


BATCH = 4000     # traces per TLC invocation (JsonDeserialize holds the whole file in memory)


def validate(ctx, traces, with_controls=True, workers=2):
    controls = control_traces(traces) if with_controls else []
    if with_controls:
        good = sum(1 for t in traces if t["kind"] == "rt" and not t["exc"] and not t["warn"] and t["same"])
        if len(controls) < 15 and good >= 50:
            raise core.MachineryError("only %d control traces could be built" % len(controls))
        if not controls:
            # the code under test fails every recorded round trip (they are all reported below): there is
            # no acceptable trace to corrupt; keep the run honest with a control TLC must reject anyway
            controls = [dict(copy.deepcopy(traces[0]), exc="Control")]
    rejected, fmt_drift, info = [], [], {}
    for lo in range(0, len(traces), BATCH):
        part = traces[lo:lo + BATCH]
        acc, _, r = core.validate_traces(ctx, "TracePkgRelation", "TracePkgRelation.cfg", part, workers=workers,
                                         extra_env={"TRACE_DIAG": "0"}, controls=controls if lo == 0 else (),
                                         java_opts=["-XX:ParallelGCThreads=2", "-Xss64m"])
        fmt_drift += sorted({lo + v[0] for v in r.printed.get("REJECT", []) if isinstance(v, list) and v[0] <= len(part)})
        rejected += [lo + i for i in range(1, len(part) + 1) if i not in acc]
    # the shortest rejected round trips first
    rejected.sort(key=lambda i: (traces[i - 1]["kind"] != "rt", len(traces[i - 1]["t"]), i))
    if rejected:
        sub = [traces[i - 1] for i in rejected[:20]]
        _, prog, _ = core.validate_traces(ctx, "TracePkgRelation", "TracePkgRelation.cfg", sub,
                                          extra_env={"TRACE_DIAG": "1"}, java_opts=["-XX:ParallelGCThreads=2", "-Xss64m"])
        for j, i in enumerate(rejected[:20]):
            info[i] = prog.get(j + 1, 0)
    return rejected, info, fmt_drift


def explain(meta, at):
    o = meta["observed"]
    if o["exception"]:
        return "str(r) = %s; raised %s" % (ab(meta["string"]), ab_s(o["exception"]))
    if at >= 6 and o.get("edited"):
        m = o["edited"]
        return "[%s] result = parse_relations(%s); %s; now r = result = %s; str(r) = %s; parse_relations of it returned %s%s; second string %s" % (
            STEP[6], ab(meta["string"]), "; ".join(m["edits"]), ab_s(m["structure"]), ab(m["string"]), ab_s(m["parsed"]),
            ("; warnings %s" % ab(m["warnings"])) if m["warnings"] else "", ab(m["second_string"]))
    if at >= 5 and o.get("relations_property"):
        m = o["relations_property"]
        extra = "; %s returned %s%s, str of it %s, absent fields %s" % (
            ab_s(m["object"]), ab_s(m["parsed"]), ("; warnings %s" % ab(m["warnings"])) if m["warnings"] else "", ab(m["str_of_it"]), m["absent_fields"])
    else:
        extra = ""
    if at >= 4 and o.get("history"):
        hh = o["history"]
        return "[%s] str(r) = %s; first parse_relations returned %s; after in-place edits of the returned structures the later calls returned %s%s; sharing relation %s parsed as %s%s; str(r) unchanged after formatting an edited copy: %s" % (
            STEP.get(at, "?"), ab(meta["string"]), ab_s(o["parsed"]), " then ".join(hh["later_parses_after_in_place_edits"]),
            ("; warnings %s" % ab(hh["warnings"])) if hh["warnings"] else "", ab(hh["sharing_relation_string"]),
            ab_s(hh["sharing_relation_parse"] or ""), ("; warnings %s" % ab(hh["sharing_relation_warnings"])) if hh["sharing_relation_warnings"] else "",
            hh["str_r_unchanged_after_formatting_an_edited_copy"]) + extra
    return "[%s] str(r) = %s; parse_relations returned %s%s; second string %s; an equal structure with its dict keys in parse order formats as %s" % (
        STEP.get(at, "?"), ab(meta["string"]), ab_s(o["parsed"]), ("; warnings %s" % ab(o["warnings"])) if o["warnings"] else "",
        ab(o["second_string"]), ab(o.get("string_of_the_equal_structure_in_parse_key_order")))


def long_list_plan(rng, quick):
    """(level, count) of the recorded executions with a long list: every level meets, in every run, a count
    next to a byte-sized bound, one right beyond it and one of a thousand items (thorough: the whole ladder)"""
    plan = [(lv, None) for lv in LEVELS] * (2 if quick else 8)
    for lv in LEVELS:
        if quick:
            plan += [(lv, rng.choice(NEAR_COUNTS)), (lv, rng.choice(BEYOND_COUNTS)), (lv, rng.choice(FAR_COUNTS))]
        else:
            plan += [(lv, c) for c in NEAR_COUNTS + BEYOND_COUNTS + (512, rng.choice(FAR_COUNTS))]
    return plan


def make_traces(ctx, n, nprobe, quick):
    traces, metas = [], []
    stats, sizes = {}, {}
    while len(traces) < n:
        r_py = random_structure(ctx.rng)
        tr, meta = record(r_py, stats, edit=not quick or len(traces) % 2 == 0)
        traces.append(tr)
        metas.append(meta)
        if len(traces) % 4 == 0 and len(traces) < n:      # an edited copy right after the original
            tr, meta = record(edited_copy(r_py), stats)
            traces.append(tr)
            metas.append(meta)
    for lv, count in long_list_plan(ctx.rng, quick):
        tr, meta = record(random_structure(ctx.rng, big=lv, count=count), stats, edit=not (quick and count))
        traces.append(tr)
        metas.append(meta)
        if count:
            sizes["%s x%d" % (lv, count)] = sizes.get("%s x%d" % (lv, count), 0) + 1
    ctx.extra["recorded_long_lists"] = dict(sorted(sizes.items()))
    ctx.extra["recorded_faulted_calls"] = {k: stats.pop(k) for k in sorted(stats) if k.startswith(("faulted_", "early_eof"))}
    ctx.extra["recorded_input_forms"] = stats
    for _ in range(nprobe):
        try:
            tr, meta = record_probe(ctx.rng, random_structure(ctx.rng))
        except Exception:            # noqa: BLE001 -- diagnostic leg only (e.g. the formatter raised)
            ctx.extra["probes_skipped"] = ctx.extra.get("probes_skipped", 0) + 1
            continue
        traces.append(tr)
        metas.append(meta)
    return traces, metas


def judge_traces(ctx, traces, metas, rejected, info, fmt_drift):
    rt = [i for i, t in enumerate(traces) if t["kind"] == "rt"]
    nprobe = len(traces) - len(rt)
    ctx.traces += len(rt)
    ctx.evaluations += len(traces)
    for i in range(len(traces)):
        ctx.distinct.add(("trace", i))
    natoms = [sum(len(a) for a in t["r"]) for t in traces]
    bad_rt = [i for i in rejected if traces[i - 1]["kind"] == "rt"]
    bad_probe = [i for i in rejected if traces[i - 1]["kind"] == "probe"]
    ctx.extra["traces_recorded"] = len(rt)
    ctx.extra["traces_rejected"] = len(bad_rt)
    ctx.extra["trace_atoms"] = {"total": sum(natoms), "max": max(natoms)}
    ctx.extra["trace_tokens"] = sum(len(traces[i]["t"]) for i in rt)
    ctx.extra["traces_with_format_drift"] = len(fmt_drift)
    ctx.extra["parser_model_probe"] = {
        "strings_with_perturbed_blanks": nprobe, "not_predicted_by_Parse": len(bad_probe),
        "warning_path_taken": sum(1 for t in traces if t["kind"] == "probe" and t["warn"]),
        "exceptions": sum(1 for t in traces if t["kind"] == "probe" and t["exc"])}
    for i in fmt_drift[:3]:
        ctx.drift("recorded string %r is not the token string Format predicts (blank details are not part of the property)"
                  % metas[i - 1]["string"])
    for i in bad_probe[:3]:
        o = metas[i - 1]["observed"]
        ctx.drift(("probe (diagnostic): Parse does not predict parse_relations(%r) = %s%s%s" % (
            metas[i - 1]["string"], o["parsed"], " with a warning" if o["warnings"] else "",
            (" raised " + o["exception"]) if o["exception"] else ""))[:700])
    ex = next((i for i in rt if 3 <= natoms[i] <= 5 and any(a["r"]["some"] for al in traces[i]["r"] for a in al)), None)
    if ex is not None:
        ctx.sample("recorded: str(r) = %r -> tokens %s...; parse_relations gives r back (%d atoms)" % (
            metas[ex]["string"], traces[ex]["t"][:12], natoms[ex]))
    for i in bad_rt[:5]:
        ctx.violation(dict(metas[i - 1], trace=traces[i - 1]),
                      ("recorded execution not explained by PkgRelation: " + explain(metas[i - 1], info.get(i, 0)))[:6000])


# ------------------------------------------------------------------ the check

def run(ctx):
    quick = ctx.tier == "quick"
    cfg = "MC_PkgRelation_quick.cfg" if quick else "MC_PkgRelation.cfg"
    consts = cfg_constants(cfg)
    ctx.extra["model_constants"] = consts
    ctx.assumptions += [
        "closed structure space: one focus atom over every optional-part combination (arch lists <= %s, formulas <= %s groups x %s terms, all five operators) at every position of lists of <= %s conjuncts x %s alternatives (<= %s atoms); the other atoms are context atoms (%s)" % (
            consts["MaxArch"], consts["MaxGroups"], consts["MaxTerms"], consts["MaxConj"], consts["MaxAlt"], consts["MaxAtoms"], consts["CtxKinds"]),
        "characters inside names / versions / architecture names / qualifiers / profile names are sampled (seeded), not enumerated; profile names are lower case (DESIGN D3)",
        "the exact blanks written by the formatter are diagnostic (drift), not part of the property",
        "trusted: TLC, the concretizer, the tokenizer of the recorded strings (written from the field syntax, not from the code's regexes)",
    ]
    mc_dir = os.path.join(ctx.work, "mc")
    os.makedirs(mc_dir)
    ff.WORKDIR[0] = ctx.work
    ccfg = "MC_PkgRelationCount_quick.cfg" if quick else "MC_PkgRelationCount.cfg"
    cconsts = cfg_constants(ccfg)
    ctx.extra["long_list_constants"] = {k: cconsts[k] for k in ("Levels", "Counts", "Positions")}
    ctx.assumptions.append("long lists: one list level at a time has %s items (PkgRelationCount), the others stay short" % cconsts["Counts"])
    workers = prepare_replay(ctx, quick)        # forked before any thread exists
    try:
        _run_parallel(ctx, quick, cfg, mc_dir, workers, ccfg)
    finally:
        workers.terminate()


def _run_parallel(ctx, quick, cfg, mc_dir, workers, ccfg):
    cnt_dir = os.path.join(ctx.work, "mc-count")
    os.makedirs(cnt_dir)
    edit_dir = os.path.join(ctx.work, "mc-edit")
    os.makedirs(edit_dir)
    ecfg = "MC_PkgRelationEdit_quick.cfg" if quick else "MC_PkgRelationEdit.cfg"
    econsts = cfg_constants(ecfg)
    ctx.extra["edit_history_constants"] = {k: econsts[k] for k in ("Starts", "DeepStarts", "MaxEdits")}
    with ThreadPoolExecutor(max_workers=6) as pool:
        # 1. design level + emission (closed): all structures of the space, in the background (the
        #    bookkeeping of ctx.tlc is done below, in this thread)
        f_mc = pool.submit(core.run_tlc, "PkgRelation", cfg, mc_dir, workers=8, keep_raw=True, want_tags=set(),
                           timeout=900 if quick else 7200, java_opts=["-XX:ParallelGCThreads=4"])
        #    the count dimension: one list level with hundreds of items (every state is an initial state: one thread)
        f_cnt = pool.submit(core.run_tlc, "PkgRelationCount", ccfg, cnt_dir, workers=2, keep_raw=True, want_tags=set(),
                            timeout=900 if quick else 3600, java_opts=["-XX:ParallelGCThreads=2", "-Xss16m"])
        #    in-place edits of a parse result: every history of mutator calls (PkgRelationEdit)
        f_edit = pool.submit(core.run_tlc, "PkgRelationEdit", ecfg, edit_dir, workers=2 if quick else 4, keep_raw=True,
                             want_tags=set(), timeout=900 if quick else 3600, java_opts=["-XX:ParallelGCThreads=2", "-Xss64m"])
        # 2. the invariants can fail
        f_neg = pool.submit(spec_negative_controls, ctx, quick)
        f_neg2 = pool.submit(edit_negative_controls, ctx, quick)
        # 3. code -> spec: recorded executions on deeper structures, validated by TLC
        #    (recorded in a background thread as well: the main thread only merges replay results)
        unspecified_zone(ctx)

        def record_and_validate():
            traces, metas = make_traces(ctx, *((800, 200) if quick else (6000, 1500)), quick)
            return (traces, metas) + tuple(validate(ctx, traces, True, 3 if quick else 4))
        f_val = pool.submit(record_and_validate)
        # 4. spec -> code: every CASE line, replayed while TLC is still enumerating
        ncase = replay_cases(ctx, follow_lines(mc_dir, lambda: not f_mc.done()), quick, workers)
        r = f_mc.result()
        shutil.rmtree(mc_dir, ignore_errors=True)
        if r.violated:
            raise core.MachineryError("specification PkgRelation violates %s\n%s" % (r.violated, r.tail))
        if ncase != r.distinct:
            raise core.MachineryError("TLC found %d states but %d CASE lines were read" % (r.distinct, ncase))
        ctx.traces += ncase
        diag = ctx.extra["diagnostics"]
        ncount = replay_count_cases(ctx, follow_lines(cnt_dir, lambda: not f_cnt.done()), workers, diag)
        rc = f_cnt.result()
        shutil.rmtree(cnt_dir, ignore_errors=True)
        if rc.violated:
            raise core.MachineryError("specification PkgRelationCount violates %s\n%s" % (rc.violated, rc.tail))
        if ncount != rc.distinct:
            raise core.MachineryError("TLC found %d long-list states but %d CASE lines were read" % (rc.distinct, ncount))
        ctx.traces += ncount
        nedit = replay_edit_cases(ctx, follow_lines(edit_dir, lambda: not f_edit.done()), workers, diag)
        re_ = f_edit.result()
        shutil.rmtree(edit_dir, ignore_errors=True)
        if re_.violated:
            raise core.MachineryError("specification PkgRelationEdit violates %s\n%s" % (re_.violated, re_.tail))
        if nedit != re_.distinct - int(econsts["Starts"].count('"') // 2):
            raise core.MachineryError("TLC found %d edit-history states but %d CASE lines were read" % (re_.distinct, nedit))
        ctx.traces += nedit
        split_form_counters(ctx, diag)
        ctx.extra["diagnostics"] = dict(sorted(diag.items()))
        ctx.extra["spec_negative_controls"] = f_neg.result() + f_neg2.result()
        traces, metas, rejected, info, fmt_drift = f_val.result()
    ctx.tlc_runs.append({"module": "PkgRelation", "generated": r.generated, "distinct": r.distinct, "depth": r.depth,
                         "wall_s": round(r.wall, 2), "violated": r.violated})
    ctx.tlc_runs.append({"module": "PkgRelationCount", "generated": rc.generated, "distinct": rc.distinct, "depth": rc.depth,
                         "wall_s": round(rc.wall, 2), "violated": rc.violated})
    ctx.tlc_runs.append({"module": "PkgRelationEdit", "generated": re_.generated, "distinct": re_.distinct, "depth": re_.depth,
                         "wall_s": round(re_.wall, 2), "violated": re_.violated})
    ctx.states += r.distinct + rc.distinct + re_.distinct
    ctx.transitions += r.generated + rc.generated + re_.generated
    split_form_counters(ctx, ctx.extra.pop("recorded_input_forms", {}))
    judge_traces(ctx, traces, metas, rejected, info, fmt_drift)


def replay(ctx, case):
    ff.WORKDIR[0] = getattr(ctx, "work", None)
    conc = Conc({k: list(v) for k, v in case["conc"].items()})
    if case["kind"] == "case":
        msg, _, r_py = check_case(ctx, case["abstract"], case["tokens"], conc, {}, order=case.get("order"), variants=True,
                                  api=case.get("api", 0), mixin=case.get("mixin"))
        if msg is None and case.get("big"):
            r_big = big_variant(r_py, case["big"]["n"], case["big"]["how"])
            msg = judge(r_big, run_real(r_big, case.get("api", 0)))
        return msg
    if case["kind"] == "edit":
        msg, _ = run_edits(build(case["start"], conc, order=case.get("order")), case["edits"], case["trail"], conc,
                           case.get("api", 0), case.get("style", 0), case.get("each", True), salt=case.get("salt", 0), via=case.get("via"))
        return "[in-place edits] " + msg if msg else None
    if case["kind"] == "trace":
        r_py = build(case["abstract"], conc)
        tr, meta = record(r_py, edit=case.get("trace", {}).get("ed", {}).get("on", True))
        rejected, info, _ = validate(ctx, [tr], with_controls=False, workers=1)
        if rejected:
            return "execution still not explained by the specification: " + explain(meta, info.get(1, 0))
        return None
    return "unknown case kind"
