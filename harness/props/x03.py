"""X03 (extra) -- Deb822.merge_fields and BuildInfo.get_environment (lib/debian/deb822.py).

Two small subsystems, one check.  The behavioural statements are formulated in EXTRA["statement"]
and in the headers of the specifications.

spec:      spec/MergeFields.tla     (a) abstract values [t, sep, it], the outcome relation ApiOk of the
                                    two forms of merge_fields (absent keys, KeyError, empty values,
                                    delimiter rule, duplicate-free union, ordered union of multi-line
                                    values, ValueError for mixed values), paragraphs of several live
                                    objects with the actions M2 / M1, the implementation layer of the
                                    single-line branch (sort + adjacent dedupe), algebraic laws
           spec/BuildInfoEnv.tla    (b) character-level state machine of _env_deserialise (one action
                                    per branch of its loop, EnvStep / EnvEnd), the documented quoting
                                    (EnvSer), get_environment (EnvDict)
           spec/TraceX03Merge.tla, spec/TraceX03Env.tla   trace validation re-using those operators
model checking:
   (a) every assignment of paragraphs (key absent / first / last, 11 (thorough 43) values over 2 (3)
       item ids) to two live objects, all M2 / M1 calls: TypeOK, AllWellFormed (closure: a history of
       merges keeps every stored value a well-formed duplicate-free list), Determinate, ImplRefines,
       DefectScope, LawIdempotent, LawCommutative, and the action properties ResWellFormed, Monotone,
       Bystanders, InPlace; LawAssociative over all triples of values.
       negative controls: Defects = {"keepends"} -> AllWellFormed / ResWellFormed, NoSort -> ImplRefines.
   (b) every text of <= 7 (thorough 9) characters over one representative of every character class
       (texts in the unspecified zone are not extended): RunAgrees, RoundTrip (inverse of the documented
       quoting), EndsClean, NamesValid, Lossless, Scalable, Compositional.
       negative controls: Defects = {"eof"} -> EndsClean / Lossless, {"nobs"} -> RoundTrip,
       {"noname"} -> NamesValid.
binding:   spec -> code: every CASE line of TLC carries the expected outcome and is concretized and
           replayed into the real code --
           (a) the two paragraphs as Deb822 built by assignment / parsed from text / built from a
               mapping / Packages / plain dict, key spelled in another case, both forms; with the
               state-leak probes: the receiver, d1 and d2 are snapshotted and must be untouched by the
               two-argument form, the call is repeated, the receiver may be one of the arguments, the
               one-argument form must change exactly the key in self (position from TLC) and nothing
               in d1, and is tried with self as its own argument;
           (b) the text with every abstract character mapped to a concrete one of its class, through
               _env_deserialise and through get_environment of BuildInfo objects (field assigned /
               parsed from a .buildinfo text); probes: get_environment twice (equal, not the same
               dict), the first result mutated, two live objects with different texts interleaved,
               the field changed and deleted between calls.
           size stress (notes/SIZE_STRESS.md), same abstract cases, sized concretization: (a) items
               of 1 .. 65537 characters, an abstract item standing for a run of up to 1000+ distinct
               items (the union of sets commutes with the expansion; multi-line values are stretched
               in line length only, counts go through the trace leg); (b) a character of a
               self-looping class standing for a run of up to 65537 characters (BuildInfoEnv!Scalable)
               and chains of up to 1000+ clean cases followed by any case (BuildInfoEnv!Compositional);
               expectations are the expansions of TLC's outcome.
           code -> spec: recorded executions validated by TLC --
           (a) random histories of M2 / M1 / Set / Del on 3-4 live objects of mixed kinds and two keys,
               with values of up to 257 items / lines, the projection of ALL objects logged after every
               event;  (b) grammar-based random texts with mutations (<= 120 code points) through
               _env_deserialise and histories of Set / Get / Del / Get on two live BuildInfo objects
               with the returned dicts mutated by the harness.
           Corrupted control traces (one observed item replaced, a bystander touched, an exception
           swapped for a value, a pair dropped, a result of the other object) must be rejected.
known findings (KNOWN): the pinned code diverges from the statement in four ways.  Each is modelled in
           the specification as a defect switch; a divergence is reported as KNOWN-FINDING only when
           TLC's outcome under the smallest set of switches explains it exactly, anything else is a
           VIOLATION.
verdict observables: returned value / exception, projection of every live object after the call,
           returned pairs / dict, exception type.
unspecified (executed, any outcome accepted): see the specification headers.
"""
import copy
import json
import os
import threading
import zlib
from concurrent.futures import ThreadPoolExecutor

import core

MANIFEST = None        # extras are not registered as property checks

EXTRA = dict(
    title="Deb822.merge_fields and BuildInfo.get_environment",
    statement=(
        "(a) For all paragraphs x1, x2 and every key, merge_fields raises KeyError when neither has the key, gives the one "
        "value unchanged when exactly one has it (an empty value counts as nothing to merge), raises ValueError for a "
        "single-line value against a multi-line one; two single-line duplicate-free lists with the same delimiter (', ' when "
        "it occurs in either value, otherwise ' ') give a duplicate-free list with that delimiter whose items are exactly the "
        "items of both (item order unspecified), two multi-line values '\\n l1\\n l2..' give the lines of x1 followed in order "
        "by the lines of x2 that x1 lacks.  The two-argument form returns the result and modifies neither d1, d2 nor the "
        "receiver; the one-argument form returns None and stores the result under the key of self (in place, or appended), "
        "touching nothing else; merging is idempotent, commutative and associative on item sets and every history of merges "
        "keeps every value a well-formed duplicate-free list.  (b) For every list of (name, value) pairs with names over "
        "[A-Za-z0-9_]+ and arbitrary values, BuildInfo._env_deserialise of the documented serialisation (white-space separated "
        "NAME=\"value\" items, \\\" for a quote and \\\\ for a backslash inside the quotes, deb-buildinfo(5)) yields exactly "
        "these pairs and get_environment returns them as a fresh dict ({} without the field), whatever was parsed before; "
        "every malformed text (no quote after NAME=, text ending inside an item, item without a name) raises ValueError "
        "instead of being silently truncated or mis-parsed.  Unspecified: ' '-list against ', '-list, values with internal "
        "duplicates, two one-item values (either delimiter), names outside [A-Za-z0-9_], items not separated by white space, "
        "a backslash before anything but a quote or a backslash, exotic white space, duplicate names in a dict."),
    technique=(
        "TLA+ specs MergeFields (outcome relation of both call forms over abstract list values, paragraphs of several live "
        "objects, implementation layer sort + adjacent dedupe, algebraic laws) and BuildInfoEnv (character-level state machine "
        "of the deserialiser, documented serialiser, round-trip / losslessness / scaling / composition invariants) model-checked "
        "by TLC over all bounded pairs / triples of values and all bounded texts, with five spec-level negative controls; every "
        "TLC case replayed into the real code in several concretizations (object kinds, key case, character maps, size-stressed "
        "expansions) with state-leak probes; recorded histories on live objects validated by TLC (TraceX03Merge, TraceX03Env) "
        "with corrupted control traces; known divergences are modelled as defect switches inside the specification and "
        "classified by TLC."),
)

# The pinned tree violates the statement in four ways (reported, not fixed).  `switch` is the defect
# switch of the specification that reproduces the divergence; a divergence is KNOWN only when TLC's
# prediction under the smallest explaining set of switches matches the observation.
KNOWN = [
    dict(id="X03-merge-multiline-keepends", switch="keepends",
         signature="_merge_fields on two multi-line values compares and appends lines WITH their terminators "
                   "(str.splitlines(True)): e.g. '\\n a\\n b' + '\\n b\\n c' -> '\\n a\\n b\\n b\\n\\n c' (duplicate kept, "
                   "blank line inserted; the one-argument form then fails with ValueError 'value must not have blank "
                   "lines'); expected '\\n a\\n b\\n c'"),
    dict(id="X03-env-eof-no-raise", switch="eof",
         signature="_env_deserialise builds ValueError('end quote not found') without raising it: a text that ends "
                   "inside an item (' A=\"1\"\\n B=\"2' , 'A', 'A=', 'A=\"x\\\\') silently loses the item instead of raising ValueError"),
    dict(id="X03-env-backslash-escape", switch="nobs",
         signature="_env_deserialise rejects the documented escape \\\\ (deb-buildinfo(5): backslashes escaped): "
                   "'A=\"a\\\\\\\\b\"' raises ValueError instead of giving a\\\\b"),
    dict(id="X03-env-empty-name", switch="noname",
         signature="_env_deserialise never reaches its 'variable name not found' check: ' =\"x\" B=\"2\"' gives "
                   "{'=\"x\" B': '2'} instead of raising ValueError"),
]
_BY_SWITCH = {k["switch"]: k for k in KNOWN}
MERGE_KNOWN = ["keepends"]
ENV_KNOWN = ["eof", "nobs", "noname"]

_LOCK = threading.Lock()


class Hits:
    """occurrences of the known findings in this run"""

    def __init__(self):
        self.n = {}
        self.example = {}

    def hit(self, switches, example):
        for s in switches:
            k = _BY_SWITCH[s]["id"]
            self.n[k] = self.n.get(k, 0) + 1
            old = self.example.get(k)
            if old is None or old[0] > len(switches):        # prefer an example that needs this switch only
                self.example[k] = (len(switches), example)


def jopts(ctx):
    # recursive operators over texts / lists of a few hundred elements need a deeper stack than the
    # JVM default (TLC evaluates them without tail calls)
    return (["-XX:TieredStopAtLevel=1"] if ctx.tier == "quick" else []) + ["-Xss128m"]


def cfg_text(name):
    return open(os.path.join(core.SPEC, name)).read()


def stream_cases(path):
    """yield (json value, crc of the text) for the <<"CASE", "json">> lines of a raw TLC output"""
    with open(path, errors="replace") as f:
        for line in f:
            if not line.startswith('<<"CASE", "'):
                continue
            line = line.rstrip("\n")
            if not line.endswith('">>'):
                raise core.MachineryError("truncated TLC output line: %r" % line[:120])
            rest = line[len('<<"CASE", "'):-3]
            yield json.loads(rest.replace('\\"', '"')), zlib.crc32(rest.encode())


class HashChoice:
    """choices derived from the content of a case and the seed (TLC's output order depends on
    thread timing; what is done with a case must not)"""

    def __init__(self, h):
        self.h = (h ^ 0x5bd1e995) & 0x7FFFFFFF

    def _next(self):
        self.h = (self.h * 1103515245 + 12345) & 0x7FFFFFFF
        return self.h >> 8

    def choice(self, seq):
        return seq[self._next() % len(seq)]

    def randrange(self, n):
        return self._next() % n

    def random(self):
        return (self._next() % 10007) / 10007.0

    def sample(self, seq, k):
        pool = list(seq)
        out = []
        for _ in range(k):
            out.append(pool.pop(self._next() % len(pool)))
        return out


def short(s, n=70):
    if s is None:
        return "None"
    r = repr(s)
    if len(r) <= n:
        return r
    return "%s...(%d chars)...%s" % (r[:n // 2], len(s), r[-n // 4:])


def call(fn):
    """-> (kind, value): exceptions of the code under test are observations"""
    try:
        return "val", fn()
    except KeyError:
        return "KeyError", None
    except ValueError as e:
        return "ValueError", str(e)
    except Exception as e:          # noqa: BLE001
        return "EXC:" + type(e).__name__, str(e)[:80]


# ===================================================================== (a) merge_fields
# SIZE_STRESS.md neighbourhoods
LENGTHS = [1, 2, 7, 8, 9, 15, 16, 17, 31, 32, 33, 63, 64, 65, 71, 72, 73, 79, 80, 81, 127, 128, 129, 255, 256, 257,
           1023, 1024, 1025, 4095, 4096, 4097, 8191, 8192, 8193, 65535, 65536, 65537]
COUNTS = [2, 3, 9, 10, 11, 16, 17, 31, 32, 33, 99, 100, 101, 255, 256, 257, 1000, 1025]
TRACE_COUNTS = [2, 3, 9, 10, 11, 16, 17, 31, 32, 33, 99, 100, 101, 255, 256, 257]

TOK_POOL = ["a", "b", "A", "libfoo1", "x-y", "a,b", "é", "中", "0", "a.b", "~x", "foo", "Foo", "g++", "c:d", "1", "z", "aa", "ab",
            "(x)", "x|y", "=", "\"q\"", "\\", "a\\b", "#", "-", "b,c,d", "é2", "ÿ"]
CS_POOL = ["a", "b", "A", "foo (>= 1.0)", "bar | baz", "x [amd64]", "é ü", "a b", "libc6 (<< 2.3) | libc6.1", "p:any", "0",
           "foo", "Foo", "q <!nocheck>", "z", "a  b", "x (= 1:2-3)", "\\", "=", "中 文", "ab", "aa"]
KEY_NAMES = ["Tag", "Depends", "X-Merge", "Binary", "Suggests", "Uploaders"]
BY_NAMES = ["Package", "Origin", "X-Other"]
ABSENT = {"t": "absent", "sep": "-", "it": []}
EMPTY = {"t": "empty", "sep": "-", "it": []}
DELIM = {"sp": " ", "cs": ", "}
OBJ_KINDS = ["assign", "parse", "mapping", "packages", "dict"]


def spell(rng, name):
    return rng.choice([name, name.lower(), name.upper(), name.title(), name.swapcase()])


class MConc:
    """abstract item ids -> concrete text.  texts[i] is the RUN of distinct concrete items id i stands
    for (one item unless the case is size-stressed); a multi-line value uses lead[i] + texts[i][0] as
    its line.  fam 'cs': items may contain blanks (never ', '); fam 'tok': neither blank nor ', '."""

    def __init__(self, fam, texts, lead=None, names=None):
        self.fam = fam
        self.texts = {int(k): list(v) for k, v in texts.items()}
        self.lead = {int(k): v for k, v in (lead or {}).items()}
        self.names = dict(names or {"K": "Tag", "J": "Package", "L": "X-Merge"})
        self.rev = {}
        for i, run in self.texts.items():
            for t in run:
                self.rev[t] = i

    @classmethod
    def make(cls, rng, fam, ids, canonical=False, long_ids=(), runs=None, names=None):
        pool = CS_POOL if fam == "cs" else TOK_POOL
        ids = sorted(ids)
        if canonical:
            base = ["a", "b", "c", "d", "e", "f", "g", "h"][:len(ids)] if len(ids) <= 8 else ["i%d" % i for i in ids]
        elif len(ids) <= 3 and rng.random() < 0.15:
            base = rng.sample(rng.choice([["lib", "Lib", "LIB"], ["é", "É", "e"], ["x-y", "X-Y", "x-Y"]]), len(ids))   # differ in case only
        elif len(ids) <= len(pool):
            base = rng.sample(pool, len(ids))
        else:
            base = ["%s%d" % (rng.choice(["i", "lib", "x-", "é"]), i) for i in ids]
        texts, lead = {}, {}
        for i, b in zip(ids, base):
            if i in long_ids:
                n = rng.choice(LENGTHS)
                b = b + "x" * max(0, n - len(b))
            r = (runs or {}).get(i, 1)
            texts[i] = [b] if r == 1 else ["%s.%d" % (b, j) for j in range(r)]
            lead[i] = " " if canonical else rng.choice([" ", " ", "\t", "  "])
        texts[99] = ["zz"]
        lead[99] = " "
        return cls(fam, texts, lead, names)

    def to_json(self):
        return {"fam": self.fam, "texts": {str(k): v for k, v in self.texts.items()},
                "lead": {str(k): v for k, v in self.lead.items()}, "names": self.names}

    @classmethod
    def from_json(cls, j):
        return cls(j["fam"], j["texts"], j["lead"], j["names"])

    def items(self, it):
        out = []
        for i in it:
            out += self.texts[i]
        return out

    def line(self, i):
        return "" if i == 0 else self.lead[i] + self.texts[i][0]

    def value(self, v, delim=None):
        """the string of an abstract value (None: key absent)"""
        t = v["t"]
        if t == "absent":
            return None
        if t == "empty":
            return ""
        if t == "ml":
            return "\n" + "\n".join(self.line(i) for i in v["it"])
        d = DELIM.get(v["sep"]) or delim or " "
        return d.join(self.items(v["it"]))

    def project(self, s):
        """a string held by / returned from the real code -> abstract value; anything that is not
        the exact concretization of an abstract value gets the impossible item -1"""
        if s is None:
            return ABSENT
        if not isinstance(s, str):
            return {"t": "sl", "sep": "one", "it": [-1]}
        if s == "":
            return EMPTY
        if "\n" in s:
            parts = s.split("\n")
            if parts[0] != "":
                return {"t": "ml", "sep": "nl", "it": [-1]}
            it = []
            for p in parts[1:]:
                if p == "":
                    it.append(0)
                elif p[:1] in " \t" and self.rev.get(p.lstrip(" \t")) is not None and self.line(self.rev[p.lstrip(" \t")]) == p:
                    it.append(self.rev[p.lstrip(" \t")])
                else:
                    it.append(-1)
            return {"t": "ml", "sep": "nl", "it": it}
        if ", " in s:
            sep, parts = "cs", s.split(", ")
        elif " " in s and self.fam == "tok":
            sep, parts = "sp", s.split(" ")
        else:
            sep, parts = "one", [s]
        it = [0 if p == "" else self.rev.get(p, -1) for p in parts]
        if len(it) == 1 and sep != "one":
            sep = "one"
        v = {"t": "sl", "sep": sep, "it": it}
        if -1 not in it and 0 not in it and self.value(v) != s:
            v["it"] = [-1]
        return v


def par_fields(par, conc):
    """abstract paragraph -> [(field name, value string)]"""
    return [(conc.names[e["k"]], conc.value(e["v"])) for e in par]


def par_text(fields):
    out = []
    for n, v in fields:
        if v == "":
            out.append("%s:\n" % n)
        elif v.startswith("\n"):
            out.append("%s:%s\n" % (n, v))
        else:
            out.append("%s: %s\n" % (n, v))
    return "".join(out)


def build_obj(kind, fields):
    """a live object holding the fields; Deb822-like kinds look keys up case-insensitively"""
    from debian import deb822
    if kind == "dict":
        return dict(fields)
    if kind == "assign":
        d = deb822.Deb822()
        for n, v in fields:
            d[n] = v
        return d
    if kind == "mapping":
        return deb822.Deb822(dict(fields))
    if kind == "packages":
        return deb822.Packages(par_text(fields))
    return deb822.Deb822(par_text(fields))


def observe(obj):
    """[(lower-cased field name, value)] in the object's order"""
    return [(str(k).lower(), obj[k]) for k in list(obj.keys())]


def expect_fields(fields):
    return [(n.lower(), v) for n, v in fields]


def conform(kind, val, summ, conc):
    """does the observed (kind, val) satisfy TLC's summary of the allowed outcomes?  -> None or text"""
    if summ["k"] == "unspec":
        return None
    if kind != summ["k"]:
        got = ("result " + short(val)) if kind == "val" else "returned None" if kind == "None" else "raised " + kind.replace("EXC:", "")
        return "%s, specification says %s" % (got, ("result " + short(expected_text(summ, conc))) if summ["k"] == "val" else summ["k"])
    if kind != "val":
        return None
    if not isinstance(val, str):
        return "result %r is not a str" % (val,)
    if summ["exact"]:
        exp = conc.value(summ["val"])
        return None if val == exp else "result %s, specification says %s" % (short(val), short(exp))
    want = sorted(conc.items(summ["set"]))
    for sep in ("sp", "cs"):
        if summ[sep]:
            got = val.split(DELIM[sep])
            if len(got) >= 2 and sorted(got) == want:
                return None
    return "result %s, specification says the duplicate-free list of %s joined by %s" % (
        short(val), short(want), " or ".join(repr(DELIM[s]) for s in ("sp", "cs") if summ[s]))


def expected_text(summ, conc):
    if summ["exact"]:
        return conc.value(summ["val"])
    return (", " if summ["cs"] else " ").join(sorted(conc.items(summ["set"])))


class Divergence(Exception):
    def __init__(self, step, msg, known_msg):
        Exception.__init__(self, msg)
        self.step, self.msg, self.known_msg = step, msg, known_msg


def judge(step, kind, val, exp, kexp, conc):
    """compare with the statement; on divergence compare with the known-defect model"""
    m = conform(kind, val, exp, conc)
    if m is None:
        return
    raise Divergence(step, m, conform(kind, val, kexp, conc))


def merge_case(case, conc, kinds, spells):
    """replay one TLC case: paragraphs p, q; expected summaries exp (statement), kexp / kexp1 (known
    defect model, two- / one-argument form).  kinds = (kind of p, kind of q, kind of the receiver);
    -> None | ("known", text) | ("violation", text)"""
    fp, fq = par_fields(case["p"], conc), par_fields(case["q"], conc)
    kname = conc.names["K"]
    kp, kq, kr = kinds
    what = "merge_fields(%r, %s %s, %s %s)" % (spells[0], kp, short(par_text(fp), 90), kq, short(par_text(fq), 90))
    try:
        P, Q = build_obj(kp, fp), build_obj(kq, fq)
        R = build_obj(kr if kr != "dict" else "assign", [(kname, "unrelated"), ("X-R", "r")])
        if observe(P) != expect_fields(fp) or observe(Q) != expect_fields(fq):
            return ("drift", "%s: could not establish the paragraphs (%r / %r)" % (what, observe(P), observe(Q)))
        sp_, sq_, sr_ = observe(P), observe(Q), observe(R)
        exp, kexp, kexp1 = case["exp"], case["kexp"], case["kexp1"]
        # ---- two-argument form on an unrelated receiver, repeated
        for rep in (1, 2):
            kind, val = call(lambda: R.merge_fields(spells[0], P, Q))
            if (observe(P), observe(Q), observe(R)) != (sp_, sq_, sr_):
                return ("violation", "%s modified %s (call %d): p=%r q=%r receiver=%r" % (
                    what, "its arguments or the receiver", rep, observe(P), observe(Q), observe(R)))
            judge("two-argument form (call %d)" % rep, kind, val, exp, kexp, conc)
        # ---- the receiver is one of the arguments
        if kp != "dict":
            kind, val = call(lambda: P.merge_fields(spells[1], P, Q))
            if (observe(P), observe(Q)) != (sp_, sq_):
                return ("violation", "%s with the receiver as d1 modified an object: p=%r q=%r" % (what, observe(P), observe(Q)))
            judge("two-argument form, receiver is d1", kind, val, exp, kexp, conc)
        # ---- one-argument form: self = a second copy of p
        if kp != "dict":
            S = build_obj(kp, fp)
            kind, val = call(lambda: S.merge_fields(spells[2], Q))
            if kind == "val":
                kind = "None" if val is None else "val"
            after = observe(S)
            if observe(Q) != sq_ or observe(P) != sp_:
                return ("violation", "one-argument %s modified d1 or another object: d1=%r" % (what, observe(Q)))
            if exp["k"] == "unspec":
                pass
            elif exp["k"] != "val":
                if after != sp_:
                    return ("violation", "one-argument %s raised %s but self changed: %r" % (what, kind, after))
                judge("one-argument form", kind, val, exp, kexp1, conc)
            else:
                bad = None
                if kind != "None":
                    bad = "%s instead of returning None" % (("returned " + short(val)) if kind == "val" else "raised " + kind)
                else:
                    akeys = [conc.names[k].lower() for k in case["akeys"]]
                    others = [(n, v) for n, v in after if n != kname.lower()]
                    if [n for n, _ in after] != akeys:
                        bad = "fields of self are %r, specification says %r" % ([n for n, _ in after], akeys)
                    elif others != [(n, v) for n, v in sp_ if n != kname.lower()]:
                        bad = "another field of self changed: %r" % (after,)
                    else:
                        stored = dict(after)[kname.lower()]
                        bad = conform("val", stored, exp, conc)
                        if bad:
                            bad = "self[key] is now " + bad[len("result "):] if bad.startswith("result ") else bad
                if bad:
                    # the known-defect model: the blank line makes Deb822.__setitem__ raise
                    kn = "x"
                    if kexp1["k"] == "unspec":
                        kn = "x"
                    elif kexp1["k"] != "val":
                        kn = None if (kind == kexp1["k"] and after == sp_) else "x"
                    elif kind == "None" and [n for n, _ in after] == [conc.names[k].lower() for k in case["akeys"]]:
                        kn = conform("val", dict(after)[kname.lower()], kexp1, conc)
                    else:
                        kn = "x"
                    raise Divergence("one-argument form", bad, kn)
                # self merged into itself afterwards: nothing may change any more (idempotent)
                snap = observe(S)
                kind2, _ = call(lambda: S.merge_fields(spells[2], S))
                if kind2 not in ("val",) or sorted(observe(S)) != sorted(snap) or [n for n, _ in observe(S)] != [n for n, _ in snap]:
                    items_before = dict(snap)[kname.lower()]
                    items_after = dict(observe(S)).get(kname.lower())
                    if kind2 != "val" or sorted(_split_any(items_before)) != sorted(_split_any(items_after)):
                        return ("violation", "%s: merging self into itself afterwards (%s) changed it from %s to %s" % (
                            what, kind2, short(items_before), short(items_after)))
    except Divergence as d:
        text = "%s, %s: %s" % (what, d.step, d.msg)
        if d.known_msg is None:         # exactly what the known-defect model of the specification predicts
            return ("known", text)
        return ("violation", text)
    return None


def _split_any(s):
    if s is None:
        return []
    if "\n" in s:
        return s.split("\n")
    return s.split(", ") if ", " in s else s.split(" ")


def case_family(case):
    seps = set()
    for par in (case["p"], case["q"]):
        for e in par:
            if e["k"] == "K":
                seps.add(e["v"]["sep"])
    return "cs" if "cs" in seps and "sp" not in seps else "tok"


def case_ids(case):
    ids, ones, ml = set(), set(), False
    for par in (case["p"], case["q"]):
        for e in par:
            if e["k"] == "K":
                ids.update(e["v"]["it"])
                ml = ml or e["v"]["t"] == "ml"
                if e["v"]["sep"] == "one":
                    ones.update(e["v"]["it"])
    return ids, ones, ml


def replay_merge_cases(ctx, raw, hits, quick):
    n = 0
    seen_kinds = {}
    impl = ctx.extra.setdefault("implementation_layer_sorted_results", {"n": 0, "unsorted": 0})
    for case, crc in stream_cases(raw):
        n += 1
        hc = HashChoice(crc ^ (ctx.seed * 7919))
        fam = case_family(case)
        ids, ones, ml = case_ids(case)
        rounds = [("canonical", {})]
        rounds.append(("random", {}))
        if hc.randrange(4 if quick else 2) == 0:
            rounds.append(("long", {}))
        if not ml and ids - ones and hc.randrange(6 if quick else 3) == 0:
            rounds.append(("runs", {}))
        for rname, _ in rounds:
            names = {"K": hc.choice(KEY_NAMES), "J": hc.choice(BY_NAMES), "L": "X-L"}
            if rname == "canonical":
                conc = MConc.make(hc, fam, ids, canonical=True, names={"K": "Tag", "J": "Package", "L": "X-L"})
                kinds = ("assign", "assign", "assign")
                spells = ("Tag", "Tag", "Tag")
            else:
                long_ids = set(hc.sample(sorted(ids), 1)) if rname == "long" and ids else set()
                runs = None
                if rname == "runs":
                    big = hc.choice(sorted(ids - ones))
                    cnt = hc.choice(COUNTS if not quick else COUNTS[:-2] + [1000])
                    runs = {big: cnt}
                    for i in ids - ones - {big}:
                        if hc.randrange(2):
                            runs[i] = hc.choice([2, 3, 9, 10, 11])
                conc = MConc.make(hc, fam, ids, long_ids=long_ids, runs=runs, names=names)
                kp = hc.choice(OBJ_KINDS)
                kq = hc.choice(OBJ_KINDS)
                kinds = (kp, kq, hc.choice(OBJ_KINDS[:4]))
                kn = names["K"]
                sp = (lambda: spell(hc, kn)) if "dict" not in (kp, kq) else (lambda: kn)
                spells = (sp(), sp(), sp())
            res = merge_case(case, conc, kinds, spells)
            key = "merge:%s/%s/%s:%s" % (case["exp"]["k"], case["exp"]["t"], rname, fam)
            ctx.case_seen(key + ":%s%s" % kinds[:2])
            seen_kinds[case["exp"]["k"]] = seen_kinds.get(case["exp"]["k"], 0) + 1
            if res is None:
                if rname == "canonical" and case["exp"]["k"] == "val" and not case["exp"]["exact"]:
                    # implementation layer (MergeFields!ImplSl): under a rank-monotone concretization the code's
                    # result is the SORTED list -- not part of the statement, recorded as drift only
                    from debian.deb822 import Deb822
                    kind, val = call(lambda: Deb822()._merge_fields(conc.value(_kv(case["p"])), conc.value(_kv(case["q"]))))
                    d = ", " if case["exp"]["cs"] and not case["exp"]["sp"] else " "
                    impl["n"] += 1
                    if kind != "val" or val != d.join(sorted(conc.items(case["exp"]["set"]))):
                        impl["unsorted"] += 1
                        ctx.drift("single-line merge result %r is not the sorted list (implementation layer ImplSl)" % (val,))
                if case["exp"]["k"] == "val" and not case["exp"]["exact"]:
                    ctx.sample("merge %s + %s -> set %s" % (short(conc.value(_kv(case["p"])), 30), short(conc.value(_kv(case["q"])), 30), case["exp"]["set"]))
                continue
            tag, text = res
            if tag == "known":
                hits.hit(["keepends"], text)
            elif tag == "drift":
                ctx.drift(text)
            else:
                ctx.violation({"kind": "merge_case", "case": case, "conc": conc.to_json(), "kinds": list(kinds), "spells": list(spells)}, text)
                if len(ctx.violations) >= 5:
                    return n, seen_kinds
    return n, seen_kinds


def _kv(par):
    for e in par:
        if e["k"] == "K":
            return e["v"]
    return ABSENT


# --------------------------------------------------------------------- merge: recorded histories

class World:
    """live objects of mixed kinds, two merge keys (K, L) and a bystander (J)"""

    def __init__(self, rng, concs, kinds, pars):
        self.rng = rng
        self.concs = concs                       # abstract key -> MConc
        self.names = concs["K"].names
        self.lower = {v.lower(): k for k, v in self.names.items()}
        self.kinds = kinds                       # object name -> kind
        self.objs = {}
        for o, par in pars.items():
            fields = [(self.names[e["k"]], self.concs[e["k"]].value(e["v"])) for e in par]
            self.objs[o] = build_obj(kinds[o], fields)

    def project(self):
        out = {}
        for o, obj in self.objs.items():
            par = []
            for n, v in observe(obj):
                k = self.lower.get(n, "?" + n)
                conc = self.concs.get(k) or self.concs["K"]
                par.append({"k": k, "v": conc.project(v)})
            out[o] = par
        return out

    def deblike(self, o):
        return self.kinds[o] != "dict"

    def keyarg(self, k, objs):
        n = self.names[k]
        return spell(self.rng, n) if all(self.deblike(o) for o in objs) else n

    def run(self, ev):
        """execute one event (concrete fields c_* are kept for replay); fills res / after"""
        op, k = ev["op"], ev["key"]
        conc = self.concs[k]
        if op == "Set":
            self.objs[ev["s"]][ev["c_key"]] = conc.value(ev["v"])
            ev["res"] = {"k": "None", "v": ABSENT}
        elif op == "Del":
            del self.objs[ev["s"]][ev["c_key"]]
            ev["res"] = {"k": "None", "v": ABSENT}
        elif op == "M2":
            kind, val = call(lambda: self.objs[ev["s"]].merge_fields(ev["c_key"], self.objs[ev["a"]], self.objs[ev["b"]]))
            ev["res"] = {"k": kind, "v": conc.project(val) if kind == "val" else ABSENT}
            ev["c_res"] = short(val, 200) if kind == "val" else val
        else:
            kind, val = call(lambda: self.objs[ev["s"]].merge_fields(ev["c_key"], self.objs[ev["a"]]))
            if kind == "val":
                kind = "None" if val is None else "val"
            ev["res"] = {"k": kind, "v": conc.project(val) if kind == "val" else ABSENT}
            ev["c_res"] = short(val, 200) if kind == "val" else val
        ev["after"] = self.project()
        if op == "Set" and {"k": k, "v": ev["v"]} not in ev["after"][ev["s"]]:
            raise core.MachineryError("harness: value %r of key %s is not projected back to itself: %r" % (ev["v"], k, ev["after"][ev["s"]]))
        return ev


def rand_value(rng, fam, nids, kmax, allow_empty=True):
    r = rng.random()
    if allow_empty and r < 0.08:
        return dict(EMPTY)
    # ', '-lists of a history always have >= 2 items: their items may contain blanks, and for two
    # one-item values the code cannot see the delimiter (documented limit of its heuristic; that pair
    # is covered, with blank-free items, by the replayed TLC cases)
    k = 1 if fam != "cs" and rng.random() < 0.2 else rng.randint(2, max(2, kmax))
    k = min(k, nids)
    it = rng.sample(range(1, nids + 1), k)
    if fam == "ml":
        return {"t": "ml", "sep": "nl", "it": it}
    return {"t": "sl", "sep": "one" if k == 1 else fam, "it": it}


def record_merge_history(rng, size=None, nevents=8):
    """one random history; -> (trace for TLC, meta for messages / replay)"""
    famK = rng.choice(["sp", "sp", "cs", "cs", "ml", "ml"])
    famL = rng.choice(["sp", "cs", "ml"])
    nids = rng.choice([3, 4, 6]) if size is None else size
    kmax = 3 if size is None else size
    names = {"K": rng.choice(KEY_NAMES), "J": rng.choice(BY_NAMES), "L": "X-L"}
    if names["K"] == names["L"]:
        names["L"] = "X-L2"
    long_ids = set(rng.sample(range(1, nids + 1), 1)) if rng.random() < 0.3 else set()
    concs = {}
    for k, fam in (("K", famK), ("L", famL)):
        concs[k] = MConc.make(rng, "cs" if fam == "cs" else "tok", range(1, nids + 1), long_ids=long_ids if size is None else set(), names=names)
    concs["J"] = concs["K"]
    fams = {"K": famK, "L": famL}
    onames = ["o1", "o2", "o3"] + (["o4"] if rng.random() < 0.3 else [])
    kinds = {o: rng.choice(OBJ_KINDS[:4]) for o in onames}
    kinds[onames[-1]] = rng.choice(OBJ_KINDS)          # at most one plain dict (only ever an argument)
    pars = {}
    for o in onames:
        par = []
        shape = rng.choice(["kj", "jk", "j", "jkl", "lk", "k"])
        for c in shape:
            if c == "j":
                par.append({"k": "J", "v": {"t": "sl", "sep": "one", "it": [99]}})
            else:
                kk = c.upper()
                fam = fams[kk]
                if rng.random() < 0.1:
                    fam = "sp" if fam == "ml" else "ml"       # a value of the other type: ValueError expected
                par.append({"k": kk, "v": rand_value(rng, fam, nids, kmax)})
        pars[o] = par
    w = World(rng, concs, kinds, pars)
    objs0 = w.project()
    events = []
    for _ in range(nevents):
        r = rng.random()
        k = rng.choice(["K", "K", "K", "L"])
        deb = [o for o in onames if w.deblike(o)]
        if r < 0.40:
            s, a, b = rng.choice(deb), rng.choice(onames), rng.choice(onames)
            ev = {"op": "M2", "s": s, "a": a, "b": b, "key": k, "v": ABSENT, "c_key": w.keyarg(k, [a, b])}
        elif r < 0.80:
            s, a = rng.choice(deb), rng.choice(onames)
            ev = {"op": "M1", "s": s, "a": a, "b": "-", "key": k, "v": ABSENT, "c_key": w.keyarg(k, [s, a])}
        elif r < 0.93:
            s = rng.choice(onames)
            fam = fams[k] if rng.random() < 0.9 else ("sp" if fams[k] == "ml" else "ml")
            ev = {"op": "Set", "s": s, "a": "-", "b": "-", "key": k, "v": rand_value(rng, fam, nids, kmax), "c_key": w.keyarg(k, [s])}
        else:
            cand = [o for o in onames if any(n == names[k].lower() for n, _ in observe(w.objs[o]))]
            if not cand:
                continue
            s = rng.choice(cand)
            ev = {"op": "Del", "s": s, "a": "-", "b": "-", "key": k, "v": ABSENT, "c_key": w.keyarg(k, [s])}
        events.append(w.run(ev))
    if not events:
        return None, None
    meta = {"concs": {k: c.to_json() for k, c in concs.items() if k != "J"}, "kinds": kinds, "pars": pars, "fams": fams}
    return {"ds": [[]], "objs0": objs0, "events": events}, meta


def tlc_merge_event(ev):
    return {k: ev[k] for k in ("op", "s", "a", "b", "key", "v", "res", "after")}


def rerun_merge_history(trace, meta):
    """replay: the same concrete history on the current tree -> new trace"""
    import random
    concs = {k: MConc.from_json(j) for k, j in meta["concs"].items()}
    concs["J"] = concs["K"]
    w = World(random.Random(0), concs, meta["kinds"], meta["pars"])
    out = {"ds": [[]], "objs0": w.project(), "events": []}
    for ev in trace["events"]:
        ev = {k: copy.deepcopy(ev[k]) for k in ("op", "s", "a", "b", "key", "v", "c_key")}
        out["events"].append(w.run(ev))
    return out


def merge_controls(traces):
    """corrupted copies the trace specification must reject.  -> [(control trace, original index,
    position of the corruption)]"""
    out = []

    def first(pred):
        for i, t in enumerate(traces):
            for j, e in enumerate(t["events"]):
                if pred(e):
                    return i, j, copy.deepcopy(t)
        return None
    f = first(lambda e: e["op"] == "M2" and e["res"]["k"] == "val" and e["res"]["v"]["t"] == "sl" and len(e["res"]["v"]["it"]) >= 2)
    if f:                                          # one item of a returned list replaced
        i, j, t = f
        t["events"][j]["res"]["v"]["it"][0] = 7777
        out.append((t, i, j))
    f = first(lambda e: e["op"] == "M2" and e["res"]["k"] == "val" and e["res"]["v"]["t"] == "sl" and len(e["res"]["v"]["it"]) >= 2)
    if f:                                          # a duplicate in a returned list
        i, j, t = f
        it = t["events"][j]["res"]["v"]["it"]
        it.append(it[0])
        out.append((t, i, j))
    f = first(lambda e: e["op"] == "M1" and e["res"]["k"] == "None")
    if f:                                          # the one-argument form touched a bystander of another object
        i, j, t = f
        e = t["events"][j]
        other = [o for o in e["after"] if o != e["s"]][0]
        e["after"][other] = e["after"][other] + [{"k": "J2", "v": {"t": "sl", "sep": "one", "it": [99]}}]
        out.append((t, i, j))
    f = first(lambda e: e["op"] == "M2" and e["res"]["k"] == "val")
    if f:                                          # the two-argument form modified d1
        i, j, t = f
        e = t["events"][j]
        e["after"][e["a"]] = [x for x in e["after"][e["a"]] if x["k"] != e["key"]] + [{"k": e["key"], "v": e["res"]["v"]}]
        if e["after"] != traces[i]["events"][j]["after"]:
            out.append((t, i, j))
    f = first(lambda e: e["op"] in ("M1", "M2") and e["res"]["k"] in ("KeyError", "ValueError"))
    if f:                                          # an exception swapped for the other one
        i, j, t = f
        e = t["events"][j]
        e["res"]["k"] = "KeyError" if e["res"]["k"] == "ValueError" else "ValueError"
        out.append((t, i, j))
    f = first(lambda e: e["op"] == "M1" and e["res"]["k"] == "None" and len(traces[0]["events"]) > 0)
    if f:                                          # the merged value was not stored
        i, j, t = f
        e = t["events"][j]
        prev = t["events"][j - 1]["after"] if j > 0 else t["objs0"]
        if prev != e["after"]:
            e["after"] = copy.deepcopy(prev)
            out.append((t, i, j))
    return out


# ===================================================================== (b) Environment

NM_CHARS = "ABCDEFGHIJKLMNOPQRSTUVWXYZabcdefghijklmnopqrstuvwxyz0123456789_"
OT_CHARS = ["/", "-", ".", "'", "(", ")", "$", "#", ":", ";", "é", "中", "%", "+", ",", "@", "~", "`", "{", "|", "?", "\x7f", "\x00", "ÿ", "٣"]
WS_CHARS = [" ", "\t", "\n"]
XS_CHARS = ["\xa0", "\r", "\x0b", "\x0c", "\x1c", "\x1f", "\x85", "\u2028", "\u3000", "\u2003"]


class EConc:
    """abstract code point -> concrete chunk: 65 (name character), 47 (other), 32 (white space), 160
    (exotic white space) stand for a non-empty run of characters of their class; = \" \\ are themselves"""

    def __init__(self, m):
        self.m = {int(k): v for k, v in m.items()}

    @classmethod
    def make(cls, rng, canonical=False, big=None, namechunk=None):
        if canonical:
            return cls({65: "A", 47: "/", 32: " ", 160: "\xa0"})
        m = {65: namechunk or rng.choice(NM_CHARS) + ("" if rng.random() < 0.6 else "".join(rng.choice(NM_CHARS) for _ in range(rng.choice([1, 2, 7])))),
             47: rng.choice(OT_CHARS) if rng.random() < 0.7 else "".join(rng.choice(OT_CHARS) for _ in range(rng.choice([2, 3]))),
             32: rng.choice(WS_CHARS) if rng.random() < 0.6 else "".join(rng.choice(WS_CHARS) for _ in range(rng.choice([2, 3]))),
             160: rng.choice(XS_CHARS)}
        if big:
            cp, n = big
            pool = {65: NM_CHARS, 47: "".join(OT_CHARS), 32: " \t\n"}[cp]
            unit = "".join(rng.choice(pool) for _ in range(rng.choice([1, 3, 16])))
            m[cp] = (unit * (n // len(unit) + 1))[:n]
        return cls(m)

    def to_json(self):
        return {str(k): v for k, v in self.m.items()}

    def text(self, cps):
        return "".join(self.m.get(c) or chr(c) for c in cps)

    def pairs(self, out):
        return [(self.text(p["name"]), self.text(p["value"])) for p in out]


def deser(text):
    from debian.deb822 import BuildInfo
    kind, val = call(lambda: list(BuildInfo._env_deserialise(text)))
    if kind == "val":
        return "ok", [tuple(x) for x in val]
    return kind, None


def getenv(obj):
    kind, val = call(obj.get_environment)
    if kind == "val":
        return "ok", val
    return kind, None


def new_buildinfo(text, how="assign"):
    """a live BuildInfo whose Environment field is `text` (None: no such field)"""
    from debian.deb822 import BuildInfo
    # (the Deb822 line regex backtracks quadratically on long runs of white space: short texts only)
    if how == "parse" and text is not None and len(text) < 3000:
        try:
            b = BuildInfo("Format: 1.0\nSource: x\nEnvironment:%s\nBuild-Origin: Debian\n" % text)
            if b.get("Environment") == text and list(b.keys()) == ["Format", "Source", "Environment", "Build-Origin"]:
                return b
        except Exception:           # noqa: BLE001 -- the parser is not what is checked here
            pass
    b = BuildInfo()
    b["Format"] = "1.0"
    if text is not None:
        b["Environment"] = text
    b["Build-Origin"] = "Debian"
    return b


def env_outcome_matches(kind, pairs, o, conc, asdict=False):
    """does the observation equal the concretization of TLC's outcome o?"""
    if o["k"] == "unspec":
        return True
    if o["k"] != "ok":
        return kind == o["k"]
    if kind != "ok":
        return False
    want = conc.pairs(o["out"])
    if asdict:
        if len(set(n for n, _ in want)) != len(want):
            return True                                  # duplicate names: unspecified
        return isinstance(pairs, dict) and list(pairs.items()) == want
    return pairs == want


def env_classify(kind, pairs, case_exp, alts, conc, asdict=False):
    """-> None (as the statement says) | list of defect switches that explain it | False"""
    if env_outcome_matches(kind, pairs, case_exp, conc, asdict):
        return None
    best = None
    for a in alts:
        if env_outcome_matches(kind, pairs, a["o"], conc, asdict):
            sw = sorted(s for s, on in a["d"].items() if on)
            if best is None or len(sw) < len(best):
                best = sw
    return best if best is not None else False


def show_env(kind, pairs):
    if kind != "ok":
        return "raised " + kind.replace("EXC:", "")
    return "returned " + short(pairs, 160)


def show_exp(o, conc):
    if o["k"] == "ok":
        return short(conc.pairs(o["out"]), 160)
    return o["k"]


def env_probe_case(text, case, conc, hc, hits, other=None):
    """replay one text through _env_deserialise and get_environment with the state-leak probes.
    other = (text, dict) of a CLEAN TLC case, used for the second live object and as the replacement
    of the field.  -> None or violation text"""
    exp, alts = case["exp"], case["alts"]

    def settle(kind, val, what, asdict):
        c = env_classify(kind, val, exp, alts, conc, asdict)
        if c is None:
            return None
        if c is False:
            return "%s of %s %s, specification says %s" % (what, short(text, 120), show_env(kind, val), show_exp(exp, conc))
        hits.hit(c, "%s of %s %s, specification says %s" % (what, short(text, 120), show_env(kind, val), show_exp(exp, conc)))
        return None
    kind, val = deser(text)
    m = settle(kind, val, "_env_deserialise", False)
    if m:
        return m
    # values held by Deb822 objects must not end in a newline / contain blank lines: only then the text can be a field
    kf, _ = call(lambda: new_buildinfo(text))
    if kf != "val":
        return None
    how = hc.choice(["assign", "parse"])
    b1 = new_buildinfo(text, how)
    if other is None:
        otext, odict = None, {}
    else:
        otext, odict = other
    b2 = new_buildinfo(otext)
    k1, d1 = getenv(b1)
    m = settle(k1, d1, "get_environment (field %s)" % how, True)
    if m:
        return m
    ko, do = getenv(b2)                                  # another live object in between
    if (ko, do) != ("ok", odict):
        return "get_environment of a second live BuildInfo with Environment %r %s, specification says %r" % (otext, show_env(ko, do), odict)
    if k1 == "ok":
        d1["INJECTED"] = "x"                             # mutate the first result
        for k in list(d1):
            d1[k] = d1[k] + "!"
    k2, d2 = getenv(b1)
    if k2 == "ok" and d2 is d1:
        return "get_environment of %s returned the same dict object twice" % short(text, 120)
    m = settle(k2, d2, "second get_environment (first result mutated)", True)
    if m:
        return m
    # the field changes: no stale result
    if otext is not None:
        b1["Environment"] = otext
        k3, d3 = getenv(b1)
        if (k3, d3) != ("ok", odict):
            return "get_environment after the field was replaced by %r (before: %s) %s, specification says %r" % (
                otext, short(text, 80), show_env(k3, d3), odict)
    del b1["Environment"]
    k4, d4 = getenv(b1)
    if (k4, d4) != ("ok", {}):
        return "get_environment after the field was deleted %s, specification says {}" % show_env(k4, d4)
    return None


def replay_env_cases(ctx, raw, hits, quick):
    n = 0
    kinds = {}
    clean = []
    every = []
    nbig = 0
    other = None
    for case, crc in stream_cases(raw):
        n += 1
        hc = HashChoice(crc ^ (ctx.seed * 104729))
        if other is None and case["clean"] and case["exp"]["out"] and case["distinct"]:
            oc = EConc.make(hc, namechunk="OTHER_")
            other = ("\n " + oc.text(case["inp"]).strip(" \t\n"), dict(oc.pairs(case["exp"]["out"])))
            if not settable(other[0]):
                other = None
        kinds[case["exp"]["k"]] = kinds.get(case["exp"]["k"], 0) + 1
        if case["clean"] and case["exp"]["out"]:
            clean.append(case)
        if hc.randrange(40 if not quick else 12) == 0:
            every.append(case)
        rounds = ["canonical", "random"]
        has = set(case["inp"])
        bigcands = [c for c in (65, 47, 32) if c in has]
        if bigcands and (hc.randrange(25 if quick else 40) == 0 or (case["exp"]["k"] == "ok" and case["exp"]["out"] and hc.randrange(3 if quick else 6) == 0)):
            rounds.append("big")
        for r in rounds:
            if r == "canonical":
                conc = EConc.make(hc, canonical=True)
            elif r == "random":
                conc = EConc.make(hc)
            else:
                nbig += 1
                conc = EConc.make(hc, big=(hc.choice(bigcands), hc.choice(LENGTHS[12:] if not quick else LENGTHS[12:-3] + [65536])))
            text = conc.text(case["inp"])
            ctx.case_seen("env:%s:%s:%d" % (case["exp"]["k"], r, len(case["inp"])))
            m = env_probe_case(text, case, conc, hc, hits, other)
            if m:
                ctx.violation({"kind": "env_case", "case": case, "conc": conc.to_json(), "text": text if len(text) < 4000 else None,
                               "h": crc ^ (ctx.seed * 104729), "other": list(other) if other else None}, m)
                if len(ctx.violations) >= 5:
                    return n, kinds, nbig
            elif case["exp"]["k"] == "ok" and case["exp"]["out"] and r == "random":
                ctx.sample("env %s -> %s" % (short(text, 40), short(conc.pairs(case["exp"]["out"]), 60)), limit=10)
    # ---- count stress: chains of clean cases followed by any case (BuildInfoEnv!Compositional)
    nchain = 0
    if clean:
        hc = HashChoice(ctx.seed * 31 + 17)
        sizes = [2, 3, 9, 10, 11, 16, 17, 31, 32, 33, 99, 100, 101, 255, 256, 257] + ([1000] if quick else [1000, 1025, 4097])
        for N in sizes:
            for last in hc.sample(every, min(len(every), 3 if quick else 8)):
                parts, out = [], []
                for i in range(N - 1):
                    c = hc.choice(clean)
                    conc = EConc.make(hc, namechunk="V%d_" % i)
                    parts.append(conc.text(c["inp"]))
                    out += conc.pairs(c["exp"]["out"])
                lconc = EConc.make(hc, namechunk="LAST_")
                text = "\n ".join(parts + [lconc.text(last["inp"])])
                nchain += 1

                def chain_match(o):
                    if o["k"] == "unspec":
                        return True
                    if o["k"] != "ok":
                        return kind == o["k"]
                    return kind == "ok" and val == out + lconc.pairs(o["out"])
                kind, val = deser(text)
                if chain_match(last["exp"]):
                    kb, vb = getenv(new_buildinfo(text)) if call(lambda: new_buildinfo(text))[0] == "val" else (None, None)
                    if kb is not None and last["exp"]["k"] == "ok" and last["distinct"] and (kb, vb) != ("ok", dict(out + lconc.pairs(last["exp"]["out"]))):
                        ctx.violation({"kind": "env_chain", "text": text if len(text) < 20000 else None}, "get_environment of a chain of %d items %s, specification says the %d pairs of the chain" % (N, show_env(kb, short(vb, 100)), len(out) + len(last["exp"]["out"])))
                    continue
                sw = None
                for a in last["alts"]:
                    if chain_match(a["o"]):
                        s = sorted(x for x, on in a["d"].items() if on)
                        if sw is None or len(s) < len(sw):
                            sw = s
                what = "_env_deserialise of a chain of %d clean items + %s %s, specification says %s" % (
                    N - 1, short(lconc.text(last["inp"]), 60), show_env(kind, val[-3:] if val else val),
                    ("the %d pairs of the chain + %s" % (len(out), show_exp(last["exp"], lconc))) if last["exp"]["k"] == "ok" else last["exp"]["k"])
                if sw is not None:
                    hits.hit(sw, what)
                else:
                    ctx.violation({"kind": "env_chain", "text": text if len(text) < 20000 else None}, what)
                    if len(ctx.violations) >= 5:
                        return n, kinds, nbig
    ctx.extra["env_chains"] = nchain
    return n, kinds, nbig


# --------------------------------------------------------------------- Environment: recorded executions

def rand_env_text(rng, maxlen=110):
    """grammar-based text with mutations"""
    parts = []
    for _ in range(rng.choice([0, 1, 1, 2, 2, 3, 5])):
        name = "".join(rng.choice(NM_CHARS) for _ in range(rng.choice([1, 2, 3, 8])))
        val = []
        for _ in range(rng.choice([0, 1, 2, 3, 5, 9, 17])):
            r = rng.random()
            if r < 0.12:
                val.append('\\"')
            elif r < 0.24:
                val.append("\\\\")
            elif r < 0.30:
                val.append("\\" + rng.choice(["n", "t", "x", " "]))
            elif r < 0.40:
                val.append(rng.choice([" ", "\t", "=", "\n "]))
            elif r < 0.6:
                val.append(rng.choice(OT_CHARS))
            else:
                val.append(rng.choice(NM_CHARS))
        parts.append(rng.choice(["\n ", " ", "\n\t", "\n  ", ""]) + name + '="' + "".join(val) + '"')
    s = "".join(parts) + rng.choice(["", "", "\n", " ", " \t"])
    for _ in range(rng.choice([0, 0, 0, 1, 1, 2])):
        if not s:
            break
        i = rng.randrange(len(s))
        r = rng.random()
        if r < 0.35:
            s = s[:i] + s[i + 1:]
        elif r < 0.6:
            s = s[:i] + rng.choice(['"', "=", "\\", " ", "A", "\xa0", "/"]) + s[i:]
        elif r < 0.85:
            s = s[:i]
        else:
            s = s[:i] + s[i:i + 4] + s[i:]
    return s[:maxlen]


def cps(s):
    return [ord(c) for c in s]


def enc_res(kind, val):
    if kind != "ok":
        return {"k": kind, "out": []}
    pairs = list(val.items()) if isinstance(val, dict) else val
    return {"k": "ok", "out": [{"name": cps(n), "value": cps(v)} for n, v in pairs]}


def settable(text):
    return call(lambda: new_buildinfo(text))[0] == "val"


def record_env_history(rng, steps):
    """execute `steps` (list of (op, o, text)) on two live BuildInfo objects; -> trace"""
    objs = {"b1": new_buildinfo(None), "b2": new_buildinfo(None)}
    envs0 = {o: {"has": False, "txt": []} for o in objs}
    events = []
    last = {}
    for op, o, text in steps:
        if op == "Deser":
            kind, val = deser(text)
            events.append({"op": "Deser", "o": "-", "txt": cps(text), "res": enc_res(kind, val)})
        elif op == "Set":
            if call(lambda: objs[o].__setitem__("Environment", text))[0] != "val":
                continue                                 # Deb822 refuses the value (not what is checked here)
            events.append({"op": "Set", "o": o, "txt": cps(text), "res": {"k": "ok", "out": []}})
        elif op == "Del":
            if "Environment" not in objs[o]:
                continue
            del objs[o]["Environment"]
            events.append({"op": "Del", "o": o, "txt": [], "res": {"k": "ok", "out": []}})
        else:
            kind, val = getenv(objs[o])
            events.append({"op": "Get", "o": o, "txt": [], "res": enc_res(kind, val)})
            if kind == "ok":                             # keep the dict alive and mutate it
                last[o] = val
                val["LEAK_%d" % len(events)] = "leak"
                for k in list(val)[:2]:
                    val[k] = val[k] + "<mutated>"
    return {"ds": [[]], "envs0": envs0, "events": events}


def rand_env_steps(rng, n):
    steps = []
    for _ in range(n):
        r = rng.random()
        o = rng.choice(["b1", "b2"])
        if r < 0.30:
            steps.append(("Deser", "-", rand_env_text(rng)))
        elif r < 0.55:
            t = rand_env_text(rng)
            for _ in range(5):
                if settable(t):
                    break
                t = rand_env_text(rng)
            else:
                t = ' A="1"'
            steps.append(("Set", o, t))
            if rng.random() < 0.7:
                steps.append(("Get", o, None))
        elif r < 0.9:
            steps.append(("Get", o, None))
        else:
            steps.append(("Del", o, None))
    return steps


def env_controls(traces):
    out = []

    def first(pred):
        for i, t in enumerate(traces):
            for j, e in enumerate(t["events"]):
                if pred(e):
                    return i, j, copy.deepcopy(t)
        return None
    f = first(lambda e: e["op"] in ("Deser", "Get") and e["res"]["k"] == "ok" and e["res"]["out"] and e["res"]["out"][-1]["value"])
    if f:                                                # one character of a value differs
        i, j, t = f
        v = t["events"][j]["res"]["out"][-1]["value"]
        v[0] = 66 if v[0] != 66 else 67
        out.append((t, i, j))
    f = first(lambda e: e["op"] in ("Deser", "Get") and e["res"]["k"] == "ok" and len(e["res"]["out"]) >= 1)
    if f:                                                # the last pair was dropped silently
        i, j, t = f
        t["events"][j]["res"]["out"].pop()
        out.append((t, i, j))
    f = first(lambda e: e["op"] in ("Deser", "Get") and e["res"]["k"] == "ok" and len(e["res"]["out"]) >= 1)
    if f:                                                # a well-formed text was rejected
        i, j, t = f
        t["events"][j]["res"] = {"k": "ValueError", "out": []}
        out.append((t, i, j))
    f = first(lambda e: e["op"] == "Deser" and e["res"]["k"] == "ValueError")
    if f:                                                # a malformed text was accepted as nothing
        i, j, t = f
        t["events"][j]["res"] = {"k": "ok", "out": [{"name": [88], "value": []}]}
        out.append((t, i, j))
    f = first(lambda e: e["op"] == "Get" and e["res"]["k"] == "ok" and e["res"]["out"])
    if f:                                                # a stale / leaked entry in the dict
        i, j, t = f
        t["events"][j]["res"]["out"].append({"name": cps("LEAK_1"), "value": cps("leak")})
        out.append((t, i, j))
    return out


# ===================================================================== trace validation (both parts)

_VAL_COUNTER = [0]


def subsets_by_size(switches):
    out = [[]]
    for s in switches:
        out += [x + [s] for x in out]
    return sorted(out[1:], key=lambda x: (len(x), x))


def tlc_validate(ctx, module, traces, strip, ds, diag=False):
    """-> (accepted: tid -> list of defect sets, unspec: tid -> position, at: tid -> progress)"""
    with _LOCK:
        _VAL_COUNTER[0] += 1
        path = os.path.join(ctx.work, "x03-traces-%d.json" % _VAL_COUNTER[0])
    payload = []
    for t in traces:
        t = dict(t)
        t["ds"] = ds
        t["events"] = [strip(e) for e in t["events"]]
        payload.append(t)
    with open(path, "w") as f:
        json.dump(payload, f)
    r = ctx.tlc(module, module + ".cfg", workers=1, env={"TRACE_FILE": path, "TRACE_DIAG": "1" if diag else "0"},
                want_tags={"ACCEPTED", "UNSPEC", "AT"}, java_opts=jopts(ctx))
    if r.violated:
        raise core.MachineryError("trace module %s reported %s\n%s" % (module, r.violated, r.tail))
    acc, uns, at = {}, {}, {}
    for v in r.printed.get("ACCEPTED", []):
        acc.setdefault(v[0], []).append(sorted(v[1]))
    for v in r.printed.get("UNSPEC", []):
        uns.setdefault(v[0], set()).add(v[1])
    for v in r.printed.get("AT", []):
        at[v[0]] = max(v[1], at.get(v[0], 0))
    return acc, uns, at


def validate(ctx, module, traces, strip, controls, known, hits, describe, case_of, sticky=True, report=None):
    """phase 1: the statement + control traces; phase 2: rejected traces under the known-defect models.
    sticky: an unspecified event ends the judgement of its trace (merge histories) / only of itself"""
    nreal = len(traces)
    acc, uns, _ = tlc_validate(ctx, module, traces + [c[0] for c in controls], strip, [[]])
    effective = 0
    for ci, (_, orig, pos) in enumerate(controls):
        tid = nreal + ci + 1
        u = uns.get(orig + 1, set())
        judged = not any(x <= pos + 1 for x in u) if sticky else (pos + 1) not in u
        orig_ok = (orig + 1) in acc and judged
        if tid in acc and orig_ok:
            raise core.MachineryError("trace module %s accepted corrupted control trace %d: binding is vacuous" % (module, ci))
        if tid not in acc:
            effective += 1
    if controls and not effective and all(i in acc for i in range(1, nreal + 1)):
        raise core.MachineryError("trace module %s: no control trace was effective" % module)
    with _LOCK:
        ctx.extra["negative_controls_rejected"] = ctx.extra.get("negative_controls_rejected", 0) + effective
        ctx.extra["traces_ending_in_unspecified_zone"] = ctx.extra.get("traces_ending_in_unspecified_zone", 0) + len([t for t in uns if t <= nreal])
    rejected = [i for i in range(1, nreal + 1) if i not in acc]
    if not rejected:
        return 0
    sub = [traces[i - 1] for i in rejected]
    acc2, _, _ = tlc_validate(ctx, module, sub, strip, subsets_by_size(known))
    bad = []
    for j, i in enumerate(rejected):
        models = acc2.get(j + 1)
        if models:
            hits.hit(min(models, key=lambda m: (len(m), m)), describe(traces[i - 1], None))
        else:
            bad.append(i)
    if bad:
        _, _, at = tlc_validate(ctx, module, [traces[i - 1] for i in bad[:10]], strip, [[]], diag=True)
        for j, i in enumerate(bad[:10]):
            (report or ctx.violation)(case_of(i - 1), describe(traces[i - 1], at.get(j + 1, 0)))
    return len(bad)


def strip_env_event(e):
    return {k: e[k] for k in ("op", "o", "txt", "res")}


def describe_merge(metas):
    def f(trace, at):
        meta = metas[id(trace)]
        evs = trace["events"]
        if at is None:
            e = next((e for e in evs if e["op"] in ("M1", "M2") and e["res"]["k"] != "KeyError"), evs[-1])
            return "history on live objects, e.g. event %s key=%s -> %s" % (e["op"], e["c_key"], e.get("c_res"))
        e = evs[min(at, len(evs) - 1)]
        concs = {k: MConc.from_json(j) for k, j in meta["concs"].items()}
        before = trace["objs0"] if at == 0 else evs[at - 1]["after"]

        def show(o):
            if o == "-":
                return "-"
            return "%s(%s)=%s" % (o, meta["kinds"][o], short([(x["k"], (concs.get(x["k"]) or concs["K"]).value(x["v"])) for x in before[o]], 200))
        return ("history of %d events on live objects, not explained by the specification at event %d: %s key=%r self=%s a=%s b=%s -> %s %s; "
                "objects afterwards (abstract): %s" % (
                    len(evs), at + 1, e["op"], e["c_key"], show(e["s"]), show(e["a"]), show(e["b"]), e["res"]["k"], e.get("c_res"),
                    json.dumps(e["after"], sort_keys=True)[:600]))
    return f


def describe_env(trace, at):
    evs = trace["events"]

    def txt(c):
        return short("".join(chr(x) for x in c), 140)
    if at is None:
        e = next((e for e in evs if e["op"] in ("Deser", "Get")), evs[-1])
        at = evs.index(e)
    e = evs[min(at, len(evs) - 1)]
    cur = None
    if e["op"] == "Get":
        for p in evs[:at]:
            if p["o"] == e["o"] and p["op"] in ("Set", "Del"):
                cur = p["txt"] if p["op"] == "Set" else None
    res = e["res"]
    got = res["k"] if res["k"] != "ok" else short([("".join(map(chr, p["name"])), "".join(map(chr, p["value"]))) for p in res["out"]], 200)
    if e["op"] == "Deser":
        return "_env_deserialise(%s) -> %s, not what the state machine of the specification gives" % (txt(e["txt"]), got)
    return "event %d of a history on live BuildInfo objects: %s.get_environment() with Environment = %s -> %s, not what the specification gives for that text" % (
        at + 1, e["o"], "absent" if cur is None else txt(cur), got)


# ===================================================================== the run

NEG = [
    ("MergeFields", "MergeFields_neg.cfg", 'Defects = {}', 'Defects = {"keepends"}', {"AllWellFormed", "ResWellFormed"}),
    ("MergeFields", "MergeFields_neg.cfg", 'NoSort = FALSE', 'NoSort = TRUE', {"ImplRefines"}),
    ("BuildInfoEnv", "BuildInfoEnv_neg.cfg", 'Defects = {}', 'Defects = {"eof"}', {"EndsClean", "Lossless"}),
    ("BuildInfoEnv", "BuildInfoEnv_neg.cfg", 'Defects = {}', 'Defects = {"nobs"}', {"RoundTrip"}),
    ("BuildInfoEnv", "BuildInfoEnv_neg.cfg", 'Defects = {}', 'Defects = {"noname"}', {"NamesValid"}),
]


def model_checking(ctx, quick):
    """all TLC design runs of the tier, concurrently (<= 8 TLC workers in total)"""
    jobs = []
    for mod, cfg, old, new, invs in NEG:
        text = cfg_text(cfg).replace(old, new)
        assert text != cfg_text(cfg)
        jobs.append(("neg:%s:%s" % (mod, new), mod, text, 1, dict(count=False), invs))
    if quick:
        jobs += [("merge", "MergeFields", "MergeFields_quick.cfg", 1, dict(keep_raw=True, want_tags=set()), None),
                 ("laws", "MergeFields", "MergeFields_laws_quick.cfg", 1, {}, None),
                 ("env", "BuildInfoEnv", "BuildInfoEnv_quick.cfg", 1, dict(keep_raw=True, want_tags=set()), None)]
        width = 8
    else:
        jobs += [("merge", "MergeFields", "MergeFields_bnd.cfg", 2, dict(keep_raw=True, want_tags=set()), None),
                 ("laws", "MergeFields", "MergeFields_laws.cfg", 2, {}, None),
                 ("env", "BuildInfoEnv", "BuildInfoEnv_bnd.cfg", 4, dict(keep_raw=True, want_tags=set()), None)]
        jobs.sort(key=lambda j: -j[3])
        width = 3
    out = {}

    def one(job):
        name, mod, cfg, w, kw, invs = job
        r = ctx.tlc(mod, cfg, workers=w, java_opts=jopts(ctx), **kw)
        if invs is None:
            if r.violated:
                raise core.MachineryError("specification %s (%s) violates %s\n%s" % (mod, name, r.violated, r.tail))
        elif r.violated not in invs:
            raise core.MachineryError("negative control %s: expected TLC to report one of %s, got %r" % (name, sorted(invs), r.violated))
        return name, r
    with ThreadPoolExecutor(max_workers=width) as ex:
        for name, r in ex.map(one, jobs):
            out[name] = r
    ctx.extra["spec_negative_controls"] = {j[0][4:]: sorted(j[5]) for j in jobs if j[5]}
    return out


def run(ctx):
    import shutil
    quick = ctx.tier == "quick"
    hits = Hits()
    ctx.assumptions += [
        "small scope for the exhaustive parts: merge values over %d item ids, two (laws: three) live objects; Environment texts of <= %d characters over one representative per character class" % (2 if quick else 3, 7 if quick else 9),
        "concrete items / characters are sampled (seeded); large sizes only through the replay leg, justified by the set semantics of the union and by BuildInfoEnv!Scalable / Compositional",
        "unspecified, executed but not judged: ' '-list against ', '-list, values with internal duplicates, two one-item values (either delimiter); names outside [A-Za-z0-9_], items not separated by white space, backslash before other characters, exotic white space, duplicate names in a dict",
        "merge_fields on plain Deb822 / Packages / dict objects only (multivalued classes return lists for their structured fields)",
        "the item ORDER of a single-line merge is not part of the statement (the code sorts); recorded as implementation layer only",
        "trusted: TLC, the concretizer and the projection (a projected value is re-concretized and must reproduce the observed string exactly)",
    ]
    import time
    if os.environ.get("X03_DEBUG"):
        import faulthandler
        import signal
        faulthandler.register(signal.SIGUSR1, all_threads=True)
    t0 = time.time()
    res = model_checking(ctx, quick)
    timing = {"model_checking": round(time.time() - t0, 1)}
    ctx.extra["timing_s"] = timing
    ctx.extra["model_constants"] = {"MergeFields": "MergeFields_%s.cfg + MergeFields_laws%s.cfg" % ("quick" if quick else "bnd", "_quick" if quick else ""),
                                    "BuildInfoEnv": "BuildInfoEnv_%s.cfg" % ("quick" if quick else "bnd")}
    # ---- spec -> code
    t0 = time.time()
    nm, mk = replay_merge_cases(ctx, res["merge"].raw_path, hits, quick)
    timing["replay_merge"] = round(time.time() - t0, 1)
    t0 = time.time()
    if not ctx.violations and nm != res["merge"].distinct:
        raise core.MachineryError("TLC found %d merge states but %d CASE lines were read" % (res["merge"].distinct, nm))
    ne, ek, nbig = (0, {}, 0)
    if len(ctx.violations) < 5:
        ne, ek, nbig = replay_env_cases(ctx, res["env"].raw_path, hits, quick)
        if not ctx.violations and ne != res["env"].distinct:
            raise core.MachineryError("TLC found %d Environment states but %d CASE lines were read" % (res["env"].distinct, ne))
    timing["replay_env"] = round(time.time() - t0, 1)
    t0 = time.time()
    for k in ("merge", "env"):
        shutil.rmtree(os.path.dirname(res[k].raw_path), ignore_errors=True)
    ctx.traces += nm + ne
    ctx.extra["cases_replayed"] = {"merge": nm, "merge_by_outcome": mk, "environment": ne, "environment_by_outcome": ek,
                                   "environment_size_stressed": nbig}
    # ---- code -> spec
    if len(ctx.violations) < 5:
        recorded_executions(ctx, quick, hits)
    timing["recorded_executions"] = round(time.time() - t0, 1)
    ctx.extra["known_findings"] = {k["id"]: {"occurrences": hits.n.get(k["id"], 0), "example": (hits.example.get(k["id"]) or (0, None))[1]} for k in KNOWN}
    for k in KNOWN:
        if hits.n.get(k["id"]):
            print("KNOWN-FINDING: extra=X03 %s (%d occurrences; id=%s)" % (k["signature"], hits.n[k["id"]], k["id"]))


def recorded_executions(ctx, quick, hits):
    rng = ctx.rng
    # (a) histories of merges
    mtr, metas, mlist = [], {}, []
    n_hist = 70 if quick else 400
    for i in range(n_hist):
        size = None
        if i % (10 if quick else 6) == 5:
            size = rng.choice(TRACE_COUNTS)
        t, meta = record_merge_history(rng, size=size, nevents=rng.choice([4, 6, 8, 10]) if size is None else 5)
        if t is None:
            continue
        metas[id(t)] = meta
        mtr.append(t)
        mlist.append(meta)
    # (b) Environment
    etr = []
    for i in range(90 if quick else 600):
        etr.append(record_env_history(rng, rand_env_steps(rng, rng.choice([2, 4, 6, 9]))))
    etr = [t for t in etr if t["events"]]

    def merge_case_of(i):
        return {"kind": "merge_trace", "trace": {"events": [{k: e[k] for k in ("op", "s", "a", "b", "key", "v", "c_key")} for e in mtr[i]["events"]]}, "meta": mlist[i]}

    def env_case_of(i):
        return {"kind": "env_trace", "steps": env_steps_of(etr[i])}

    def job_merge():
        return validate(ctx, "TraceX03Merge", mtr, tlc_merge_event, merge_controls(mtr), MERGE_KNOWN, hits, describe_merge(metas), merge_case_of, sticky=True)

    def job_env():
        return validate(ctx, "TraceX03Env", etr, strip_env_event, env_controls(etr), ENV_KNOWN, hits, describe_env, env_case_of, sticky=False)
    with ThreadPoolExecutor(max_workers=2) as ex:
        fm, fe = ex.submit(job_merge), ex.submit(job_env)
        fm.result()
        fe.result()
    ctx.traces += len(mtr) + len(etr)
    ctx.extra["recorded"] = {"merge_histories": len(mtr), "merge_events": sum(len(t["events"]) for t in mtr),
                             "env_histories": len(etr), "env_events": sum(len(t["events"]) for t in etr)}
    for t in mtr[:2]:
        e = t["events"][0]
        ctx.sample("history: %s key=%s -> %s %s" % (e["op"], e["c_key"], e["res"]["k"], e.get("c_res")), limit=12)


def env_steps_of(trace):
    steps = []
    for e in trace["events"]:
        steps.append([e["op"], e["o"], "".join(chr(c) for c in e["txt"]) if e["op"] in ("Deser", "Set") else None])
    return steps


# ===================================================================== replay of a recorded violation

def replay(ctx, case):
    kind = case["kind"]
    hits = Hits()
    if kind == "merge_case":
        conc = MConc.from_json(case["conc"])
        res = merge_case(case["case"], conc, tuple(case["kinds"]), tuple(case["spells"]))
        return res[1] if res and res[0] == "violation" else None
    if kind == "env_case":
        conc = EConc(case["conc"])
        text = conc.text(case["case"]["inp"])
        other = tuple(case["other"]) if case.get("other") else None
        return env_probe_case(text, case["case"], conc, HashChoice(case.get("h", 0)), hits, other)
    if kind == "env_chain":
        return "chains are rebuilt from the seed: re-run the check" if case.get("text") is None else _replay_env_steps(ctx, [["Deser", "-", case["text"]]], hits)
    if kind == "env_trace":
        return _replay_env_steps(ctx, case["steps"], hits)
    if kind == "merge_trace":
        t = rerun_merge_history(case["trace"], case["meta"])
        metas = {id(t): case["meta"]}
        msgs = []
        validate(ctx, "TraceX03Merge", [t], tlc_merge_event, [], MERGE_KNOWN, hits, describe_merge(metas), lambda i: case,
                 report=lambda c, m: msgs.append(m))
        return ("history still not explained by the specification: " + msgs[0]) if msgs else None
    return "unknown case kind"


def _replay_env_steps(ctx, steps, hits):
    t = record_env_history(None, [tuple(s) for s in steps])
    msgs = []
    validate(ctx, "TraceX03Env", [t], strip_env_event, [], ENV_KNOWN, hits, describe_env, lambda i: {"kind": "env_trace", "steps": steps},
             sticky=False, report=lambda c, m: msgs.append(m))
    return ("execution still not explained by the specification: " + msgs[0]) if msgs else None
