"""X01 (extra) -- the PackageFile reader of debian_support yields exactly the paragraphs of the file,
or a ParseError carrying the number of the first line that is not allowed where it stands.

spec:      spec/PackageFile.tla       (1) character level: Classify(runs, nl) = what re_field /
                                      re_continuation / the blank test decide for a line given as runs
                                      [class, length] over L D H(-_) C(:) S(blank tab) P(.) X(other):
                                      class (Blank Field Cont Dot Junk Unspec), length of the name, span
                                      of the stripped text;  (2) line level: the reader automaton, one
                                      branch per branch of the loops of __iter__ (Failed BlankNoRecord
                                      BlankEndsParagraph FieldFirst FieldNext ContAppend DotAppend
                                      ContOrphan JunkLine, Finish), the grammar WF and its inverse Render
           spec/PackageFileCalls.tla  readers alive at the same time, next() call by call, lists handed
                                      to the caller and mutated by him (heap / its); ReturnedFresh,
                                      ErrLocal, StopAtEnd, FreshIdentity, NoSpontaneousChange
           spec/TracePackageFile.tla  CSpec: TLC classifies the run templates the harness builds its
                                      lines from (class and token spans come from the specification);
                                      TSpec: recorded executions, prefix by prefix, against the automaton
model checking:
           lines: EVERY line of <= 5 characters (thorough: 6) over the seven classes,
               with and without newline: EShape (declarative reading of the result character by
               character), ERunAgrees (merging adjacent runs changes nothing: the classification only
               adds lengths), EPad (blanks appended / inserted after the colon / before a continuation).
           files: EVERY file of <= 5 lines (thorough: 6) over {Field with text, Field without, Cont, Dot,
               Blank, Junk}, one action per branch: BTotality (guards total, exclusive, = BranchOf),
               BRunAgrees, BShape, BAccepts (no error <=> grammar), BRoundTrip (Render(Parse(D)) = D),
               BFinalBlank, BErrorLine (number = first line where the grammar fails, kind by its class,
               output = paragraphs completed before, later lines irrelevant).
           big: uniform files of 1000 paragraphs, 257 fields, 1000 continuation lines, errors at the last
               lines (thorough: 32769 paragraphs / 32767 continuation lines, an error after line 65536).
           calls: 3 files (two identical paragraphs; 'record' error after a yielded paragraph; 'field'
               error inside the first paragraph), <= 2 readers, <= 4 lists: closed LTS.
           Spec-level negative controls (each must make TLC report the named invariant):
               TrimEnd=FALSE -> EShape, LenientBlank=TRUE -> BAccepts, FlushOnError=TRUE -> BErrorLine,
               SharedPkg=TRUE -> NoSpontaneousChange, SharedLineno=TRUE -> ErrLocal.
binding:   every concrete line is built from a RUN TEMPLATE; the library of templates (a few hundred per
           run, random shapes plus one per boundary length of notes/SIZE_STRESS.md) is classified by TLC
           (CSpec) and the harness cuts names / texts out of the concrete line at the spans TLC returned.
           (a1) every CASE of `lines` (class string, nl, TLC's class and spans) is concretized character by
                character and read by the real code as second line after `Zz: v` (and before `Yy: w`) and as
                first line of a file; expected outcome = the CTX table printed by TLC for that class.
           (a2) every CASE of `files` / `big` (abstract lines + TLC's paragraphs and error) is concretized
                from the library and read through the file-object forms (BytesIO, StringIO, path opened by
                the reader itself, binary / text / unbuffered file handles, BufferedReader with a 1..16 byte
                buffer, TextIOWrapper with a tiny chunk size, objects whose readline() returns bytes, str or
                both alternately, latin-1 bytes with encoding='latin-1'), twice (second time another form)
                with the caller ruining every list of the first run in between, the lists of the previous
                case being kept alive and re-verified afterwards; with and without final newline / final
                blank line where TLC proved that irrelevant (BFinalBlank).
           (b)  random files (well-formed, and with double / leading blank lines, junk lines, orphan
                continuation lines) are read by the real code prefix by prefix (a new reader per prefix)
                and TLC (TSpec) must explain every observation; hand-written wrong (file, outcome)
                pairs must be rejected.
           (c)  the LTS of PackageFileCalls is replayed (scripted and random behaviours): several readers
                alive over different kinds of file object, advanced alternately, every list handed out so
                far re-verified after every call, the caller clearing lists in between.
           size stress in all legs: names of 2..1025 characters, texts / lines of 1..8193 and 65535..65537
                characters, padding runs up to 255, 0..257 / 1000+ fields, continuation lines, paragraphs,
                error line numbers up to 65539 -- the templates carry the lengths (TLC classified them
                with those lengths), counts come from `big` and from the recorder's large files (sparse
                prefixes); identical lines and paragraphs (canonical concretization, file 1 of `calls`).
verdict observables: the sequence of yielded paragraphs (each a list of (str, str) tuples; name; value split
           at newlines), ParseError or not, its .lineno / .msg ('expected package record' for a blank line,
           'expected package field' otherwise) / .filename (the name given to the constructor) / print_out()
           text, no other exception type; a new list object per paragraph; lists not touched by the caller
           never change.
characters: L = [A-Za-z], D = [0-9], H = '-' '_'; X = printable ASCII punctuation, latin-1 letters, and the hazards of
           notes/SIZE_STRESS.md part 2 (combining marks, ANGSTROM / OHM / KELVIN SIGN, ligature, full-width A, Hangul
           jamo, dotless / dotted i, long s, Deseret, U+FEFF, ZWJ / ZWNJ / ZWSP, soft hyphen, bidi marks, U+1F600,
           U+10FFFF, Arabic-Indic digits): none of them is a name character, all of them are kept code point by
           code point (results are compared with slices of the input, never normalised); NBSP, U+2003, U+3000,
           NEL, U+2028 strictly inside a value (ordinary text there).
unspecified (executed, only an exception other than ParseError / UnicodeDecodeError is recorded, as drift):
           one-character names; a white-space-only last line without newline; " ." followed by blanks; white
           space other than blank / tab (CR VT FF FS GS RS US NEL NBSP U+2000..) at the beginning or end of a
           line or of a value (the regular expressions strip \\s there); bytes that are not valid in the reader's
           encoding; iterating one reader twice.
"""
import io
import json
import os
import random
import re
from concurrent.futures import ThreadPoolExecutor

import core
from lts import LTS, skey

MANIFEST = None          # extras are not registered as property checks

EXTRA = dict(
    title="PackageFile yields exactly the paragraphs of a package file, or ParseError at the first bad line",
    statement=(
        "For every file made of paragraphs of field lines `Name:value` (Name = a letter followed by at least one "
        "letter, digit, '-' or '_', ending at the first colon), each followed by zero or more continuation lines "
        "(starting with a blank or tab and containing another character), the paragraphs separated by exactly one "
        "blank (blank/tab-only) line, iterating debian_support.PackageFile yields exactly the paragraphs in order, "
        "each as a new list of (name, value) str pairs in file order, value being the text after the colon and every "
        "continuation line, each stripped of blanks and tabs at both ends and joined by newlines, a continuation "
        "line ' .' standing for an empty line. "
        "The first line that is not allowed where it stands (neither field, continuation nor blank; a continuation "
        "line with no field before it in its paragraph; a blank line that does not end a paragraph) makes the "
        "iteration raise ParseError with the file name given to the constructor, the 1-based number of that line and "
        "the message 'expected package record' (blank line) or 'expected package field', after exactly the paragraphs "
        "completed by a blank line before it have been yielded. "
        "The outcome depends only on the text: not on str vs. bytes lines (decoded with the reader's encoding), on the "
        "kind or buffering of the file object, on a final blank line or final newline, on any length or count, on "
        "other readers alive or advanced in between, or on what the caller does to lists yielded earlier. "
        "Unspecified: one-character names, a white-space-only last line without newline, ' .' followed by blanks, "
        "white space other than blank/tab at the beginning or end of a line or value (inside a value it is ordinary text), "
        "undecodable bytes, re-iterating a reader."),
    technique=(
        "TLA+ specs PackageFile (character-run classifier for re_field / re_continuation / the blank test; reader "
        "automaton with one action per branch of __iter__; grammar WF and inverse Render), PackageFileCalls (live "
        "readers, lists handed to the caller) and TracePackageFile, model-checked by TLC: every line of <= 5-6 "
        "characters over 7 classes, every file of <= 5-6 lines over 6 line classes, large uniform files, the closed "
        "LTS of calls; five spec-level negative controls. Binding: all TLC cases replayed into the real reader through "
        "twelve kinds of file object with caller-side mutation and kept-alive results; the run templates every "
        "concrete line is built from are classified by TLC (names/texts cut at TLC's spans, lengths up to 65537); "
        "prefix-closed executions of random files validated by TLC with corrupted controls; calls LTS replayed."),
)

# Findings: real divergences of /repo from the statement on in-domain input that are reported to the lead and
# kept quiet here.  Each entry {id, signature, match}: match(case) -> True turns exactly that divergence into
# a KNOWN-FINDING line; every other divergence stays a violation.  (None found on the pinned tree.)
KNOWN = []

MSG = {"record": "expected package record", "field": "expected package field"}
KIND = {v: k for k, v in MSG.items()}
NEG_LINES = [("TrimEnd", "FALSE", "EShape")]
NEG_FILES = [("LenientBlank", "TRUE", "BAccepts"), ("FlushOnError", "TRUE", "BErrorLine")]
NEG_CALLS = [("SharedPkg", "TRUE", "PROPERTY NoSpontaneousChange", "NoSpontaneousChange"),
             ("SharedLineno", "TRUE", "INVARIANT ErrLocal", "ErrLocal")]

# ------------------------------------------------------------------ characters
_LET = "ABCDEFGHIJKLMNOPQRSTUVWXYZabcdefghijklmnopqrstuvwxyz"
_XA = list("!\"#$%&'()*+,/;<=>?@[\\]^`{|}~")
_XL1 = list("\u00e9\u00e0\u00df\u00e5\u00b7\u00c5\u00d7\u00bf\u00ad\u00aa")     # latin-1 (utf-8 bytes contain 0x85 / 0xa0); soft hyphen
# notes/SIZE_STRESS.md part 2: not NFC/NFKC-stable (combining marks, ANGSTROM / OHM / KELVIN SIGN, compatibility
# ideograph, ligature, full-width A, Hangul jamo), case-mapping hazards (dotted / dotless i, long s, final sigma,
# Deseret), U+FEFF, zero-width (non-)joiner / space, bidi marks, non-BMP up to U+10FFFF, non-ASCII digits
_XU = (list("\u0105\u4e2d\u03a9\u0416\u3042\u2026\u0663\uff21")
       + ["\u0301", "\u0308", "\u212b", "\u2126", "\u212a", "\uf9d0", "\ufb01", "\u1100", "\u1161", "\u0130", "\u0131",
          "\u017f", "\u03c2", "\U00010400", "\ufeff", "\u200d", "\u200c", "\u200b", "\u200e", "\u200f", "\U0001f600",
          "\U0010ffff", "\U0001d518"])
POOL = {"L": list(_LET), "D": list("0123456789"), "H": list("-_"), "C": [":"], "S": [" ", " ", "\t"], "P": ["."],
        "X": {"ascii": _XA, "latin1": _XA + _XL1 * 2, "uni": _XA + _XL1 + _XU * 2}}
# white space that is not the format's (\s of the regular expressions matches it): ordinary text INSIDE a value,
# unspecified at its ends -- only ever placed strictly inside a run of X characters
INNER_WS = {"ascii": [], "latin1": ["\u00a0", "\u0085"], "uni": ["\u00a0", "\u2003", "\u3000", "\u0085", "\u2028"]}
CANON = {"L": "a", "D": "1", "H": "-", "C": ":", "S": " ", "P": ".", "X": "+"}
for _m, _p in POOL["X"].items():
    for _ch in _p:
        assert len(_ch) == 1 and not _ch.isspace() and _ch not in _LET and _ch not in "0123456789-_:.", repr(_ch)
for _m, _p in INNER_WS.items():
    for _ch in _p:
        assert _ch.isspace() and _ch not in " \t\n"

NAME_LEN = [33, 32, 31, 64, 65, 129, 257, 300, 63, 128, 256, 17, 16, 73, 81, 127, 255, 15, 9, 72, 1025, 2, 7, 8, 1024, 1023]
LINE_LEN = [4096, 8193, 1025, 257, 129, 4097, 8192, 65, 1024, 4095, 80, 33, 8191, 1023, 72,
            2, 7, 16, 17, 31, 32, 63, 64, 71, 73, 79, 81, 127, 128, 255, 256, 1, 8, 9, 15]
HUGE_LEN = [65536, 65537, 65535]
PAD_LEN = [2, 7, 8, 9, 16, 33, 64, 255]
COUNTS = [0, 1, 2, 3, 9, 10, 11, 16, 17, 31, 32, 33, 99, 100, 101]


def chars(rng, c, n, mode):
    """n characters of class c (rng None: canonical)"""
    if rng is None:
        return CANON[c] * n
    pool = POOL[c] if c != "X" else POOL["X"][mode]
    if len(pool) == 1:
        return pool[0] * n
    if n <= 200:
        s = [rng.choice(pool) for _ in range(n)]
    else:
        m = rng.randint(23, 61)
        s = list(("".join(rng.choice(pool) for _ in range(m)) * (n // m + 1))[:n])
    if c == "X" and n >= 3 and INNER_WS[mode] and rng.random() < 0.3:
        for _ in range(1 if n < 50 else 5):
            s[rng.randrange(1, n - 1)] = rng.choice(INNER_WS[mode])
    return "".join(s)


def conc(rs, rng, mode):
    return "".join(chars(rng, c, n, mode) for c, n in rs)


# ------------------------------------------------------------------ run templates
def split_total(rng, total, parts):
    parts = max(1, min(parts, total))
    cuts = sorted(rng.sample(range(1, total), parts - 1)) if parts > 1 else []
    return [b - a for a, b in zip([0] + cuts, cuts + [total])]


def name_runs(rng, n):
    if n <= 0:
        return []
    rs = [("L", 1)]
    if n > 1:
        for k in split_total(rng, n - 1, rng.choice([1, 1, 2, 3])):
            rs.append((rng.choice("LLLDH"), k))
    return rs


def text_runs(rng, total):
    """runs of a stripped text of `total` characters: first and last run not white"""
    ks = split_total(rng, total, rng.choice([1, 1, 2, 3, 5]))
    rs = []
    for i, k in enumerate(ks):
        inner = 0 < i < len(ks) - 1
        # (interior blank runs stay short: re_field / re_continuation backtrack quadratically in them --
        #  64 KiB of blanks inside a value take the real reader ~17 s; a cost, not an outcome)
        if inner and k <= 255 and rs[-1][0] != "S" and rng.random() < 0.4:
            rs.append(("S", k))
        else:
            rs.append((rng.choice("XXXLLDHCP"), k))
    return rs


def pad(rng, p=0.5, big=None):
    if big:
        return [("S", big)]
    if rng.random() >= p:
        return []
    return [("S", rng.choice([1, 1, 1, 2, 3]))]


def t_field(rng, nlen=None, tlen=None, empty=False, padl=None, padr=None):
    nlen = nlen or rng.choice([2, 2, 3, 4, 5, 6, 7, 8, 10, 12, 14])
    rs = name_runs(rng, nlen) + [("C", 1)]
    rs += pad(rng, 0.8, padl)
    if not empty:
        rs += text_runs(rng, tlen or rng.choice([1, 1, 2, 3, 4, 5, 6, 8, 12, 20, 40]))
    rs += pad(rng, 0.3, padr)
    return rs


def t_cont(rng, tlen=None, padl=None, padr=None):
    return (pad(rng, 1.0, padl) + text_runs(rng, tlen or rng.choice([1, 2, 2, 3, 4, 5, 6, 8, 12, 20, 40]))
            + pad(rng, 0.3, padr))


def t_junk(rng):
    k = rng.randrange(14)
    tail = text_runs(rng, rng.randint(1, 6))
    if k == 0:
        return [("X", rng.randint(1, 4))] + tail                            # "#comment", "+x"
    if k == 1:
        return [("D", 1)] + name_runs(rng, rng.randint(1, 5)) + [("C", 1), ("S", 1)] + tail      # "9ab: c"
    if k == 2:
        return name_runs(rng, rng.randint(1, 9))                            # "Package" (no colon)
    if k == 3:
        return name_runs(rng, rng.randint(2, 6)) + [("S", 1), ("C", 1)] + pad(rng) + tail        # "Ab : c"
    if k == 4:
        return [("H", 1)] + name_runs(rng, rng.randint(1, 5)) + [("C", 1)] + tail                # "-ab:c"
    if k == 5:
        return [("P", 1)] + pad(rng, 0.3)                                   # "." at the margin
    if k == 6:
        return [("C", rng.randint(1, 2))] + pad(rng) + tail                 # ": x"
    if k == 7:
        return name_runs(rng, rng.randint(1, 5)) + [("X", 1)] + name_runs(rng, rng.randint(1, 3)) + [("C", 1), ("S", 1)] + tail
    if k == 8:
        return name_runs(rng, rng.randint(2, 5)) + [("P", 1), ("C", 1)] + tail                   # "ab.:"
    if k == 9:
        return [("X", 1)] + name_runs(rng, rng.randint(1, 5)) + [("C", 1), ("S", 1)] + tail      # non-ASCII letter first
    if k == 10:
        return name_runs(rng, rng.randint(2, 5)) + [("S", rng.randint(1, 3))] + tail             # "ab cd" / "ab c:"
    if k == 11:
        return name_runs(rng, rng.choice([31, 32, 33, 64])) + [("X", 1), ("C", 1)] + tail
    if k == 12:
        return [("D", rng.randint(1, 4))] + pad(rng, 0.3)
    return name_runs(rng, rng.randint(2, 4)) + [("S", 1)] + name_runs(rng, 2) + [("C", 1), ("S", 1)] + tail


def t_unspec(rng):
    k = rng.randrange(3)
    if k == 0:
        return [("L", 1), ("C", 1)] + pad(rng) + text_runs(rng, rng.randint(1, 4))               # "A: b"
    if k == 1:
        return [("S", rng.randint(1, 3)), ("P", 1), ("S", rng.randint(1, 2))]                    # " . "
    return [("L", 1), ("C", 1)]


def build_library(rng, quick):
    """run templates: random shapes + one per boundary length (whatever the seed)"""
    tpls = []

    def add(rs, big=False):
        tpls.append({"rs": [(c, n) for c, n in rs if n > 0], "big": big})

    n = 140 if quick else 500
    for _ in range(n):
        add(t_field(rng))
    for _ in range(n // 3):
        add(t_field(rng, empty=True))
    for _ in range(n // 2):
        add(t_cont(rng))
    for a in (1, 1, 2, 3, 5):
        add([("S", a), ("P", 1)])
    add([])
    for a in (1, 1, 2, 3, 8):
        add([("S", a)])
    for _ in range(n // 2):
        add(t_junk(rng))
    for _ in range(12):
        add(t_unspec(rng))
    # ---- size stress
    for k in NAME_LEN:
        add(t_field(rng, nlen=k, empty=(k % 5 == 0)), big=True)
    for k in LINE_LEN:
        add(t_field(rng, tlen=k), big=True)
        add(t_cont(rng, tlen=k), big=True)
    for k in HUGE_LEN:
        add(t_field(rng, tlen=k), big=True)
        add(t_cont(rng, tlen=k), big=True)
    for k in PAD_LEN:
        add(t_field(rng, padl=k, padr=PAD_LEN[(k + 3) % len(PAD_LEN)]), big=True)
        add(t_field(rng, empty=True, padl=k), big=True)
        add(t_cont(rng, padl=k, padr=k), big=True)
        add([("S", k), ("P", 1)], big=True)
        add([("S", k)], big=True)
    add(name_runs(rng, 300), big=True)                                      # long junk
    add([("X", 1)] + text_runs(rng, 8192), big=True)
    return tpls


def classify_library(ctx, tpls):
    """TLC decides the class and the token spans of every template (terminated / not terminated)"""
    items = []
    for t in tpls:
        rs = [{"c": c, "n": n} for c, n in t["rs"]]
        items.append({"rs": rs, "nl": True})
        items.append({"rs": rs, "nl": False})
    size = 200
    chunks = [items[i:i + size] for i in range(0, len(items), size)]
    path = os.path.join(ctx.work, "classify.json")
    with open(path, "w") as f:
        json.dump(chunks, f)
    r = ctx.tlc("TracePackageFile", "TracePackageFile_cls.cfg", workers=2, env={"TRACE_FILE": path}, want_tags={"CLS"})
    if r.violated:
        raise core.MachineryError("classification run reported %s" % r.violated)
    got = {}
    for v in r.printed.get("CLS", []):
        got[v[0]] = json.loads(v[1]) if isinstance(v[1], str) else v[1]
    if sorted(got) != list(range(1, len(chunks) + 1)):
        raise core.MachineryError("classification: %d of %d chunks answered" % (len(got), len(chunks)))
    flat = [x for i in range(1, len(chunks) + 1) for x in got[i]]
    if len(flat) != len(items):
        raise core.MachineryError("classification: %d answers for %d lines" % (len(flat), len(items)))
    lib = {}
    for i, t in enumerate(tpls):
        t["r"] = {True: flat[2 * i], False: flat[2 * i + 1]}
        r1 = t["r"][True]
        cls = r1["c"]
        if cls == "Field" and r1["lo"] == r1["hi"]:
            cls = "FieldE"
        t["cls"] = cls
        lib.setdefault(cls + ("+" if t["big"] else ""), []).append(t)
        if cls not in ("Blank", "Unspec") and t["r"][False] != r1:
            raise core.MachineryError("classification of %r depends on the final newline" % (t["rs"],))
    for need in ("Field", "FieldE", "Cont", "Dot", "Blank", "Junk", "Unspec", "Field+", "FieldE+", "Cont+", "Dot+", "Blank+", "Junk+"):
        if not lib.get(need):
            raise core.MachineryError("template library has no %s template" % need)
    return lib


class Picker:
    """draws templates: ordinary ones at random, the size-stressed ones round-robin every `every`-th draw"""

    def __init__(self, lib, every=0, offset=0, huge=4):
        self.lib = lib
        self.every = every
        self.n = offset
        self.pos = {}
        self.huge = huge
        self.used = set()

    def pick(self, rng, cls):
        self.n += 1
        if self.every and self.n % self.every == 0 and self.lib.get(cls + "+"):
            pool = self.lib[cls + "+"]
            for _ in range(len(pool)):
                i = self.pos.get(cls, 0)
                self.pos[cls] = i + 1
                t = pool[i % len(pool)]
                m = max((n for _, n in t["rs"]), default=0)
                if m >= 60000:
                    if self.huge <= 0:
                        continue
                    self.huge -= 1
                self.used.add(m)
                return t
        return rng.choice(self.lib[cls])


def tokens(t, body, nl):
    """(class, name, stripped text) of a concrete line, cut at the spans TLC returned for its template"""
    r = t["r"][nl]
    c = r["c"]
    if c == "Field":
        return c, body[:r["nlen"]], body[r["lo"]:r["hi"]]
    if c == "Cont":
        return c, "", body[r["lo"]:r["hi"]]
    return c, "", ""


class Conc:
    """concretization of one abstract file: identical abstract lines get identical concrete lines"""

    def __init__(self, rng, picker, mode="uni", canonical=False):
        self.rng, self.picker, self.mode, self.canonical = rng, picker, mode, canonical
        self.cache = {}
        self.fmap = {}       # (k, t0) of an abstract field line -> (concrete name, concrete first text)
        self.cmap = {}       # t of an abstract continuation line -> concrete text

    def line(self, ab, nl=True):
        key = (ab["c"], ab["k"], ab["t"])
        if key in self.cache:
            return self.cache[key]
        c = ab["c"]
        cls = "FieldE" if c == "Field" and ab["t"] in (0, "") else c
        if self.canonical:
            t = self.picker.lib[cls][0]
            body = conc(t["rs"], None, self.mode)
        else:
            t = self.picker.pick(self.rng, cls)
            body = conc(t["rs"], self.rng, self.mode)
        got, k, tx = tokens(t, body, nl if cls != "Blank" else True)
        if got != c:
            raise core.MachineryError("template of class %s classified %s" % (c, got))
        if c == "Field":
            self.fmap[(ab["k"], ab["t"])] = (k, tx)
        elif c == "Cont":
            self.cmap[ab["t"]] = tx
        if c in ("Field", "Cont"):            # blank / dot / junk lines need not look alike
            self.cache[key] = body
        return body

    def expect(self, exp):
        out = []
        for p in exp["out"]:
            pp = []
            for f in p:
                name, t0 = self.fmap[(f["k"], f["v"][0])]
                pp.append({"k": name, "v": [t0] + ["" if x in (0, "") else self.cmap[x] for x in f["v"][1:]]})
            out.append(pp)
        return {"out": out, "err": dict(exp["err"])}


# ------------------------------------------------------------------ the real reader
FORMS = ("bio", "sio", "lines_b", "lines_s", "lines_mix", "buf", "tw", "latin1", "path", "fh_rb", "fh_rt", "raw")
CHEAP = FORMS[:8]
BIGFORMS = ("bio", "sio", "lines_b", "lines_mix", "path", "fh_rb", "fh_rt", "latin1", "lines_s")
NAMES = ["Packages", "Index", "/var/lib/apt/lists/x_Packages", "a b.txt", "Søurces", "", "x" * 300, "dists/sid/main/Sources.diff/Index"]


def split_lines(text):
    return re.findall(r"[^\n]*\n|[^\n]+", text)


class LineSource:
    """a file object that only has readline(): `kind` b = bytes, s = str, m = alternately"""

    def __init__(self, text, kind):
        self.items = []
        for i, ln in enumerate(split_lines(text)):
            as_bytes = kind == "b" or (kind == "m" and i % 2 == 0)
            self.items.append(ln.encode("utf-8") if as_bytes else ln)
        self.i = 0
        self.kind = kind

    def readline(self, size=-1):
        if self.i < len(self.items):
            ln = self.items[self.i]
            if size is not None and 0 <= size < len(ln):      # like a real file: at most `size`, the rest next time
                self.items[self.i] = ln[size:]
                return ln[:size]
            self.i += 1
            return ln
        self.i += 1
        return b"" if self.kind == "b" or (self.kind == "m" and self.i % 2) else ""


_counter = [0]


def open_source(form, text, work, rng=None):
    """-> (file object or None, name, encoding or None, closer)"""
    rnd = rng or random
    name = rnd.choice(NAMES)
    if form == "latin1":
        try:
            return io.BytesIO(text.encode("latin-1")), name, "latin-1", None
        except UnicodeEncodeError:
            form = "bio"
    data = text.encode("utf-8")
    small = len(data) <= 4096          # byte-at-a-time file objects only for small files
    if form == "raw" and not small:
        form = "fh_rb"
    if form == "bio":
        return io.BytesIO(data), name, None, None
    if form == "sio":
        return io.StringIO(text), name, "utf-8", None
    if form in ("lines_b", "lines_s", "lines_mix"):
        return LineSource(text, form[6]), name, None, None
    if form == "buf":
        return io.BufferedReader(io.BytesIO(data), buffer_size=rnd.choice([1, 2, 7, 16] if small else [512, 8192])), name, None, None
    if form == "tw":
        tw = io.TextIOWrapper(io.BytesIO(data), encoding="utf-8", newline="\n")
        tw._CHUNK_SIZE = rnd.choice([1, 2, 3, 8] if small else [64, 8192])
        return tw, name, None, None
    _counter[0] += 1
    path = os.path.join(work, "pf-%d-%d" % (os.getpid(), _counter[0]))
    with open(path, "wb") as f:
        f.write(data)
    if form == "path":
        return None, path, None, lambda: os.unlink(path)
    if form == "fh_rb":
        fh = open(path, "rb")
    elif form == "fh_rt":
        fh = open(path, "rt", encoding="utf-8", newline="\n")
    else:
        fh = open(path, "rb", buffering=0)
    return fh, name, None, lambda: (fh.close(), os.unlink(path))


def new_reader(form, text, work, rng=None):
    from debian.debian_support import PackageFile
    fobj, name, enc, closer = open_source(form, text, work, rng)
    if fobj is None:
        pf = PackageFile(name)
        inner = closer
        closer = lambda: (pf.file.close(), inner())
    elif enc:
        pf = PackageFile(name, fobj, encoding=enc)
    else:
        pf = PackageFile(name, fobj)
    return pf, name, closer


def describe_error(e, name):
    """projection of a ParseError: {kind, lineno} + everything else that is wrong with it"""
    bad = []
    msg = getattr(e, "msg", None)
    lineno = getattr(e, "lineno", None)
    if type(lineno) is not int:
        bad.append("lineno is %r" % (lineno,))
        lineno = -1
    if getattr(e, "filename", None) != name:
        bad.append("filename is %r, the reader was given %r" % (getattr(e, "filename", None), name))
    if str(e) != msg:
        bad.append("str() is %r, msg is %r" % (str(e), msg))
    buf = io.StringIO()
    try:
        e.print_out(buf)
        want = "%s:%d: %s\n" % (name, lineno, msg)
        if buf.getvalue() != want:
            bad.append("print_out wrote %r, expected %r" % (buf.getvalue()[:200], want[:200]))
    except Exception as x:      # noqa: BLE001 - observation
        bad.append("print_out raised %r" % (x,))
    return {"kind": KIND.get(msg, "msg=%r" % (msg,)), "lineno": lineno}, bad


def step(it, name):
    """one next(): ("para", list) | ("error", {kind, lineno}, [complaints]) | ("stop",) | ("exc", text)"""
    from debian.debian_support import ParseError
    try:
        return ("para", next(it))
    except StopIteration:
        return ("stop",)
    except ParseError as e:
        return ("error",) + describe_error(e, name)
    except Exception as e:      # noqa: BLE001 - observation about the code under test
        return ("exc", "%s: %s" % (type(e).__name__, str(e)[:200]))


def proj_para(p):
    """a yielded paragraph -> [{k, v}] (or a complaint string)"""
    if type(p) is not list:
        return "paragraph is a %s, not a list" % type(p).__name__
    out = []
    for it in p:
        if type(it) is not tuple or len(it) != 2 or type(it[0]) is not str or type(it[1]) is not str:
            return "paragraph item %r is not a (str, str) tuple" % (it,)
        out.append({"k": it[0], "v": it[1].split("\n")})
    return out


def read_all(form, text, work, rng=None, keep=None):
    """the complete outcome: {"out": [...], "err": {kind, lineno}} + complaints; keep receives the list objects"""
    bad = []
    try:
        pf, name, closer = new_reader(form, text, work, rng)
    except Exception as e:      # noqa: BLE001
        return {"out": [], "err": {"kind": "exc", "lineno": 0}}, ["constructor raised %s: %s" % (type(e).__name__, e)]
    out, err = [], {"kind": "none", "lineno": 0}
    ids = set(map(id, keep or []))
    try:
        try:
            it = iter(pf)
        except Exception as e:      # noqa: BLE001
            return {"out": [], "err": {"kind": "exc", "lineno": 0}}, ["iter() raised %s: %s" % (type(e).__name__, e)]
        while True:
            ev = step(it, name)
            if ev[0] == "para":
                if keep is not None:
                    if id(ev[1]) in ids:         # (the earlier lists are alive: ids are not re-used)
                        bad.append("paragraph %d is the same list object as an earlier paragraph" % (len(out) + 1))
                    ids.add(id(ev[1]))
                    keep.append(ev[1])
                pj = proj_para(ev[1])
                if isinstance(pj, str):
                    bad.append(pj)
                    pj = []
                out.append(pj)
                continue
            if ev[0] == "error":
                err = ev[1]
                bad += ev[2]
            elif ev[0] == "exc":
                err = {"kind": "exc", "lineno": 0}
                bad.append("unexpected exception " + ev[1])
            break
    finally:
        if closer:
            try:
                closer()
            except Exception:      # noqa: BLE001
                pass
    return {"out": out, "err": err}, bad


def brief(x, n=700):
    s = json.dumps(x, ensure_ascii=False, separators=(",", ":"))
    return s if len(s) <= n else s[:n // 2] + " ... " + s[-n // 2:]


def diff(got, want):
    if got["err"] != want["err"]:
        return "error %s, the specification says %s" % (brief(got["err"]), brief(want["err"]))
    if len(got["out"]) != len(want["out"]):
        return "%d paragraphs yielded, the specification says %d: %s vs %s" % (len(got["out"]), len(want["out"]),
                                                                                brief(got["out"]), brief(want["out"]))
    for i, (a, b) in enumerate(zip(got["out"], want["out"])):
        if a != b:
            return "paragraph %d is %s, the specification says %s" % (i + 1, brief(a), brief(b))
    return None


def check_text(text, form, want, work, rng=None, keep=None):
    got, bad = read_all(form, text, work, rng, keep)
    msg = diff(got, want)
    if msg is None and bad:
        msg = "; ".join(bad[:3])
    return msg


def ruin(objs):
    for o in objs:
        if type(o) is list:
            del o[:]
            o.append(("Zz-mut", "poison"))


RUINED = [{"k": "Zz-mut", "v": ["poison"]}]


# ------------------------------------------------------------------ (a1) every short line
def replay_lines(ctx, cases, table, quick, stats):
    rng = random.Random("%s-lines" % ctx.seed)
    ctxmap = {(e["c"], e["e"], e["nl"]): e for e in table}
    nviol = 0
    for idx, (cs, nl, c, nlen, lo, hi) in enumerate(cases):
        mode = ("ascii", "latin1", "uni")[idx % 3]
        body = "".join(chars(rng, x, 1, mode) for x in cs)
        line = body + ("\n" if nl else "")
        stats["lines:" + c] = stats.get("lines:" + c, 0) + 1
        form = CHEAP[idx % len(CHEAP)] if idx % 97 else FORMS[8 + (idx // 97) % 4]
        files = {"after": "Zz: v\n" + line + ("Yy: w\n" if nl else ""), "first": line + ("Yy: w\n" if nl else "")}
        if c == "Unspec":
            for where, text in files.items():
                got, bad = read_all(form, text, ctx.work, rng)
                if got["err"]["kind"] == "exc":
                    ctx.drift("UNSPECIFIED line %r: %s" % (line, "; ".join(bad)[:200]))
            continue
        K, T = body[:nlen], body[lo:hi]
        e = ctxmap[(c, c == "Field" and lo == hi, nl)]
        for where, text in files.items():
            want = {"out": [[{"k": K if f["k"] == "K" else f["k"], "v": [T if x == "T" else x for x in f["v"]]} for f in p]
                            for p in e[where]["out"]], "err": e[where]["err"]}
            msg = check_text(text, form, want, ctx.work, rng)
            ctx.evaluations += 1
            if msg:
                nviol += 1
                if nviol <= 3:
                    ctx.violation({"kind": "file", "text": text, "form": form, "want": want, "leg": "line " + where,
                                   "classes": "".join(cs), "class": c},
                                  "line %r (classes %s, TLC: %s name=%r text=%r) read as %s line of %r [%s]: %s"
                                  % (line, "".join(cs), c, K, T, where, text, form, msg))
        ctx.case_seen(("line", "".join(cs), nl), c != "Junk")
    return nviol


# ------------------------------------------------------------------ (a2) every short file, the large files
def conc_file(cn, lines, final_nl=True):
    n = len(lines)
    texts = []
    for i, ab in enumerate(lines):
        nl = final_nl or i < n - 1
        texts.append(cn.line(ab, nl) + ("\n" if nl else ""))
    return texts


def replay_files(ctx, cases, lib, quick, stats, big=False):
    rng = random.Random("%s-files-%s" % (ctx.seed, big))
    picker = Picker(lib, every=0 if big else 23, offset=ctx.seed, huge=3)
    bigpicker = Picker(lib, every=997, offset=ctx.seed, huge=2)
    prev = None            # (objects, expected projection, description) of the previous case
    nviol = 0
    for idx, case in enumerate(cases):
        lines = case["lines"]
        canonical = (idx % 11 == 5) and not big
        mode = ("uni", "ascii", "latin1", "uni")[idx % 4]
        cn = Conc(rng, bigpicker if big else picker, mode, canonical)
        final_nl = True
        if lines and lines[-1]["c"] != "Blank" and idx % 3 == 1:
            final_nl = False
        texts = conc_file(cn, lines, final_nl)
        want = cn.expect(case)
        text = "".join(texts)
        if big:                # (no byte-at-a-time file objects for megabytes)
            f1, f2 = BIGFORMS[idx % len(BIGFORMS)], BIGFORMS[(idx * 5 + 3) % len(BIGFORMS)]
        else:
            f1 = CHEAP[idx % len(CHEAP)] if idx % 29 else FORMS[8 + (idx // 29) % 4]
            f2 = CHEAP[(idx // 8 + 3) % len(CHEAP)]
        keep = []
        msgs = []
        m = check_text(text, f1, want, ctx.work, rng, keep)
        if m:
            msgs.append((f1, "", m))
        # the caller ruins what he got; the same file again through another file object
        ruin(keep)
        keep2 = []
        m = check_text(text, f2, want, ctx.work, rng, keep2)
        if m:
            msgs.append((f2, " (second reader, lists of the first one ruined by the caller)", m))
        now = [proj_para(o) for o in keep]
        if any(x != RUINED for x in now):
            msgs.append((f2, "", "lists ruined by the caller changed while the file was read again: %s" % brief(now)))
        # TLC: a final blank line makes no difference (BFinalBlank)
        if lines and lines[-1]["c"] != "Blank" and case["err"]["kind"] == "none" and idx % 2 == 0:
            extra = text + ("" if final_nl else "\n") + conc(rng.choice(lib["Blank"])["rs"], rng, "ascii") + "\n"
            m = check_text(extra, f2, want, ctx.work, rng)
            if m:
                msgs.append((f2, " + final blank line", m))
        # the lists of the previous case are still alive: they must still be what they were
        leak = None
        if prev is not None:
            now = [proj_para(o) for o in prev[0]]
            if now != prev[1]:
                leak = prev
                msgs.insert(0, (f1, "", "paragraphs of the previous file %r [%s] changed while this one was read: %s, were %s"
                                % (prev[2][:300], prev[3], brief(now), brief(prev[1]))))
        prev = (keep2, want["out"], text, f2)
        ctx.evaluations += 2
        stats["files:" + case["err"]["kind"]] = stats.get("files:" + case["err"]["kind"], 0) + 1
        stats["max_lines"] = max(stats.get("max_lines", 0), len(lines))
        stats["max_paragraphs"] = max(stats.get("max_paragraphs", 0), len(case["out"]))
        stats["max_error_lineno"] = max(stats.get("max_error_lineno", 0), case["err"]["lineno"])
        if case["out"]:
            stats["max_fields"] = max(stats.get("max_fields", 0), max(len(p) for p in case["out"]))
            stats["max_continuation_lines"] = max(stats.get("max_continuation_lines", 0),
                                                  max(len(f["v"]) - 1 for p in case["out"] for f in p))
        ctx.case_seen(("file", big, idx), bool(lines))
        for form, what, m in msgs[:1]:
            nviol += 1
            if nviol <= 3:
                small = len(text) <= 20000
                if leak is not None and small and len(leak[2]) <= 20000:
                    ctx.violation({"kind": "keepalive", "text": text, "form": form, "prev_text": leak[2], "prev_form": leak[3],
                                   "prev_out": leak[1]}, "file %s [%s]: %s" % (brief(text, 400), form, m))
                    continue
                ctx.violation({"kind": "file", "text": text if small else None, "form": form, "want": want if small else None,
                               "leg": "big" if big else "files", "abstract": lines if small else case.get("dims")},
                              "file %s [%s]%s: %s" % (brief(text, 400), form, what, m))
    stats.setdefault("template_lengths", set()).update(picker.used | bigpicker.used)
    return nviol


# ------------------------------------------------------------------ (b) recorded executions
def heavy(rng, small, p_big=0.06):
    if rng.random() < p_big:
        return rng.choice(COUNTS)
    return rng.choice(small)


def gen_file(rng, dims=None):
    """abstract random file: list of {c, k, t} (tokens numbered by position), mostly well-formed"""
    lines = []

    def field():
        i = len(lines) + 1
        lines.append({"c": "Field", "k": 1000 + i, "t": 0 if rng.random() < 0.25 else i})

    def cont():
        i = len(lines) + 1
        lines.append({"c": "Dot", "k": 0, "t": 0} if rng.random() < 0.2 else {"c": "Cont", "k": 0, "t": i})

    np_ = dims[0] if dims else heavy(rng, [0, 1, 1, 2, 2, 3, 4], 0.03)
    for p in range(np_):
        if p:
            lines.append({"c": "Blank", "k": 0, "t": 0})
        nf = dims[1] if dims else max(1, heavy(rng, [1, 1, 2, 2, 3, 4, 5], 0.05))
        for _ in range(nf):
            field()
            nc = dims[2] if dims else heavy(rng, [0, 0, 0, 1, 1, 2, 3], 0.05)
            for _ in range(nc):
                cont()
    if lines and rng.random() < 0.4:
        lines.append({"c": "Blank", "k": 0, "t": 0})
    if rng.random() < (0.5 if dims else 0.35):        # one fault
        kind = rng.choice(["blank", "blank", "junk", "junk", "cont", "lead"])
        pos = rng.randint(0, len(lines)) if not dims or rng.random() < 0.5 else len(lines)
        if kind == "lead":
            pos = 0
        if kind in ("blank", "lead"):
            new = {"c": "Blank", "k": 0, "t": 0}
        elif kind == "junk":
            new = {"c": "Junk", "k": 0, "t": 0}
        else:
            new = {"c": "Cont", "k": 0, "t": 900000 + pos}
            pos = 0 if not lines else rng.choice([0] + [i + 1 for i, l in enumerate(lines) if l["c"] == "Blank"])
        lines.insert(pos, new)
    return lines


def record(texts, abstract_tokens, form, work, rng, only=None, final_nl=True):
    """prefix closure: a new real reader over the first i lines, i = 1..n"""
    obs = []
    got = {"out": [], "err": {"kind": "none", "lineno": 0}}
    complaints = []
    n = len(texts)
    for i in range(1, n + 1):
        if only is not None and i not in only and i != n:
            obs.append({"np": -2, "last": [], "ek": "none", "el": 0})
            continue
        text = "".join(texts[:i])
        if i < n and not text.endswith("\n"):
            text += "\n"
        got, bad = read_all(form, text, work, rng)
        if bad and not complaints:
            complaints = ["after %d lines: %s" % (i, "; ".join(bad[:3]))]
        obs.append({"np": len(got["out"]), "last": got["out"][-1] if got["out"] else [], "ek": got["err"]["kind"],
                    "el": got["err"]["lineno"]})
    return {"lines": abstract_tokens, "obs": obs, "final": got}, complaints


def _l(c, k="", t=""):
    return {"c": c, "k": k, "t": t}


def _o(np_, last, ek="none", el=0):
    return {"np": np_, "last": last, "ek": ek, "el": el}


def _f(k, *v):
    return {"k": k, "v": list(v)}


def _ctl(lines, obs, final):
    return {"lines": lines, "obs": obs, "final": final}


NOERR = {"kind": "none", "lineno": 0}
# negative controls: hand-written (file, claimed outcome) pairs that the specification must NOT explain.
# They do not depend on the code under test, so they stay wrong whatever it does.
STATIC_CONTROLS = [
    # wrong value
    _ctl([_l("Field", "Ab", "c")], [_o(1, [_f("Ab", "x")])], {"out": [[_f("Ab", "x")]], "err": NOERR}),
    # two blank lines accepted
    _ctl([_l("Field", "Ab", "c"), _l("Blank"), _l("Blank"), _l("Field", "Cd", "e")],
         [_o(1, [_f("Ab", "c")]), _o(1, [_f("Ab", "c")]), _o(1, [_f("Ab", "c")]), _o(2, [_f("Cd", "e")])],
         {"out": [[_f("Ab", "c")], [_f("Cd", "e")]], "err": NOERR}),
    # error reported one line late
    _ctl([_l("Field", "Ab", "c"), _l("Junk")], [_o(1, [_f("Ab", "c")]), _o(0, [], "field", 3)],
         {"out": [], "err": {"kind": "field", "lineno": 3}}),
    # wrong kind of error for a leading blank line
    _ctl([_l("Blank")], [_o(0, [], "field", 1)], {"out": [], "err": {"kind": "field", "lineno": 1}}),
    # the unfinished paragraph yielded before the error
    _ctl([_l("Field", "Ab", "c"), _l("Junk")], [_o(1, [_f("Ab", "c")]), _o(1, [_f("Ab", "c")], "field", 2)],
         {"out": [[_f("Ab", "c")]], "err": {"kind": "field", "lineno": 2}}),
    # a blank line that does not separate
    _ctl([_l("Field", "Ab", "c"), _l("Blank"), _l("Field", "Cd", "e")],
         [_o(1, [_f("Ab", "c")]), _o(1, [_f("Ab", "c")]), _o(1, [_f("Ab", "c"), _f("Cd", "e")])],
         {"out": [[_f("Ab", "c"), _f("Cd", "e")]], "err": NOERR}),
    # " ." kept as a dot
    _ctl([_l("Field", "Ab", "c"), _l("Dot")], [_o(1, [_f("Ab", "c")]), _o(1, [_f("Ab", "c", ".")])],
         {"out": [[_f("Ab", "c", ".")]], "err": NOERR}),
    # continuation line joined to the first line
    _ctl([_l("Field", "Ab", "c"), _l("Cont", "", "d")], [_o(1, [_f("Ab", "c")]), _o(1, [_f("Ab", "c d")])],
         {"out": [[_f("Ab", "c d")]], "err": NOERR}),
    # an orphan continuation line accepted
    _ctl([_l("Cont", "", "d"), _l("Field", "Ab", "c")], [_o(0, []), _o(1, [_f("Ab", "c")])],
         {"out": [[_f("Ab", "c")]], "err": NOERR}),
    # the last paragraph lost when the final blank line is missing
    _ctl([_l("Field", "Ab", "c"), _l("Blank"), _l("Field", "Cd", "e")],
         [_o(1, [_f("Ab", "c")]), _o(1, [_f("Ab", "c")]), _o(1, [_f("Ab", "c")])],
         {"out": [[_f("Ab", "c")]], "err": NOERR}),
    # the empty file yields a paragraph
    _ctl([], [], {"out": [[]], "err": NOERR}),
    # fields swapped
    _ctl([_l("Field", "Ab", "c"), _l("Field", "Cd", "")], [_o(1, [_f("Ab", "c")]), _o(1, [_f("Cd", ""), _f("Ab", "c")])],
         {"out": [[_f("Cd", ""), _f("Ab", "c")]], "err": NOERR}),
]


def corrupted(traces):
    """corrupted copies of recorded traces (wrong line number / last paragraph dropped / a text changed)"""
    out = []
    for tr in traces:
        if len(out) >= 6 or not tr["lines"] or len(tr["lines"]) > 40:
            continue
        f = tr["final"]
        if f["err"]["kind"] != "none":
            out.append(dict(tr, final={"out": f["out"], "err": {"kind": f["err"]["kind"], "lineno": f["err"]["lineno"] + 1}}))
        elif f["out"]:
            out.append(dict(tr, final={"out": f["out"][:-1], "err": f["err"]}))
            p = [dict(x) for x in f["out"][-1]]
            p[0] = {"k": p[0]["k"], "v": [p[0]["v"][0] + "x"] + p[0]["v"][1:]}
            out.append(dict(tr, final={"out": f["out"][:-1] + [p], "err": f["err"]}))
    return out


class _Sub:
    """the context with a scratch directory of its own (core.validate_traces names its file by the number of
    TLC runs so far: two validations side by side must not share the directory)"""

    def __init__(self, ctx, tag):
        self._ctx = ctx
        self.work = os.path.join(ctx.work, tag)
        os.makedirs(self.work, exist_ok=True)

    def __getattr__(self, name):
        return getattr(self._ctx, name)


def validate(ctx, traces, with_controls=True):
    controls = STATIC_CONTROLS + corrupted(traces) if with_controls else []
    acc, _, _ = core.validate_traces(ctx, "TracePackageFile", "TracePackageFile.cfg", traces,
                                     extra_env={"TRACE_DIAG": "0"}, controls=controls)
    rejected = [i for i in range(1, len(traces) + 1) if i not in acc]
    info = {}
    if rejected:
        sub = [traces[i - 1] for i in rejected[:10]]
        _, prog, _ = core.validate_traces(ctx, "TracePackageFile", "TracePackageFile.cfg", sub, extra_env={"TRACE_DIAG": "1"})
        for j, i in enumerate(rejected[:10]):
            info[i] = prog.get(j + 1, 0)
    return rejected, info


def make_trace(rng, lib, picker, abstract, form, work, sparse=False, canonical=False):
    cn = Conc(rng, picker, ("uni", "ascii", "latin1")[rng.randrange(3)], canonical)
    final_nl = not (abstract and abstract[-1]["c"] != "Blank" and rng.random() < 0.3)
    texts = conc_file(cn, abstract, final_nl)
    toks = []
    for ab in abstract:
        if ab["c"] == "Field":
            k, t = cn.fmap[(ab["k"], ab["t"])]
        elif ab["c"] == "Cont":
            k, t = "", cn.cmap[ab["t"]]
        else:
            k, t = "", ""
        toks.append({"c": ab["c"], "k": k, "t": t})
    n = len(texts)
    only = None
    if sparse or sum(map(len, texts)) > 20000:
        only = {1, 2, 3, n - 2, n - 1, n} | set(rng.sample(range(1, n + 1), min(n, 12)))
    tr, complaints = record(texts, toks, form, work, rng, only)
    return tr, texts, complaints


BIG_TRACES = [(1000, 1, 0), (100, 2, 1), (1, 100, 0), (1, 1, 150), (10, 10, 2), (33, 3, 9), (2, 2, 101), (1, 257, 1),
              (257, 1, 1), (1, 17, 16), (3000, 1, 0), (1, 1, 1000)]


# ------------------------------------------------------------------ (c) calls
CALL_SCRIPTS = [
    # (op, arg): two readers over the same file advanced alternately, the first list ruined in between
    [("open", 1), ("open", 1), ("next", 1), ("next", 2), ("mutate", 1), ("next", 1), ("next", 2), ("mutate", 3)],
    # the 'record' error of file 2 while a reader of file 1 is in progress, and after it
    [("open", 1), ("open", 2), ("next", 1), ("next", 2), ("next", 2), ("next", 1), ("next", 2), ("next", 1), ("next", 1)],
    # the 'field' error of file 3 first, then file 2
    [("open", 3), ("open", 2), ("next", 1), ("next", 2), ("next", 1), ("next", 2), ("next", 2)],
    [("open", 2), ("next", 1), ("mutate", 1), ("open", 2), ("next", 2), ("next", 1), ("next", 2)],
    [("open", 1), ("next", 1), ("next", 1), ("mutate", 2), ("mutate", 1), ("next", 1), ("next", 1), ("open", 3), ("next", 2), ("next", 1)],
]


def follow(g, script):
    s = g.init
    path = []
    for op, arg in script:
        nxt = [e for e in g.out.get(s, []) if e["op"] == op and e["args"][0] == arg]
        if not nxt:
            break
        path.append(nxt[0])
        s = nxt[0]["_t"]
    return path


def calls_texts(rng, lib, docs, canonical):
    """the files of PackageFileCalls, concretized (one Conc for all: identical abstract lines are identical)"""
    picker = Picker(lib, every=0 if canonical else 13, offset=rng.randrange(50), huge=0)
    cn = Conc(rng, picker, "uni", canonical)
    texts = []
    for d in docs:
        final_nl = rng.random() < 0.7 or d["lines"][-1]["c"] == "Blank"
        texts.append("".join(conc_file(cn, d["lines"], final_nl)))
    cn.fmap[(99, 666)] = ("Zz-mut", "poison")
    return cn, texts


def calls_steps(rng, path):
    steps = []
    for e in path:
        st = {"op": e["op"], "arg": e["args"][0], "res": e["res"], "heap": e["to"]["heap"]}
        if e["op"] == "open":
            st["form"] = rng.choice(FORMS)
        steps.append(st)
    return steps


def exec_calls(steps, texts, fmap, cmap, work, rng=None):
    """drives real readers through a behaviour of PackageFileCalls; -> None or a message"""
    cn = Conc(None, None)
    cn.fmap, cn.cmap = fmap, cmap
    its, objs, closers = [], [], []
    try:
        for n, st in enumerate(steps):
            where = "step %d %s(%s)" % (n + 1, st["op"], st["arg"])
            if st["op"] == "open":
                try:
                    pf, name, closer = new_reader(st["form"], texts[st["arg"] - 1], work, rng)
                    its.append((iter(pf), name))
                    closers.append(closer)
                except Exception as e:      # noqa: BLE001
                    return "%s: constructor / iter() raised %s: %s" % (where, type(e).__name__, e)
            elif st["op"] == "mutate":
                ruin([objs[st["arg"] - 1]])
            else:
                it, name = its[st["arg"] - 1]
                ev = step(it, name)
                res = st["res"]
                if ev[0] == "exc":
                    return "%s: unexpected exception %s" % (where, ev[1])
                if res["ev"] == "para":
                    if ev[0] != "para":
                        return "%s: %s, the specification says paragraph %d of file %d is yielded" % (where, ev[:2], res["pos"], res["d"])
                    if any(ev[1] is o for o in objs):
                        return "%s: the list yielded is an object that was yielded before" % where
                    objs.append(ev[1])
                    if res["ret"] != len(objs):
                        raise core.MachineryError("calls replay out of step with the LTS")
                elif res["ev"] == "error":
                    if ev[0] != "error":
                        return "%s: %s, the specification says ParseError(%s, line %d)" % (where, brief(ev[:2], 300), res["kind"], res["lineno"])
                    if ev[1] != {"kind": res["kind"], "lineno": res["lineno"]}:
                        return "%s: ParseError %s, the specification says %s at line %d" % (where, ev[1], res["kind"], res["lineno"])
                    if ev[2]:
                        return "%s: %s" % (where, "; ".join(ev[2]))
                elif ev[0] != "stop":
                    return "%s: %s, the specification says StopIteration" % (where, brief(ev[:2], 300))
            # every list handed out so far shows the specification's content
            want = cn.expect({"out": [h["val"] for h in st["heap"]], "err": NOERR})["out"]
            now = [proj_para(o) for o in objs]
            if now != want:
                for j, (a, b) in enumerate(zip(now, want)):
                    if a != b:
                        return "%s: list %d (paragraph %d of file %d) is now %s, the specification says %s" % (
                            where, j + 1, st["heap"][j]["pos"], st["heap"][j]["d"], brief(a, 300), brief(b, 300))
                return "%s: %d lists alive, the specification says %d" % (where, len(now), len(want))
    finally:
        for c in closers:
            if c:
                try:
                    c()
                except Exception:      # noqa: BLE001
                    pass
    return None


# ------------------------------------------------------------------ unspecified zone (diagnostic)
UNSPEC_FILES = ["A: b\n", "Ab: c\n . \n", "Ab: c\n  ", "Ab:  x \n", "Ab: c\r\n\r\nCd: e\r\n", "Ab: c\n \x0cx\n",
                "Ab: c\n\x0c\n", "Ab: c\n", "Ab: c\n d\n", "Ab: c\x85\n"]


def probe_unspecified(ctx):
    from debian.debian_support import PackageFile, ParseError
    n = 0
    for text in UNSPEC_FILES:
        for form in ("bio", "sio"):
            got, bad = read_all(form, text, ctx.work)
            n += 1
            if got["err"]["kind"] == "exc":
                ctx.drift("UNSPECIFIED file %r [%s]: %s" % (text, form, "; ".join(bad)[:200]))
    for data in (b"Ab: \xff\n", b"Ab: c\n \xc3\n"):
        try:
            list(PackageFile("x", io.BytesIO(data)))
        except (ParseError, UnicodeDecodeError):
            pass
        except Exception as e:      # noqa: BLE001
            ctx.drift("UNSPECIFIED undecodable bytes %r: %s" % (data, type(e).__name__))
        n += 1
    # one reader iterated twice
    pf = PackageFile("x", io.BytesIO(b"Ab: c\n\nCd: e\n"))
    try:
        a, b = list(pf), list(pf)
        if b:
            ctx.drift("UNSPECIFIED second iteration of an exhausted reader yields %r" % (b,))
    except Exception as e:      # noqa: BLE001
        ctx.drift("UNSPECIFIED re-iteration raised %s" % type(e).__name__)
    return n + 1


# ------------------------------------------------------------------ run
def cfg_text(name, **sub):
    s = open(core.SPEC + "/" + name).read()
    for k, v in sub.items():
        s, cnt = re.subn(r"(?m)^(\s*%s\s*=\s*).*$" % k, lambda m: m.group(1) + v, s)
        if cnt != 1:
            raise core.MachineryError("cfg %s: cannot substitute %s" % (name, k))
    return s


def only_inv(cfg, lines):
    return re.sub(r"(?m)^(INVARIANT|PROPERTY) .*\n", "", cfg) + "".join(l + "\n" for l in lines)


def known_filter(ctx):
    """turn violations that match a KNOWN entry into KNOWN-FINDING lines (printed at the end of run())"""
    hits = {}
    keep = []
    for path, msg in ctx.violations:
        try:
            case = core.unbytes(json.load(open(path)))
        except Exception:      # noqa: BLE001
            case = {}
        k = next((k for k in KNOWN if k.get("match") and k["match"](case)), None)
        if k is None:
            keep.append((path, msg))
        else:
            hits[k["id"]] = hits.get(k["id"], 0) + 1
            try:
                os.unlink(path)
            except OSError:
                pass
    ctx.violations[:] = keep
    for k in KNOWN:
        if hits.get(k["id"]):
            print("KNOWN-FINDING: extra=X01 %s (%d occurrences; id=%s)" % (k["signature"], hits[k["id"]], k["id"]))
    ctx.extra["known_findings"] = hits


def run(ctx):
    import time
    quick = ctx.tier == "quick"
    rng = ctx.rng
    ctx.import_repo()
    tm = ctx.extra.setdefault("phase_wall_s", {})
    t_ = time.time()
    maxlen = 5 if quick else 6
    maxlines = 5 if quick else 6
    ctx.extra["extra"] = {"id": "X01", "title": EXTRA["title"], "statement": EXTRA["statement"]}
    ctx.assumptions += [
        "bounded: every line of <= %d characters over 7 character classes; every file of <= %d lines over 6 line classes; calls: 3 files, <= 2 readers, <= 4 lists" % (maxlen, maxlines),
        "payload characters are sampled (seeded): ASCII / latin-1 / other Unicode incl. the hazards of SIZE_STRESS part 2; white space other than blank and tab only strictly inside a value",
        "unspecified (executed, diagnostic only): one-character names, unterminated white-space-only last line, ' .' followed by blanks, other white space, undecodable bytes, re-iteration",
        "trusted: TLC, the run-to-character concretizer (a run of class c is n characters of class c), the projection value.split('\\n')",
    ]

    # 0. template library (seeded) -- classified by TLC together with the design runs
    lib_rng = random.Random("%s-lib" % ctx.seed)
    tpls = build_library(lib_rng, quick)

    # 1. design level, concurrently
    jobs = [
        dict(name="lines", module="PackageFile", cfg=cfg_text("PackageFile_lines.cfg", MaxLen=str(maxlen)), workers=3 if quick else 4,
             tags={"CASE", "CTX"}),
        dict(name="files", module="PackageFile", cfg=cfg_text("PackageFile_files.cfg", MaxLines=str(maxlines)), workers=2,
             tags={"CASE"}),
        dict(name="big", module="PackageFile", cfg="PackageFile_big.cfg", workers=2, tags={"CASE"}, java_opts=["-Xss256m"]),
        # (32767 continuation lines; 65540 lines with the error beyond line 65536: 10 s of TLC and of replay, thorough tier only)
        dict(name="big2", module="PackageFile", cfg=cfg_text("PackageFile_big.cfg", BigSel="{}" if quick else "{13, 14}"), workers=2,
             tags={"CASE"}, java_opts=["-Xss256m"]),
        dict(name="calls", module="PackageFileCalls", cfg="PackageFileCalls.cfg", workers=2, tags={"EDGE", "DOCS"}),
    ]
    if quick:
        jobs = [j for j in jobs if j["name"] != "big2"]
    if os.environ.get("VERIF_X01_LINES7"):       # 1.9e6 lines of 7 characters, no emission: 2.5 CPU-minutes, off by default
        jobs.insert(0, dict(name="lines7", module="PackageFile", workers=4, tags=set(),
                         cfg=only_inv(cfg_text("PackageFile_lines.cfg", MaxLen="7", Emit="FALSE"), ["INVARIANT EShape", "INVARIANT ERunAgrees", "INVARIANT EPad"])))
    negs = []
    for const, val, inv in NEG_LINES:
        negs.append(dict(name="neg:%s=%s" % (const, val), module="PackageFile", expect=inv, workers=1, tags=set(),
                         cfg=only_inv(cfg_text("PackageFile_lines.cfg", MaxLen="3", Emit="FALSE", **{const: val}), ["INVARIANT " + inv])))
    for const, val, inv in NEG_FILES:
        negs.append(dict(name="neg:%s=%s" % (const, val), module="PackageFile", expect=inv, workers=1, tags=set(),
                         cfg=only_inv(cfg_text("PackageFile_files.cfg", MaxLines="3", Emit="FALSE", **{const: val}), ["INVARIANT " + inv])))
    for const, val, line, inv in NEG_CALLS:
        negs.append(dict(name="neg:%s=%s" % (const, val), module="PackageFileCalls", expect=inv, workers=1, tags=set(),
                         cfg=only_inv(cfg_text("PackageFileCalls.cfg", Emit="FALSE", **{const: val}), [line])))
    if quick:       # all five every time would cost 10 s of the budget: two per run, by seed
        negs = [negs[ctx.seed % len(negs)], negs[(ctx.seed + 2) % len(negs)]]
    jobs += negs
    timeout = 900 if quick else 3600

    def one(j):
        jo = list(j.get("java_opts") or []) + (["-XX:TieredStopAtLevel=1"] if quick else [])
        return core.run_tlc(j["module"], j["cfg"], ctx.work, workers=j["workers"], want_tags=j["tags"], timeout=timeout,
                            java_opts=jo)

    res = {}

    def account(j, r):
        ctx.tlc_runs.append({"module": j["module"], "config": j["name"], "generated": r.generated, "distinct": r.distinct,
                             "depth": r.depth, "wall_s": round(r.wall, 2), "violated": r.violated})
        if j.get("expect"):
            if r.violated != j["expect"]:
                raise core.MachineryError("negative control %s: expected TLC to report %s, got %r" % (j["name"], j["expect"], r.violated))
            ctx.extra.setdefault("spec_negative_controls", {})[j["name"]] = "violates " + r.violated
        else:
            if r.violated:
                raise core.MachineryError("specification %s (%s) violates %s\n%s" % (j["module"], j["name"], r.violated, r.tail))
            ctx.states += r.distinct
            ctx.transitions += r.generated
        res[j["name"]] = r

    # (lines7 emits nothing: it keeps running beside the replay legs and is collected at the end)
    late = [j for j in jobs if j["name"] == "lines7"]
    jobs = [j for j in jobs if j["name"] != "lines7"]
    late_ex = ThreadPoolExecutor(max_workers=1)
    late_futs = [late_ex.submit(one, j) for j in late]
    with ThreadPoolExecutor(max_workers=3 if quick else 2) as ex:
        futs = [ex.submit(one, j) for j in jobs]
        f_lib = ex.submit(classify_library, ctx, tpls)
        results = [f.result() for f in futs]
        lib = f_lib.result()
    for j, r in zip(jobs, results):
        account(j, r)
    tm["tlc_design"] = round(time.time() - t_, 1)
    t_ = time.time()

    lcases = [c for c in res["lines"].printed.get("CASE", []) if isinstance(c, list) and len(c) == 6]
    table = (res["lines"].printed.get("CTX") or [None])[0]
    if len(lcases) != res["lines"].distinct - 1 or not isinstance(table, list) or len(table) != 20:
        raise core.MachineryError("lines: %d CASE lines for %d states / CTX table missing" % (len(lcases), res["lines"].distinct))
    lcases.sort(key=lambda c: (len(c[0]), "".join(c[0]), c[1]))
    fcases = [c for c in res["files"].printed.get("CASE", []) if isinstance(c, dict)]
    if len(fcases) != res["files"].distinct:
        raise core.MachineryError("files: %d CASE lines for %d states" % (len(fcases), res["files"].distinct))
    fcases.sort(key=lambda c: (c["n"], skey(c["lines"])))
    bigs = [n for n in ("big", "big2") if n in res]
    bcases = [c for n in bigs for c in res[n].printed.get("CASE", []) if isinstance(c, dict)]
    if 2 * len(bcases) != sum(res[n].distinct for n in bigs):
        raise core.MachineryError("big: %d CASE lines for %d states" % (len(bcases), sum(res[n].distinct for n in bigs)))
    bcases.sort(key=lambda c: c["n"])
    ctx.extra["model"] = {
        "lines(all class strings)": res["lines"].distinct, "MaxLen": maxlen,
        "files(all line-class sequences)": res["files"].distinct, "MaxLines": maxlines,
        "large_files(paragraphs x fields x continuation lines, tail)": ["%dx%dx%d/%d" % tuple(c["dims"]) for c in bcases],
        "calls_states": res["calls"].distinct,
        "templates": {k: len(v) for k, v in sorted(lib.items())},
    }
    stats = {}

    # 2. (a1) every line, (a2) every file, the large files
    nv = replay_lines(ctx, lcases, table, quick, stats)
    tm["replay_lines"] = round(time.time() - t_, 1)
    t_ = time.time()
    nv += replay_files(ctx, fcases * 2, lib, quick, stats)       # (every repetition draws new templates / forms)
    tm["replay_files"] = round(time.time() - t_, 1)
    t_ = time.time()
    nv += replay_files(ctx, bcases, lib, quick, stats, big=True)
    tm["replay_big"] = round(time.time() - t_, 1)
    t_ = time.time()
    ctx.traces += len(lcases) + len(fcases) + len(bcases)
    mid = fcases[len(fcases) * 2 // 3]
    cn = Conc(random.Random("%s-sample" % ctx.seed), Picker(lib), "uni")
    ctx.sample("CASE %s -> %r -> %s" % ("".join(l["c"][0] for l in mid["lines"]), "".join(conc_file(cn, mid["lines"])),
                                         brief(cn.expect(mid), 400)))

    # 3. (c) behaviours of PackageFileCalls
    cedges = [e for e in res["calls"].printed.get("EDGE", []) if isinstance(e, dict)]
    cdocs = (res["calls"].printed.get("DOCS") or [None])[0]
    if len(cedges) != res["calls"].generated - 1 or not isinstance(cdocs, list):
        raise core.MachineryError("calls: %d EDGE lines for %d generated states / DOCS missing" % (len(cedges), res["calls"].generated))
    cedges.sort(key=lambda e: (skey(e["from"]), e["op"], skey(e["args"])))
    cinit = [e["from"] for e in cedges if not e["from"]["heap"] and not e["from"]["its"]][0]
    g = LTS(cedges, cinit)
    nrep, nwalks = (6, 250) if quick else (60, 6000)
    paths = []
    for sc in CALL_SCRIPTS:
        p = follow(g, sc)
        if len(p) != len(sc):
            raise core.MachineryError("call script %r cannot be followed in the emitted LTS (%d steps)" % (sc, len(p)))
        paths += [p] * nrep
    for _ in range(nwalks):
        paths.append(g.walk(rng, g.init, rng.randint(4, 14), weight=lambda x: 1 if x["op"] in ("mutate", "open") else 3))
    ncalls, cops = 0, {}
    for n, p in enumerate(paths):
        crng = random.Random("%s-calls-%d" % (ctx.seed, n))
        cn, texts = calls_texts(crng, lib, cdocs, canonical=(n % 7 == 0))
        steps = calls_steps(crng, p)
        ncalls += len(steps)
        for st in steps:
            cops[st["op"] + (":" + st["res"]["ev"] if st["op"] == "next" else "")] = cops.get(st["op"] + (":" + st["res"]["ev"] if st["op"] == "next" else ""), 0) + 1
        msg = exec_calls(steps, texts, cn.fmap, cn.cmap, ctx.work, crng)
        ctx.case_seen(("calls", n), True)
        if msg:
            nv += 1
            if nv <= 5:
                ctx.violation({"kind": "calls", "steps": steps, "texts": texts, "fmap": [[list(k), list(v)] for k, v in cn.fmap.items()],
                               "cmap": [[k, v] for k, v in cn.cmap.items()]},
                              "behaviour %s over files %s: %s" % (" ".join("%s(%s)" % (s["op"], s["arg"]) for s in steps),
                                                                  brief(texts, 500), msg))
    ctx.traces += len(paths)
    ctx.evaluations += ncalls
    ctx.extra["calls"] = {"lts_states": len(g.states), "lts_edges": len(g.edges), "behaviours_replayed": len(paths),
                          "calls_executed": ncalls, "per_op": dict(sorted(cops.items()))}
    ctx.sample("call behaviour: " + " ; ".join("%s(%s)->%s" % (e["op"], e["args"][0], e["res"]["ev"]) for e in follow(g, CALL_SCRIPTS[1])))
    tm["calls"] = round(time.time() - t_, 1)
    t_ = time.time()

    # 4. (b) recorded executions, prefix by prefix, validated by TLC
    ndocs = 260 if quick else 2500
    picker = Picker(lib, every=9, offset=ctx.seed * 3, huge=3 if quick else 8)
    bigdims = BIG_TRACES[:7] if quick else BIG_TRACES
    bigpos = {(j + 1) * (ndocs // (len(bigdims) + 1)): d for j, d in enumerate(bigdims)}
    plain = Picker(lib, every=499, offset=ctx.seed, huge=1)
    traces, meta = [], []
    for i in range(ndocs):
        form = FORMS[i % len(FORMS)] if i % 3 == 0 else CHEAP[i % len(CHEAP)]
        if i in bigpos:
            abstract = gen_file(rng, bigpos[i])
            tr, texts, complaints = make_trace(rng, lib, plain, abstract, form, ctx.work, sparse=True)
        else:
            abstract = gen_file(rng)
            tr, texts, complaints = make_trace(rng, lib, picker, abstract, form, ctx.work, sparse=len(abstract) > 60,
                                               canonical=(i % 13 == 7))
        traces.append(tr)
        meta.append({"texts": texts, "form": form})
        if complaints and nv < 5:
            nv += 1
            ctx.violation({"kind": "trace", "lines": tr["lines"], "texts": texts, "form": form},
                          "file %s [%s]: %s" % (brief(texts, 500), form, complaints[0]))
    tm["record"] = round(time.time() - t_, 1)
    t_ = time.time()
    if quick:
        rejected, info = validate(ctx, traces)
    else:               # two TLC runs side by side
        half = len(traces) // 2
        with ThreadPoolExecutor(max_workers=2) as ex:
            fa = ex.submit(validate, _Sub(ctx, "va"), traces[:half])
            fb = ex.submit(validate, _Sub(ctx, "vb"), traces[half:])
            (ra, ia), (rb, ib) = fa.result(), fb.result()
        rejected = ra + [i + half for i in rb]
        info = dict(ia)
        info.update({i + half: v for i, v in ib.items()})
    tm["validate"] = round(time.time() - t_, 1)
    ctx.traces += len(traces)
    ctx.evaluations += sum(len(t["lines"]) for t in traces)
    for i in range(len(traces)):
        ctx.distinct.add(("trace", i))
    for i in rejected[:5]:
        at = info.get(i, 0)
        m = meta[i - 1]
        tr = traces[i - 1]
        ctx.violation({"kind": "trace", "lines": tr["lines"], "texts": m["texts"], "form": m["form"], "first_unexplained_line": at + 1},
                      "reader not explained by PackageFile.tla: after line %d (%r, TLC class %s) of %s [%s] the real outcome is %s"
                      % (at + 1, (m["texts"][at] if at < len(m["texts"]) else None), tr["lines"][at]["c"] if at < len(tr["lines"]) else "-",
                         brief(m["texts"], 800), m["form"], brief(tr["obs"][at] if at < len(tr["obs"]) else tr["final"], 800)))
    t0 = max(range(len(traces)), key=lambda i: (traces[i]["final"]["err"]["kind"] != "none" and len(traces[i]["final"]["out"]) >= 1,
                                                -len(traces[i]["lines"])))
    ctx.sample("recorded file (%s): %r -> %s" % (meta[t0]["form"], "".join(meta[t0]["texts"])[:300], brief(traces[t0]["final"], 400)))
    kinds = {}
    for t in traces:
        kinds[t["final"]["err"]["kind"]] = kinds.get(t["final"]["err"]["kind"], 0) + 1
    ctx.extra["traces"] = {"recorded": len(traces), "rejected": len(rejected), "lines": sum(len(t["lines"]) for t in traces),
                           "outcomes": kinds, "large_files": ["%dx%dx%d" % d for d in bigdims],
                           "max_lines": max(len(t["lines"]) for t in traces),
                           "max_line_len": max((len(x) for m in meta for x in m["texts"]), default=0)}
    stats["template_lengths"] = sorted(stats.get("template_lengths", set()) | picker.used | plain.used)
    ctx.extra["replay"] = dict(sorted(stats.items()))
    ctx.extra["unspecified_probes"] = probe_unspecified(ctx)
    t_ = time.time()
    for j, f in zip(late, late_futs):
        account(j, f.result())
    late_ex.shutdown()
    tm["tlc_late"] = round(time.time() - t_, 1)
    known_filter(ctx)


def replay(ctx, case):
    ctx.import_repo()
    if case["kind"] == "file":
        if case.get("text") is None:
            return "large generated file: re-run the check (the case was too large to store)"
        return check_text(case["text"], case["form"], case["want"], ctx.work)
    if case["kind"] == "keepalive":
        keep = []
        read_all(case["prev_form"], case["prev_text"], ctx.work, None, keep)
        read_all(case["form"], case["text"], ctx.work)
        now = [proj_para(o) for o in keep]
        if now != case["prev_out"]:
            return "lists yielded for %r changed afterwards: %s, were %s" % (case["prev_text"][:300], brief(now), brief(case["prev_out"]))
        return None
    if case["kind"] == "calls":
        fmap = {tuple(k): tuple(v) for k, v in case["fmap"]}
        cmap = {k: v for k, v in case["cmap"]}
        return exec_calls(case["steps"], case["texts"], fmap, cmap, ctx.work)
    if case["kind"] == "trace":
        tr, complaints = record(case["texts"], case["lines"], case["form"], ctx.work, None)
        if complaints:
            return complaints[0]
        rejected, info = validate(ctx, [tr], with_controls=False)
        if rejected:
            return "file still not explained by the specification after line %d" % (info.get(1, 0) + 1)
        return None
    return "unknown case kind %r" % case.get("kind")
