"""C02 -- Deb822 paragraphs survive dump and re-parse, whatever the input form.

spec:      spec/Deb822Reader.tla       line-level model of the reader (SkipUseless, SplitGpg,
                                       AssembleFields, IterParagraphs; one branch per branch of the
                                       code's loops), of dump() (Dump) and of clearsign armor (Armor);
                                       raw pre-pass of the Dsc/Changes classes (GpgMvParse)
           spec/TraceDeb822Reader.tla  trace validation re-using the automaton (StepF / Finish)
           spec/Deb822Stream.tla       the TRANSPORT below the line-level reader: a file object hands the document over as a
                                       byte stream cut into chunks (blocks of any size and phase, short reads, byte by byte)
                                       that are re-assembled into lines; StreamLines (the lines delivered are the lines of
                                       the document wherever the cuts fall) and StreamParse (hence Parse = P) for every
                                       bounded document, its commented / led / trailed / armored forms, with and without
                                       final newline, lines of 1-2 bytes (a two-byte line = a multi-byte character that a
                                       cut may straddle).  Negative controls: KeepEmptyTail (a chunk that stops right at a
                                       newline leaves an empty line behind -> StreamParse), DropPartialLast (last line
                                       without newline lost -> StreamParse), PerChunkLines (no carry-over -> StreamLines).
                                       The POSITION of a file object (round 7): the caller has taken k whole lines through the
                                       object before the reader gets it (a header in front of the document; the first paragraph
                                       via Deb822(f): OneEnd lines) -- the layered reader holds fetched-but-undelivered lines by
                                       then (FeedUntil / RestLines).  ReadOnInvariant (line level: the first OneEnd(X) lines give
                                       P[1], the rest Tail(P), X = dump, comments anywhere / everywhere, leading / trailing
                                       lines, every separator shape) and PositionInvariant (under every cutting the lines
                                       delivered from the position on are the remaining lines; they parse to P resp. Tail(P)).
                                       Negative control BufferShortcut (the next reader goes to the layer below, skipping what
                                       the upper layer has buffered -> PositionInvariant)
           spec/Deb822ReaderCalls.tla  independence of calls: heap of paragraph objects handed to the
                                       caller, generators in progress; ParseOneCall / IterOpen /
                                       IterNext / Mutate (the CALLER ruins one of his objects);
                                       ReturnedFresh, FreshIdentity, NoSpontaneousChange; negative
                                       controls SharedResults (memo keyed by the input returns the old
                                       object) and SharedIterObject (a generator re-fills the object
                                       it yielded before)
model checking:
           lts (closed, VIEW without history; thorough: both values of whitespace-separates-paragraphs):
               Totality and exclusiveness of the branch guards, BranchAgrees, EofRule (EOFError <=>
               empty payload => empty paragraph), PayloadClean, StoppedAbsorbing, DoneGrows.
           bnd: every document of <= 3 paragraphs x <= 3 fields with <= 3 fields in all (thorough: 4)
               x {empty, non-empty first line} x 0..2 continuation lines: RoundTrip, ParseOneOk,
               CommentInvariant (a comment at any position; before every line), LeadingBlankInvariant,
               TrailingInvariant, SeparatorInvariant; single paragraphs of <= 2 (thorough 3) fields
               inside armor: ArmorInvariant (armor shapes x comments x leading/trailing lines) and
               GpgMvAgrees (Dsc/Changes pre-pass).  Thorough adds "wide" (all 3 x 3 documents over the
               two value shapes "v" / "<empty> + 1 line") and "deep" (<= 5 fields in all: RoundTrip,
               ParseOneOk, a comment before every line) and "big" (size stress: uniform documents of up
               to 1000 paragraphs / 100 fields / 120 continuation lines: BigInvariant).  The full 3 x 3 x 6-shape space of DESIGN.md has 1.7e7
               documents and is not enumerated: the bound is on the total number of fields instead.
           Spec-level negative controls (each must make TLC report the named invariant):
               TrimFirst=FALSE -> RoundTrip, CommentEndsValue=TRUE -> CommentInvariant,
               LeadingBlankSkipped=FALSE -> LeadingBlankInvariant, ArmorHeadersSkipped=FALSE ->
               ArmorInvariant, GpgMvLeadOK=FALSE -> GpgMvAgrees (the last one is what the code does).
binding:   (a) every CASE line of TLC (document P, Dump(P), Parse(Dump(P))) is concretized, built as
               real Deb822 objects, dumped, and the dump -- plain and in the variant families whose
               result TLC has checked to be P (comment at position i / before every line, leading,
               trailing and separator lines, clearsign armor in several shapes) -- is read back in the
               six input forms (str, bytes, list of lines with / without newlines, StringIO, BytesIO)
               with Deb822.iter_paragraphs(use_apt_pkg=False), Deb822(x), and for single paragraphs
               Dsc(x) / Changes(x);
           (b) random documents (seeded generator, <= 8 paragraphs, comments anywhere, several
               separator lines, optional armor) are fed to the real reader line-prefix by line-prefix
               in one of the six forms; TLC (TraceDeb822Reader) replays the automaton
               over the line classes and must explain every observation.
           (c) independence of calls (the statement holds whatever was parsed before): the closed LTS of
               Deb822ReaderCalls (two documents, one with two paragraphs of identical names) is
               replayed -- scripted and random call sequences, a random input form per call -- and
               after every call every object handed out so far must show the specification's content;
               in the CASE replay every document is parsed three times (same form twice, then another
               form) with the caller poisoning / deleting / adding / re-ordering fields of every
               earlier result in between, mutating the first paragraph must leave the following ones
               alone, two generators (this document / the previous case's document) are advanced
               alternately, and the objects of the previous case (and of the previous recorded
               document) are kept alive and re-verified after the current one has been handled.
               Failing calls (notes/SIZE_STRESS.md part 5; configuration calls_faults of Deb822ReaderCalls: two objects, one
               generator, ParseFault / ListFault): Deb822(x) / Cls(x) / list(Cls.iter_paragraphs(x)) with a FAULTING TWIN x of the
               document -- a generator or iterator of str / bytes lines (with / without newlines), a file-like object (text / binary),
               a BufferedReader / TextIOWrapper over a raw stream with short reads -- whose request for the first / a middle / the
               last line (for Deb822(x): of the first paragraph) raises OSError / ValueError / KeyError / UnicodeDecodeError / a
               private exception class.  Verdict for the call itself: exactly the caller's exception object comes out; then the
               history goes on (FaultsChangeNothing): every object handed out before, every generator in progress and every later
               parse in the same process behave as the model says.  Negative control FaultSharesStorage.
           (d) size stress (notes/SIZE_STRESS.md) in both legs.  The specification is class-abstract, so
               TLC's expected parse does not depend on any length; the CONCRETIZATION gets a size plan
               (class Sizes) that hands out boundary lengths round-robin, whatever the seed: names of
               9..300 characters (31/32/33, 63/64/65, 127/128/129, 255/256/257, 300), first lines and
               continuation lines of 1..8193 characters and three lines of 65535/65536/65537 per run
               (every other one pure ASCII, i.e. the same number of bytes).  Every 6th CASE (thorough:
               every 3rd second concretization) and every 5th recorded document is size-stressed.
               Counts: the configuration "big" lets TLC compute Parse(Dump(P)) for uniform documents of
               10 / 33 / 100 / 257 / 1000 paragraphs, 10 / 33 / 100 fields, 17 / 101 / 120 continuation
               lines (BigInvariant), replayed like every other CASE; the recorder adds documents of
               1000x1, 100x2, 1x100 fields, 1x1x150 continuation lines ... (thorough: 1x257 fields,
               1000x2), observed at about 24 prefix lengths each (np = -2 marks an unobserved prefix).
           (e) renderings of ONE live paragraph between edits (spec/Deb822ReaderEdits.tla): the closed LTS of every public
               mutator (item set / del, update, setdefault, pop, popitem, clear, order_first / last / before / after,
               sort_fields with and without key, merge_fields in place incl. the deprecated alias) is replayed -- scripted
               and random behaviours on objects parsed through rotating entry points -- and after EVERY step every way of
               rendering the object (dump(), str, bytes, dump(fd) binary / with encoding / text mode, get_as_string) must
               re-parse (rotating input form) to the model's current fields in the current order, and all renderings must
               be the same text.  Spec-level negative control: a render memo invalidated only by set / del makes TLC
               report RendersCurrent.  Recorded histories over 6 names are validated by TraceDeb822ReaderEdits
               (hand-written corrupted control histories must be rejected).
               REFUSED calls and calls failing inside a caller-supplied object are ordinary steps of these histories, in both legs
               (hardening round 6): refused_set = item assignment / setdefault / update / merge_fields with a value Deb822 documents as
               refused (ends in a newline; has an empty line; has a continuation line without leading white space), to a name the
               paragraph has (any case spelling) or does NOT have (yet / any more); absent = del / pop / pop(default) of a name it does
               not have, popitem() of an empty paragraph; sort_key_fault = sort_fields(key=f) with f raising for the first / a middle /
               the last name, sort_key_incomparable = f returning keys that cannot be compared; dump_fault = dump(fd) binary / text
               with the k-th write() of fd raising.  The EDGE carries the outcome ("ValueError" / "KeyError" / "TypeError" / "caller" =
               the caller's own exception object / "ok" where the call does not fail: setdefault of a present name, pop with default,
               key function never called on an empty paragraph ...) and the model's step is UNCHANGED on the paragraph (error
               atomicity: RendersCurrent includes Complete = every listed field has a value), so after the failed call every
               rendering must still re-parse to the fields it had, and the history continues.  Spec-level negative control:
               RefusedLeaksKey (the name is registered before the value is validated) -> RendersCurrent.
           (f) transport (spec/Deb822Stream.tla; notes/SIZE_STRESS.md part 4), both legs, every run: the plain dump of EVERY
               case and one more variant of every other case (comments, leading / trailing / separator lines, armor), and every
               5th recorded document, are also read through file objects with one text lengthened so that the end of a line --
               any line: inside a value, between two fields, before / at a separator, a comment, an armor line, the last one --
               falls exactly at, one before or one after m * 2^k (k = 9..17 round-robin, 2^13 and 2^12 most often), or so that a 2- / 3- /
               4-byte character straddles m * 2^k; offsets counted in bytes (binary and text file objects) or in characters
               (text file objects).  Kinds of file objects (rotating, also in the surface probes, the recorded documents, the
               call behaviours and the edit histories): BytesIO / StringIO, real files buffered, unbuffered (buffering=0) and
               with a 16-byte buffer, BufferedReader / TextIOWrapper over a raw stream with short reads (1..7 bytes), that raw
               stream itself, GzipFile / BZ2File / LZMAFile over compressed bytes, GzipFile over a real file (fileno() names
               the compressed file), gzip.open(..., 'rt'), SpooledTemporaryFile in memory / rolled over / text mode.  Texts
               are opaque to the specification, so the expectation is the parse TLC gave for the case (with that text);
               alignments and kinds are listed in the evidence (aligned_cases, file_object_kinds).
               POSITIONED file objects (hardening round 7; PositionInvariant): five more input forms "<kind>+head" (real text file,
               real binary file, TextIOWrapper over short reads, gzip.open 'rt', BufferedReader over short reads) hold a header
               (comment / junk / blank-terminated pseudo paragraph / 8 KiB line / non-ASCII; 1-4 lines) in front of the document
               which the caller has read through readline() / next() / read(n) before he hands the object over; they rotate with
               all other forms in every leg (replay: one positioned rendering for every variant of the small cases and every third
               variant otherwise, surface probes, recorded documents, call behaviours, edit histories), expectation = the parse of
               the case.  READING ON (ReadOnInvariant + PositionInvariant): for every second variant without armor / white-space
               lines of a case of >= 2 paragraphs: p = Deb822(f) on a file object (all 23 kinds incl. the positioned ones,
               rotating), then list(Deb822 / Release.iter_paragraphs(f)) or iter_paragraphs of f.read() / f.readlines() /
               list(f): [p] + rest = the parse of the case.
verdict observables: list of (name, value) per paragraph == TLC's parse (first line trimmed,
           continuation lines verbatim) in every form; "\\n".join(p.dump()) of the re-parsed paragraphs
           == dump of the expected paragraphs; no exception; a call never returns an object it returned
           before; objects not touched by the caller never change; every prefix observation explained by
           the automaton (trace validation).  Corrupted control traces are hand-written (document,
           wrong observation) pairs, independent of the code under test.
unspecified / diagnostic (executed, recorded as spec_drift, never a violation): whitespace-only
           lines (leading, trailing, separators); Deb822(x) on a multi-paragraph document; junk /
           stray PGP lines (LTS walks); strict={'whitespace-separates-paragraphs': False};
           Dsc/Changes given a non-str/bytes input whose leading comment line(s) are directly
           followed by a blank line (the code loses the paragraph there: observation for the
           maintainers, see GPGMV_ZONE); a tree that CARRIES OUT an assignment the specification refuses (value
           validation itself is C08): the rest of that history is outside the domain (drift, no verdict);
           update() with several pairs of which a later one is refused, and a generator in progress whose line
           source starts to fail (how many paragraphs come out before the exception depends on read-ahead):
           not exercised, the statement does not say.
API surface (notes/API_SURFACE.md): every public way of parsing / dumping a paragraph and where it is exercised
  ("replay" = CASE replay incl. the rotating surface probes of surface_jobs(), "trace" = recorded documents validated by
   TLC, "calls" = behaviours of Deb822ReaderCalls; all of them run in the QUICK tier, the expectation is always the
   parse / dump of the same abstract case)
  entry point / variant                                                     -> exercised by
  Deb822(x)                                                                 -> replay (api one), trace (prefixes via iter), calls
  Deb822(x, fields, _parsed=None, encoding, strict) positionally            -> replay surface A/D/E (style pos), calls
  Deb822(x, fields=, encoding=, strict=) by keyword, Deb822(sequence=x)     -> replay surface A/D/E (styles kw, kwseq), calls
  Cls(x ...) for Dsc, Changes, BuildInfo, PdiffIndex, Release, Sources,     -> replay surface A/B/C/E (rotating class), calls;
      Packages, Removals (names of structured fields avoided)                  Dsc / Changes also in every variant of the CASE replay
  Deb822.iter_paragraphs(x, fields, use_apt_pkg, shared_storage, encoding,  -> replay (api iter; surface A-E with both call styles,
      strict) positionally and by keyword, sequence=x                          use_apt_pkg True/False -- apt_pkg is absent, the internal
                                                                               parser runs with a warning --, shared_storage True/False), trace, calls
  Cls.iter_paragraphs(...) of the subclasses (Sources / Packages override   -> replay surface A-E, trace (PdiffIndex, Release, Packages,
      it: use_apt_pkg=True, lenient strictness by default)                     Removals rotate with Deb822), calls; the gpg-aware classes only
                                                                               where TLC has checked the signature pre-pass (single paragraph)
  strict={'whitespace-separates-paragraphs': True/False} / None             -> replay surface E: a white-space-only line (>= 2 characters) at a
                                                                               random position; expectation = ParseS / GpgMvParseS of the
                                                                               specification for that flag (WSAT lines); keyword and positional,
                                                                               every class, Sources/Packages defaults.  Not judged: strict flag +
                                                                               the line directly before a continuation line (stray continuation lines)
  fields=[...]                                                              -> replay surface D (FieldsInvariant of the specification); UNSPECIFIED
                                                                               (executed, drift): a paragraph left without any wanted field (iteration
                                                                               stops there), a name spelled in another case (the filter of the internal
                                                                               parser is case-sensitive, the mapping is not)
  input forms str, bytes, list with / without newlines, StringIO, BytesIO   -> replay (all six for every case), trace, calls
  tuple, generator, list of bytes lines with / without newlines, real text  -> replay surface (rotating), trace (rotating), calls (random)
      and binary files (open()), with and without final newline
  other binary file objects: open(..., 'rb', buffering=0), BufferedReader    -> replay (f): block-aligned renderings of every case; replay surface, trace,
      over short reads (default / 16-byte buffer), the raw stream itself,       calls, edit histories (rotating with the other forms); latin-1 documents
      GzipFile / BZ2File / LZMAFile, GzipFile(<real file>), SpooledTemporary-
      File (memory / rolled over)
  other text file objects: TextIOWrapper over short reads, gzip.open 'rt',   -> the same legs (alignment also counted in characters)
      SpooledTemporaryFile text mode, text file with a 16-byte buffer
  partially consumed file objects: a real text / binary file, TextIOWrapper   -> replay (positioned rendering of the variants), surface, trace, calls, edit
      / BufferedReader over short reads, gzip 'rt', positioned after a           histories (forms "<kind>+head" rotate with all others)
      header the caller read with readline() / next() / read(n)
  Deb822(f) followed by iter_paragraphs(f) / f.read() / f.readlines() /      -> replay (api readon): cases of >= 2 paragraphs, every kind of file object
      list(f) on the same file object
  the exact number of lines Deb822(f) takes beyond the paragraph's           -> not judged (only that first + rest = the document; several separator lines,
      separator                                                                  comments: whatever is left parses to the remaining paragraphs)
  documents larger than a block (512 B .. 128 KiB) with a line end / a       -> replay (f), trace (every 5th recorded document), both through every kind
      multi-byte character at a block boundary                                   of file object and (sample) the other input forms
  encoding='utf-8' / 'UTF-8' given explicitly                               -> replay surface A (rotating)
  encoding='latin-1' / 'iso-8859-1' (latin-1 documents)                     -> replay latin1_jobs: bytes, BytesIO, lists of bytes, binary file (verdict:
                                                                               parse, dump(fd) in the object's encoding, bytes(d)); UNSPECIFIED (drift):
                                                                               text input forms with a non-UTF-8 encoding (str lines are encoded as UTF-8
                                                                               and decoded with `encoding`: mojibake)
  _AutoDecoder fallback (bytes that are not valid in `encoding`, chardet)   -> out of domain: the result is chardet's guess, not defined by the statement
  dump() / str(d) / d.__unicode__()                                         -> replay (every variant), surface B/C
  dump(fd) binary, dump(fd, 'utf-8'), dump(fd=, encoding=, text_mode=False),-> replay surface B/C (BytesIO; real files every 5th case)
      dump(fd, encoding='latin-1') where encodable, bytes(d)
  dump(fd, text_mode=True), dump(fd, None, True)                            -> replay surface B/C (StringIO; real text file every 5th case)
  get_as_string(key)                                                        -> replay surface B/C
  d.copy(), copy.deepcopy(d), pickle protocols 2..5 of parsed paragraphs,   -> replay surface C (two live objects made through different entry points,
      then items / every dump variant / independence of original and copy      one copied, the other pickled, each mutated in turn)
  copy.copy(d)                                                              -> surface C for content and dump; independence UNSPECIFIED (shallow copy
                                                                               shares the field storage: observation)
  pickle protocols 0 and 1                                                  -> UNSPECIFIED (TypeError today: __slots__ of the key strings; observation)
  Deb822.gpg_stripped_paragraph(seq[, strict]), split_gpg_and_payload(seq,  -> replay surface F (ArmorInvariant: FirstPayload(Armor(D)) = D), through
      strict)[1], also through the subclasses                                  every class
  Dsc/Changes/... get_gpg_info(), GpgInfo                                   -> out of domain (signature verification, needs gpgv)
  apt_pkg.TagFile path (use_apt_pkg=True with python-apt), TagSectionWrapper-> out of domain (apt_pkg absent in this image)
  validate_input / __setitem__ (building the paragraphs that are dumped)    -> replay (build_and_dump); value validation itself is C08
  REFUSED d[k] = v / d.setdefault(k, v) / d.update({k: v}) / d.update([(k,   -> edit histories + recorded histories (refused_set): ValueError comes out, the
      v)]) / d.merge_fields(k, {k: v}) with v ending in a newline, holding     paragraph is what it was (len, order, every rendering, re-parse), for names the
      an empty line or an unindented continuation line                          paragraph has (other case spellings too) and names it does not have
  del d[k] / d.pop(k) / d.pop(k, default) with k absent, popitem() on {}     -> edit histories + recorded histories (absent, popitem_empty)
  sort_fields(key=f) with f raising at the first / middle / last name or     -> edit histories + recorded histories (sort_key_fault, sort_key_incomparable): the
      returning incomparable keys                                               caller's exception object / TypeError comes out, order and fields unchanged
  dump(fd) / dump(fd, text_mode=True) with fd.write() raising at the first / -> edit histories + recorded histories (dump_fault): the caller's exception object
      middle / last call                                                        comes out, the paragraph and all later renderings unchanged (what fd got: not judged)
  Deb822(x) / Cls(x) / list(Cls.iter_paragraphs(x)) with x raising when a     -> calls (configuration calls_faults): eight faulting forms x five exception classes x
      line is requested (generator, iterator, file-like, buffered / text        first / middle / last line; later calls, live objects and generators unaffected
      layer over a failing raw stream)
  isSingleLine / isMultiLine, order_* with an absent name                   -> not ways of parsing or dumping (C09 / out of scope); order_*, sort_fields,
                                                                               merge_fields / mergeFields on present names: edit histories (e)
domain:    names Policy-valid ([!-9;-~]+, not starting with '#' or '-', distinct in a paragraph
           ignoring case); first-line data without leading/trailing (Unicode) white space, padding
           is ASCII blank/tab; continuation lines start with blank/tab and contain a non-white
           character; never a DESIGN D1 character (CR VT FF FS GS RS NEL LS PS) inside a line.
character stress (notes/SIZE_STRESS.md part 2), both legs: pools with text that is not NFC/NFKC-stable (base + combining
           mark, U+212B, U+2126, U+F9D0, U+FB01, full-width, Hangul jamo), case hazards (sharp s, dotted / dotless i, long s,
           final sigma, Deseret) -- and such TWINS as two different values of one document --, U+FEFF first / inside,
           ZWJ / ZWNJ, soft hyphen, bidi marks, U+10FFFF, a lone combining mark first, NBSP / U+2003 / U+3000 / U+200B inside
           tokens; line-FINAL characters rotate through U+0400..U+043F (every UTF-8 continuation byte 0x80..0xBF) and
           token-initial characters through one character per lead byte C2..F4 (class Chars; the evidence lists the
           bytes reached).  Comparison is by code point.
"""
import io
import json
import os
import random
from concurrent.futures import ThreadPoolExecutor

import core
import transport_c02 as tp
from lts import LTS, skey

MANIFEST = dict(
    technique="TLA+ specs Deb822Reader + Deb822Stream + Deb822ReaderCalls (line-class automaton of _skip_useless_lines + split_gpg_and_payload + _internal_parser + iter_paragraphs, inverse operator Dump, clearsign Armor) model-checked by TLC (closed automaton; all bounded documents); every TLC case replayed as real dump()+re-parse in six input forms x comments x armor; prefix-closed executions of the real reader validated by TLC (TraceDeb822Reader)",
    text="The reader is specified as one automaton over eleven line classes with one named branch per branch of the code's loops. TLC checks on the closed automaton that the branch guards are total and exclusive and that EOFError coincides with an empty paragraph, and on every document of up to 3 paragraphs x 3 fields (at most 3 fields in all in the quick tier, 4-5 in the thorough tier, plus all 3x3 documents over two value shapes) x values with empty/non-empty first line and 0-2 continuation lines that Parse(Dump(P)) = P, also with a comment line at any position or before every line, with leading/trailing/multiple separator lines, and (single paragraphs) inside clearsign armor of several shapes. Each enumerated document carries TLC's expected parse; it is concretized (odd but Policy-valid names, values starting with ':' '#' '-', padded first lines, colons / PGP look-alikes / trailing blanks in continuation lines, UTF-8 whose bytes contain 0x85/0xa0), built as Deb822 objects, dumped and read back through iter_paragraphs / Deb822 / Dsc / Changes in six input forms. In the other direction random documents of up to 8 paragraphs are parsed prefix by prefix by the real code and TLC must explain every intermediate result with the automaton.",
    note="Small-scope for the exhaustive part; payload text is sampled. API surface: every public way of parsing and dumping (positional / keyword arguments, nine classes and their iter_paragraphs, thirty-one input forms (twenty-three of them kinds of file objects, five of these positioned after a header the caller has read), fields=, strict=, encoding=, every dump variant, copy / deepcopy / pickle, gpg_stripped_paragraph) is exercised on a rotating sample with the same expectations (table in the module docstring); the strictness flag is judged with TLC's parse under either value. Character stress: non-NFC twins, case hazards, invisible characters, line-final characters over every UTF-8 continuation byte. Whitespace-only lines in other positions, junk lines and stray PGP lines are modelled and replayed but only diagnostic. Unspecified (drift, reported to the maintainers): fields= in another spelling / leaving a paragraph empty, text input with a non-UTF-8 encoding, pickle protocols 0-1, copy.copy sharing storage. Observation (unspecified for C02, recorded as drift): Dsc/Changes given a list or file whose leading comment is followed by a blank line lose the paragraph. Trusted: TLC, the concretizer (line class known by construction), the projection items()/value.split('\\n')/dump(). Size stress in both legs: names up to 300 characters, lines around 4 KiB / 8 KiB / 64 KiB, documents of 1000 paragraphs, paragraphs of 100 fields, values of 100+ continuation lines (expected results from TLC's BigInvariant configuration / trace validation with sparse observation). Independence of calls (module Deb822ReaderCalls: memo / shared-object negative controls, LTS replayed; repeated parses with caller-side mutation, interleaved generators, kept-alive objects). Renderings of one live paragraph between arbitrary public mutators (module Deb822ReaderEdits: LTS replayed with every dump variant after every step, recorded histories validated, render-memo negative control). Transport (module Deb822Stream: the lines that reach the reader do not depend on how a file object cuts the byte stream into blocks; negative controls for a block reader that leaves an empty line behind, loses the unterminated last line, or splits blocks on their own): every case and every 5th recorded document is also read through fourteen more kinds of file objects (unbuffered / tiny-buffer files, short-read raw streams, gzip / bz2 / lzma wrappers, spooled files, text layers) with a line end steered to m*2^k-1 / m*2^k / m*2^k+1 (k = 9..17, in bytes and in characters) or a multi-byte character across m*2^k. Refused calls and calls failing inside a caller-supplied object (hardening round 6): refused assignments (item / setdefault / update / merge_fields with a value ending in a newline, holding an empty line or an unindented continuation line) to present and absent names, del / pop of absent names, sort_fields(key=f) with a raising / incomparable f, dump(fd) with a failing fd are ordinary steps of the edit histories in both legs (model: outcome on the edge, paragraph UNCHANGED, every listed field has a value); Deb822(x) / iter_paragraphs(x) with a line source that raises at the first / a middle / the last line are ordinary steps of the call behaviours (model: nothing handed out, nothing changed). The position of a file object (hardening round 7; Deb822Stream: ReadOnInvariant, PositionInvariant, negative control BufferShortcut = the next reader goes to the layer below the caller's buffer): file objects from which the caller has already read a header, and reading on through the same object after Deb822(f) (iter_paragraphs(f) / f.read() / f.readlines() / list(f)), in every leg. A wrong return value seen by an API probe (pop(absent, default)) is an outcome 'other:...' the model never produces, i.e. a violation, not a machinery failure. Fourteen spec-level negative controls and corrupted control traces must fail.",
    design="5 (C02)")

FORMS = ("str", "bytes", "lines_nl", "lines", "sio", "bio")
NEG_CONTROLS = [("TrimFirst", "FALSE", "RoundTrip"), ("CommentEndsValue", "TRUE", "CommentInvariant"),
                ("LeadingBlankSkipped", "FALSE", "LeadingBlankInvariant"),
                ("ArmorHeadersSkipped", "FALSE", "ArmorInvariant"), ("GpgMvLeadOK", "FALSE", "GpgMvAgrees")]
# (constant, invariant TLC must report) of spec/Deb822Stream.tla
STREAM_CONTROLS = [("KeepEmptyTail", "StreamParse"), ("DropPartialLast", "StreamParse"), ("PerChunkLines", "StreamLines"),
                   ("BufferShortcut", "PositionInvariant")]
GPGMV_ZONE = ("Dsc/Changes/BuildInfo given a list or file: leading comment line(s) directly followed by a "
              "blank line hide the paragraph (split_gpg_and_payload runs before _skip_useless_lines)")

# ------------------------------------------------------------------ concretization
KEY_POOL = ["Package", "Source", "Version", "Depends", "Description", "Maintainer", "X-Foo-Bar", "Build-Depends",
            "a", "Z9", "9lives", "Foo.Bar+baz", "~tilde", "k!ey", "A=B", "[x]", "@at", "semi;colon", "x#y", "x-",
            "per%cent", "{br}", "|pipe", "Q?", "under_score", "UPPER", "Hash", "Files-X", "m/n", "b*c", "'q'",
            '"dq"', "<lt>", "back\\slash", "^caret", "$dollar", "&amp", "(p)", "com,ma", "Comment", "`bt`", "0"]
KEY_FIRST = [chr(c) for c in range(0x21, 0x7f) if chr(c) not in ":#-"]
KEY_REST = [chr(c) for c in range(0x21, 0x7f) if chr(c) != ":"]
# names that the subclasses (Dsc, Changes, BuildInfo, PdiffIndex, Release, Sources) turn into structured values
MV_NAMES = {"files", "checksums-md5", "checksums-sha1", "checksums-sha256", "checksums-sha512", "md5sum", "sha1", "sha256",
            "sha512"} | {p + h + s for p in ("", "x-unmerged-") for h in ("sha1-", "sha256-")
                         for s in ("current", "download", "history", "patches")}
DATA_POOL = ["1.0-1", "foo (>= 1.0), bar | baz", ":colon-first", "#hash-first", "-dash", "a: b: c", "x\ty",
             "\u00e9 \u00e0 \u0105 \u2026", "\u4e2d\u6587\u30c6\u30ad\u30b9\u30c8", "\U0001d518\U0001d52b\U0001d526",
             "-----BEGIN PGP SIGNATURE-----", "Key: value", ".", "=", "a  b", "\u05e9\u05dc\u05d5\u05dd", "0",
             "http://x.org/?a=b#c", "\u00e0\u00a0x", "\\n literal", "ends:", "#", ":", "::", "-----END PGP SIGNATURE-----",
             "e\u0301 combining", "\U0001f600", "tab\tinside\tx", "Hash: SHA1", "x #not-a-comment", "~", "\u00df\u00a0\u00df",
             # character stress (notes/SIZE_STRESS.md part 2): not NFC/NFKC-stable text, case hazards, invisible
             # characters, non-BMP, white-space look-alikes inside the token
             "a\u030a e\u0301", "\u212b \u2126", "\uf9d0", "\ufb01n", "\uff21\uff42", "\u1100\u1161\u11a8", "\u0130stanbul \u0131",
             "Ma\u00dfe \u017ft \u03c3\u03c2", "\U00010400\U00010428", "\ufeffBOM-first", "mid\ufeffdle", "zw\u200dj\u200cnj",
             "soft\u00adhyphen", "\u200eltr\u200f \u202ertl", "\U0010ffff", "\u0301lone-mark", "nb\u00a0sp em\u2003sp id\u3000sp zw\u200bsp",
             "\u1e9e \u01c5", "a\u0308\u0323", "\u0041\u030a"]
ASCII_BODY = [chr(c) for c in range(0x21, 0x7f)] + [" ", " ", "\t"]
UNI_BODY = list("\u00e9\u00e0\u0105\u2026\u4e2d\u00df\u0416\u03a9\u00a0\u3042\u0301\u00ad\u200b\u200d\u200f\ufeff\u2003\u3000"
                "\u212b\u0130\u0131\u017f\ufb01") + ["\U0001f600", "\U0010ffff", "\U00010400"]
# precomposed / decomposed (or otherwise normalisation-equivalent, case-related) twins: put into the SAME document as
# different values -- a path that normalises or case-folds makes them collide
TWINS = [("\u00e9", "e\u0301"), ("\u00e5", "a\u030a"), ("\u00c5", "\u212b"), ("\u03a9", "\u2126"), ("\u985e", "\uf9d0"),
         ("fi", "\ufb01"), ("A", "\uff21"), ("\uac00", "\u1100\u1161"), ("ss", "\u00df"), ("i\u0307", "\u0130"), ("i", "\u0131"),
         ("s", "\u017f"), ("\u03c3", "\u03c2"), ("\U00010428", "\U00010400"), ("K", "\u212a"), ("\u1e9e", "\u00df")]
# line-final characters: U+0400..U+043F end in every UTF-8 continuation byte 0x80..0xBF (D0 80 .. D0 BF);
# line-initial characters: one per lead byte C2..DF, E0..EF, F0..F4
TAILS = [chr(0x0400 + i) for i in range(64)]
HEADS = ([bytes([b, 0xA1]).decode("utf-8") for b in range(0xC2, 0xE0)]
         + [bytes([b, 0x81 if b == 0xED else 0xA9, 0x80]).decode("utf-8") for b in range(0xE0, 0xF0)]
         + [bytes([b, 0x90 if b == 0xF0 else 0x80, 0x80, 0x80]).decode("utf-8") for b in range(0xF0, 0xF5)])
HEADS = [c for c in HEADS if not c.isspace() and c not in "\u2028\u2029"]


class Chars:
    """round-robin over TAILS / HEADS, so that every run ends lines in every continuation byte and starts
    tokens with every lead byte, whatever the seed"""

    def __init__(self, offset=0):
        self.t = offset * 5
        self.h = offset * 3
        self.final_bytes = set()

    def tail(self):
        c = TAILS[self.t % len(TAILS)]
        self.t += 1
        return c

    def head(self):
        c = HEADS[self.h % len(HEADS)]
        self.h += 1
        return c


CHARS = Chars()


def dress(rng, s, p_tail=0.3, p_head=0.12):
    """character stress at the ends of a token"""
    if rng.random() < p_tail:
        s = s + CHARS.tail()
    if rng.random() < p_head:
        s = CHARS.head() + s
    return s
COMMENT_POOL = ["#", "# comment", "#Key: value", "#\tx", "# -----BEGIN PGP SIGNED MESSAGE-----",
                "#-----END PGP SIGNATURE-----", "# \u00e9\u4e2d", "## x", "#Package: hidden", "# ", "#:", "#a:b"]
CONT_PREFIX = [" ", " ", "\t", "  ", " \t"]
CONT_SPECIAL = [" .", " # not a comment", " Key: value", " -----BEGIN PGP SIGNED MESSAGE-----",
                " -----END PGP SIGNATURE-----", " -----BEGIN PGP SIGNATURE-----", "\t.", " :", " x:", " #", "\t#x: y"]
PAD_L = ["", "", "", " ", "\t", "  "]
PAD_R = ["", "", "", " ", "\t", " \t ", "  "]
WS_POOL = [" ", "\t", "  ", " \t", "\t\t "]
JUNK_POOL = ["junk", "no colon here", "foo bar: baz", "=abcd", "iQEzBAEBCgAdFiEE", "\u00e9\u00e9", "x y"]
BEGIN_MSG = "-----BEGIN PGP SIGNED MESSAGE-----"
BEGIN_SIG = "-----BEGIN PGP SIGNATURE-----"
END_SIG = "-----END PGP SIGNATURE-----"
HDR_POOL = [("Hash", "SHA512"), ("Hash", "SHA256"), ("Charset", "UTF-8"), ("Comment", "signed"), ("Version", "GnuPG v2"),
            ("NotDashEscaped", "x")]
B64 = "ABCDEFGHIJKLMNOPQRSTUVWXYZabcdefghijklmnopqrstuvwxyz0123456789+/"
D1 = set("\r\v\f\x1c\x1d\x1e\x85\u2028\u2029\n")


def _body(rng, n):
    return "".join(rng.choice(UNI_BODY) if rng.random() < 0.15 else rng.choice(ASCII_BODY) for _ in range(n))


class Sizes:
    """size plan (notes/SIZE_STRESS.md): boundary lengths are handed out round-robin, so every run hits
    every neighbourhood whatever the seed; `huge` bounds the number of ~64 KiB lines per plan"""
    NAME = [33, 32, 31, 64, 65, 129, 257, 300, 63, 128, 256, 17, 16, 73, 81, 127, 255, 15, 9, 72]
    LINE = [4096, 8193, 1025, 257, 65536, 129, 4097, 8192, 65, 1024, 65537, 4095, 80, 33, 8191, 1023, 72, 65535,
            2, 7, 16, 17, 31, 32, 63, 64, 71, 73, 79, 81, 127, 128, 255, 256, 1, 8, 9, 15]

    def __init__(self, offset=0, huge=3, p_name=0.5, p_line=0.4):
        self.ni = offset
        self.li = offset
        self.huge = huge
        self.p_name, self.p_line = p_name, p_line
        self.used = {"name": set(), "line": set()}

    def name(self, rng):
        if rng.random() >= self.p_name:
            return None
        n = self.NAME[self.ni % len(self.NAME)]
        self.ni += 1
        self.used["name"].add(n)
        return n

    def line(self, rng):
        if rng.random() >= self.p_line:
            return None
        while True:
            n = self.LINE[self.li % len(self.LINE)]
            self.li += 1
            if n >= 65535:
                if self.huge <= 0:
                    continue
                self.huge -= 1
            self.used["line"].add(n)
            return n


def sized_text(rng, n):
    """n characters (every other time pure ASCII, so that n is also the byte length), no D1 character,
    no white space at the ends, no long runs of white space"""
    ascii_only = rng.random() < 0.5
    m = min(n, rng.randint(23, 61))
    chunk = "".join(rng.choice(ASCII_BODY) if ascii_only or rng.random() > 0.15 else rng.choice(UNI_BODY) for _ in range(m))
    s = (chunk * (n // m + 1))[:n]
    fix = lambda ch: ch if not ch.isspace() else "x"
    last = CHARS.tail() if not ascii_only and rng.random() < 0.5 else fix(s[-1])
    return fix(s[0]) + s[1:-1] + last if n > 1 else fix(s[0])


def gen_data(rng, canonical=False, size=None):
    """trimmed first-line data: non-empty, no (Unicode) white space at either end, no D1 character"""
    if size:
        return sized_text(rng, size)
    if canonical:
        return "v%d" % rng.randrange(1000)
    if rng.random() < 0.6:
        return dress(rng, rng.choice(DATA_POOL))
    while True:
        s = _body(rng, rng.randint(1, 12))
        if s and not s[0].isspace() and not s[-1].isspace() and not (set(s) & D1):
            return dress(rng, s)


def gen_cont(rng, canonical=False, size=None):
    """continuation line: blank/tab, then text with a non-white character (trailing blanks kept)"""
    if size:
        return rng.choice(" \t") + sized_text(rng, max(1, size - 1))
    if canonical:
        return " c%d" % rng.randrange(1000)
    r = rng.random()
    if r < 0.3:
        return rng.choice(CONT_SPECIAL)
    if r < 0.5:     # a line-final multi-byte character (no trailing blank after it)
        return rng.choice(CONT_PREFIX) + gen_data(rng) + CHARS.tail()
    return rng.choice(CONT_PREFIX) + gen_data(rng) + rng.choice(["", "", "", " ", "\t", "  "])


def gen_key(rng, taken, canonical=False, avoid_mv=True, size=None):
    for _ in range(1000):
        if size:
            k = rng.choice(KEY_FIRST) + "".join(rng.choice(KEY_REST) for _ in range(size - 1))
        elif canonical or rng.random() < 0.7:
            k = rng.choice(KEY_POOL)
        else:
            k = rng.choice(KEY_FIRST) + "".join(rng.choice(KEY_REST) for _ in range(rng.randint(0, 8)))
        if k.lower() in taken or (avoid_mv and k.lower() in MV_NAMES):
            continue
        return k
    raise core.MachineryError("cannot draw a fresh field name")


def gen_comment(rng):
    c = rng.choice(COMMENT_POOL) if rng.random() < 0.8 else "#" + _body(rng, rng.randint(0, 8)).replace("\x85", "")
    return c + CHARS.tail() if rng.random() < 0.3 else c


def L(c, text, k="", t="", sp=False):
    return {"c": c, "k": k, "t": t, "sp": sp, "text": text}


def single_line(rng, key, data, canonical=False, dumped=False):
    if dumped:
        return L("Single", "%s: %s" % (key, data), key, data, True)
    sep = " " if canonical else rng.choice(["", " ", " ", "\t", "  ", " \t"])
    trail = "" if canonical else rng.choice(PAD_R)
    return L("Single", "%s:%s%s%s" % (key, sep, data, trail), key, data, True)


def multi_line(rng, key, canonical=False, dumped=False):
    trail = "" if (canonical or dumped) else rng.choice(["", "", "", " ", "\t", "  "])
    return L("Multi", "%s:%s" % (key, trail), key, "", False)


def armor_lines(rng, body, shape):
    """clearsign envelope (same layout as Armor(ls, a) of the specification)"""
    out = [L("PgpBeginMsg", BEGIN_MSG)]
    hdrs = [HDR_POOL[0], HDR_POOL[2]] if shape["nh"] == 2 else [rng.choice(HDR_POOL[:2])]
    for i in range(shape["nh"]):
        out.append(L("ArmorHeader", "%s: %s" % hdrs[i], hdrs[i][0], hdrs[i][1], True))
    out.append(L("Blank", ""))
    out += body
    if shape["b"]:
        out.append(L("Blank", ""))
    out.append(L("PgpBeginSig", BEGIN_SIG))
    if shape["sh"]:
        h = rng.choice(HDR_POOL[3:5])
        out.append(L("ArmorHeader", "%s: %s" % h, h[0], h[1], True))
    if shape["sb"]:
        out.append(L("Blank", ""))
    out.append(L("Junk", "".join(rng.choice(B64) for _ in range(64))))
    out.append(L("Junk", "=" + "".join(rng.choice(B64) for _ in range(4))))
    out.append(L("PgpEnd", END_SIG))
    return out


def check_domain(lines):
    """harness self-check: a concretized line really belongs to the class it is logged with"""
    for ln in lines:
        x, c = ln["text"], ln["c"]
        ok = not (set(x) & D1)
        if c == "Blank":
            ok = ok and x == ""
        elif c == "WsOnly":
            ok = ok and x != "" and x.strip(" \t") == ""
        elif c == "Comment":
            ok = ok and x[:1] == "#"
        elif c in ("Single", "Multi", "ArmorHeader"):
            k = ln["k"]
            ok = ok and x.startswith(k + ":") and k and k[0] not in "#-" and all("!" <= ch <= "~" and ch != ":" for ch in k)
            rest = x[len(k) + 1:]
            if c == "Multi":
                ok = ok and rest.strip(" \t") == ""
            else:
                ok = ok and rest.strip(" \t") == ln["t"] and ln["t"] and not ln["t"][0].isspace() and not ln["t"][-1].isspace()
        elif c == "Cont":
            ok = ok and x[:1] in (" ", "\t") and x.strip() != "" and ln["t"] == x
        elif c == "Junk":
            ok = ok and x[:1] not in (" ", "\t", "#", "") and not x.startswith("-----") and ":" not in x.split(" ")[0]
        elif c == "PgpBeginMsg":
            ok = ok and x == BEGIN_MSG
        elif c == "PgpBeginSig":
            ok = ok and x == BEGIN_SIG
        elif c == "PgpEnd":
            ok = ok and x == END_SIG
        if not ok:
            raise core.MachineryError("concretizer produced %r for class %s" % (x, c))


# ------------------------------------------------------------------ driving the real code

# secondary input forms: other iterables, real files, and every other kind of file object (transport_c02.KINDS:
# unbuffered file, BufferedReader over short reads, raw stream, gzip / bz2 / lzma wrappers, spooled files, text layers)
# POSITIONED file objects (spec/Deb822Stream.tla: PositionInvariant): the file holds a header -- text that is not part of the
# document -- in front of the document, and the caller has READ that header through the file object's own API (readline() /
# next() / read(n)) before he hands the object over: the document is what the object delivers from its position on
POS_FORMS = ("file_t+head", "file_b+head", "text_short+head", "gzip_t+head", "buf_short+head")
XFORMS = ("gen", "tuple", "blines", "blines_nonl", "file_t", "file_b") + tp.KINDS + POS_FORMS
HEAD_POOL = (["# generated index, format 1"], ["junk header"], ["Format: 1.0", ""], ["#"], ["=" * 70, "# \u00e9\u4e2d \U0001f600"],
             ["H\u00e9ader: \u00e0", "  cont", ""], ["#" + "0123456789abcdef" * 513], ["Origin: x", "Label: y", "", "# c"])
_TEXT_BASES = ("file_t", "sio") + tp.TEXT_KINDS
_SCRATCH = []


def _scratch_dir():
    import atexit
    import shutil
    import tempfile
    if not _SCRATCH or _SCRATCH[0][1] != os.getpid():
        if os.environ.get("C02_SCRATCH"):        # the run's work directory (removed by the harness at exit)
            d = os.path.join(os.environ["C02_SCRATCH"], "files-%d" % os.getpid())
            os.makedirs(d, exist_ok=True)
        else:
            base = os.environ.get("VERIF_SCRATCH") or os.path.join(core.VERIF, ".work")
            os.makedirs(base, exist_ok=True)
            d = tempfile.mkdtemp(prefix="C02-files-", dir=base)
            atexit.register(shutil.rmtree, d, True)
        _SCRATCH[:] = [(d, os.getpid())]
    return _SCRATCH[0][0]


def _scratch_file(data):
    d = _scratch_dir()
    _SCRATCH.append(None)           # several files may be open at the same time: a new name per call, 64 names recycled
    path = os.path.join(d, "doc-%d" % (len(_SCRATCH) % 64))
    with open(path, "wb") as f:
        f.write(data)
    return path


def make_input(form, texts, final_nl=True, enc="utf-8"):
    text = "\n".join(texts) + ("\n" if texts and final_nl else "")
    if form == "str":
        return text
    if form == "bytes":
        return text.encode(enc)
    if form == "lines_nl":
        return [t + "\n" for t in texts[:-1]] + [texts[-1] + ("\n" if final_nl else "")] if texts else []
    if form == "lines":
        return list(texts)
    if form == "sio":
        return io.StringIO(text)
    if form == "bio":
        return io.BytesIO(text.encode(enc))
    if form == "gen":
        return (t + "\n" for t in list(texts))
    if form == "tuple":
        return tuple(t + "\n" for t in texts)
    if form == "blines":
        return [(t + "\n").encode(enc) for t in texts]
    if form == "blines_nonl":
        return [t.encode(enc) for t in texts]
    if form == "file_b":
        return open(_scratch_file(text.encode(enc)), "rb")
    if form == "file_t":
        return open(_scratch_file(text.encode(enc)), "r", encoding=enc, newline="\n")
    if form in tp.KINDS:
        return tp.open_kind(form, text.encode(enc), enc, _scratch_file, _scratch_dir())
    if form in POS_FORMS:
        return positioned_input(form[:-len("+head")], texts, final_nl, enc)
    raise AssertionError(form)


def positioned_input(base, texts, final_nl=True, enc="utf-8"):
    """a file object of kind `base` over header + document, the header already read by the caller (whole lines, through
    readline() / next() / read(n), rotating); which header and which way depends on the document only (replayable)"""
    sel = len(texts) + sum(len(t) for t in texts[:3])
    head = HEAD_POOL[sel % len(HEAD_POOL)]
    try:
        "\n".join(head).encode(enc)
    except UnicodeError:
        head = HEAD_POOL[sel % 4]
    htext = "".join(h + "\n" for h in head)
    text = "\n".join(texts) + ("\n" if texts and final_nl else "")
    data = (htext + text).encode(enc)
    if base == "file_b":
        x = open(_scratch_file(data), "rb")
    elif base == "file_t":
        x = open(_scratch_file(data), "r", encoding=enc, newline="\n")
    else:
        x = tp.open_kind(base, data, enc, _scratch_file, _scratch_dir())
    want = htext if base in _TEXT_BASES else htext.encode(enc)
    way = (sel // len(HEAD_POOL)) % 3
    if way == 0:
        got = [x.readline() for _ in head]
    elif way == 1:
        got = [next(x) for _ in head]
    else:
        got = []
        while sum(map(len, got)) < len(want):
            piece = x.read(len(want) - sum(map(len, got)))
            if not piece:
                break
            got.append(piece)
    if want[:0].join(got) != want:       # the FILE OBJECT (not the library) misbehaves: the harness cannot go on
        raise core.MachineryError("positioned input <%s+head>: the header read back is %r, written %r" % (base, got, want))
    return x


def close_input(x):
    if hasattr(x, "close"):
        try:
            x.close()
        except Exception:
            pass


def _cls(name):
    import debian.deb822 as m
    return getattr(m, name)


def read_iter(clsname, x, strict=None):
    """list(cls.iter_paragraphs(x, use_apt_pkg=False)) as [[(k, v)]], or ('EXC', text)"""
    try:
        kw = {"strict": strict} if strict is not None else {}
        ps = list(_cls(clsname).iter_paragraphs(x, use_apt_pkg=False, **kw))
        return [[(k, p[k]) for k in p] for p in ps], ps
    except Exception as e:          # any exception of the code under test is an observation
        return ("EXC", "%s: %s" % (type(e).__name__, e)), None


def read_one(clsname, x):
    try:
        p = _cls(clsname)(x)
        return [(k, p[k]) for k in p], p
    except Exception as e:
        return ("EXC", "%s: %s" % (type(e).__name__, e)), None


def dump_all(ps):
    try:
        return "\n".join(p.dump() for p in ps)
    except Exception as e:
        return ("EXC", "%s: %s" % (type(e).__name__, e))


def gpgmv_zone(lines):
    """leading comment line(s) directly followed by a blank line (before any other line)"""
    seen_comment = False
    for ln in lines:
        if ln["c"] == "Comment":
            seen_comment = True
        elif ln["c"] in ("Blank", "WsOnly"):
            if seen_comment:
                return True
        else:
            return False
    return False


def has_ws(lines):
    return any(ln["c"] == "WsOnly" for ln in lines)


def brief(got, want):
    """compact description of a mismatch between two results (large documents)"""
    a, b = repr(got), repr(want)
    if len(a) + len(b) < 1500 or isinstance(got, tuple) or not isinstance(got, list) or not isinstance(want, list):
        return "%s, specification: %s" % (a[:3000], b[:3000])
    if len(got) != len(want):
        head = "%d items, specification: %d items; " % (len(got), len(want))
    else:
        head = "%d items; " % len(got)
    for i, (x, y) in enumerate(zip(got, want)):
        if x != y:
            if isinstance(x, list) and isinstance(y, list) and x and isinstance(x[0], tuple):
                return head + "first difference in paragraph %d: %s" % (i + 1, brief(x, y))
            return head + "first difference at item %d: %s, specification: %s" % (i + 1, repr(x)[:700], repr(y)[:700])
    i = min(len(got), len(want))
    return head + "first difference at item %d: %s, specification: %s" % (
        i + 1, repr(got[i])[:700] if i < len(got) else "<missing>", repr(want[i])[:700] if i < len(want) else "<nothing>")


def run_doc(job):
    """execute one concrete document through one API in one form; returns None or a message.
    job: {lines:[text], form, final_nl, api, expected:[[[k,v]]], expected_dump}"""
    texts, form, api = job["lines"], job["form"], job["api"]
    if api == "leak":
        return run_leak(job)
    if api == "keepalive":
        return run_keepalive(job)
    if api == "surface":
        return run_surface(job)
    if api == "readon":
        return run_readon(job)
    x = make_input(form, texts, job.get("final_nl", True))
    try:
        return _run_doc_on(job, x)
    finally:
        close_input(x)


def run_readon(job):
    """Deb822(f) takes ONE paragraph from a file object; the caller reads on through the same object -- with
    iter_paragraphs(f), or f.read() / f.readlines() / list(f) parsed afterwards: first + rest = the document
    (ReadOnInvariant: the rest parses to Tail(P); PositionInvariant: the rest is what the object delivers)"""
    form, rest = job["form"], job["rest"]
    exp = [[tuple(kv) for kv in p] for p in job["expected"]]
    x = make_input(form, job["lines"], job.get("final_nl", True))
    try:
        first, _ = read_one("Deb822", x)
        try:
            if rest in ("iter", "iter_cls"):
                later, _ = read_iter("Deb822" if rest == "iter" else "Release", x)
            else:
                data = x.read() if rest == "read" else x.readlines() if rest == "readlines" else list(x)
                later, _ = read_iter("Deb822", data)
        except Exception as e:          # the file object is unusable after the library has used it: an observation
            later = ("EXC", "%s: %s" % (type(e).__name__, e))
        got = [first] + later if isinstance(later, list) and not isinstance(first, tuple) else (first, later)
        if got != exp:
            return ("f = <%s>; Deb822(f) followed by %s gives %s" % (
                form, {"iter": "list(Deb822.iter_paragraphs(f))", "iter_cls": "list(Release.iter_paragraphs(f))",
                       "read": "iter_paragraphs(f.read())", "readlines": "iter_paragraphs(f.readlines())",
                       "list": "iter_paragraphs(list(f))"}[rest], brief(got, exp)))
        return None
    finally:
        close_input(x)


def _run_doc_on(job, x):
    form, api = job["form"], job["api"]
    exp = [[tuple(kv) for kv in p] for p in job["expected"]]
    if api == "iter":
        got, ps = read_iter("Deb822", x)
        if got != exp:
            return "list(Deb822.iter_paragraphs(<%s>)) = %s" % (form, brief(got, exp))
        d = dump_all(ps)
        if job.get("expected_dump") is not None and d != job["expected_dump"]:
            return "dump() of the re-parsed paragraphs (<%s>) = %s, first dump %s" % (form, repr(d)[:1500], repr(job["expected_dump"])[:1500])
        return None
    clsname = {"one": "Deb822", "Dsc": "Dsc", "Changes": "Changes", "Dsc.iter": "Dsc", "Changes.iter": "Changes"}[api]
    if api.endswith(".iter"):
        got, ps = read_iter(clsname, x)
        want = exp
    else:
        got, p = read_one(clsname, x)
        ps = [p]
        want = exp[0] if exp else []
    if got != want:
        return "%s(<%s>) = %s" % (api if api != "one" else "Deb822", form, brief(got, want))
    if job.get("expected_dump") is not None and want:
        d = dump_all(ps)
        if d != job["expected_dump"]:
            return "dump() of the re-parsed %s (<%s>) = %s, first dump %s" % (clsname, form, repr(d)[:1500], repr(job["expected_dump"])[:1500])
    return None


# ------------------------------------------------------------------ independence of calls
NEW_KEY = "Zz-New"


def mutate(p, kind="heavy"):
    """what a CALLER may do to a paragraph he got (Mut(val, kind) of Deb822ReaderCalls);
    exceptions here concern the mapping (C09), not the reader"""
    try:
        keys = list(p)
        if kind in ("heavy", "poison"):
            for k in keys:
                p[k] = "poison"
        if kind in ("heavy", "del") and keys:
            del p[keys[0]]
        if kind in ("heavy", "add"):
            p[NEW_KEY] = "x"
        if kind == "heavy":
            p.order_first(NEW_KEY)
        if kind == "first" and keys:
            p.order_first(keys[-1])
        return None
    except Exception as e:
        return "%s: %s" % (type(e).__name__, e)


def items_of(p):
    try:
        return [(k, p[k]) for k in p]
    except Exception as e:
        return ("EXC", "%s: %s" % (type(e).__name__, e))


def run_leak(job):
    """the result of a parse must not depend on earlier parses of the same text, on what the caller
    did to earlier results, nor on other iterations in progress.
    job: {lines, form, form2, expected, expected_dump, other_lines, other_expected}"""
    texts, fa, fb = job["lines"], job["form"], job["form2"]
    exp = [[tuple(kv) for kv in p] for p in job["expected"]]
    oth = job.get("other_lines")
    oexp = [[tuple(kv) for kv in p] for p in job.get("other_expected") or []]
    # (2) + (4): iter_paragraphs three times, the caller ruins every result in between
    seen = []
    for rnd, form in enumerate((fa, fa, fb)):
        got, ps = read_iter("Deb822", make_input(form, texts))
        if got != exp:
            return ("parse #%d of the same text (<%s>, earlier results mutated by the caller): "
                    "list(Deb822.iter_paragraphs(x)) = %s" % (rnd + 1, form, brief(got, exp)))
        if any(a is b for a in ps for b in seen):
            return "parse #%d of the same text (<%s>) returned a paragraph object that was returned before" % (rnd + 1, form)
        if len(set(map(id, ps))) != len(ps):
            return "iter_paragraphs(<%s>) yielded the same object for two paragraphs" % form
        if rnd == 2:
            d = dump_all(ps)
            if job.get("expected_dump") is not None and d != job["expected_dump"]:
                return "dump() after earlier results were mutated (<%s>) = %r, first dump %r" % (form, d, job["expected_dump"])
        if len(ps) >= 2:
            mutate(ps[0])
            rest = [items_of(p) for p in ps[1:]]
            if rest != exp[1:]:
                return ("mutating the first paragraph of list(iter_paragraphs(<%s>)) changed the following ones: %r, "
                        "specification: %r" % (form, rest, exp[1:]))
        for p in ps:
            mutate(p)
        seen += ps
    # (2): Deb822(x) three times
    if exp:
        for rnd, form in enumerate((fa, fa, fb)):
            got, p = read_one("Deb822", make_input(form, texts))
            if got != exp[0]:
                return ("parse #%d of the same text (<%s>, earlier results mutated by the caller): Deb822(x) = %r, "
                        "specification: %r" % (rnd + 1, form, got, exp[0]))
            if any(p is b for b in seen):
                return "Deb822(<%s>) #%d returned an object that was returned before" % (form, rnd + 1)
            mutate(p)
            seen.append(p)
    # (3): two generators in progress at the same time
    try:
        from debian.deb822 import Deb822
        it1 = Deb822.iter_paragraphs(make_input(fa, texts), use_apt_pkg=False)
        head = [next(it1)] if exp else []
        o_lines, o_exp = (oth, oexp) if oth is not None else (texts, exp)
        it2 = Deb822.iter_paragraphs(make_input(fb, o_lines), use_apt_pkg=False)
        second = []
        for p in it2:
            second.append(p)
            if len(second) == 1 and exp:
                head += [x for _, x in zip(range(1), it1)]      # alternate once
        first = head + list(it1)
        got1, got2 = [items_of(p) for p in first], [items_of(p) for p in second]
    except Exception as e:
        return "interleaved iter_paragraphs generators raised %s: %s" % (type(e).__name__, e)
    if got1 != exp or got2 != o_exp:
        return ("two iter_paragraphs generators in progress (<%s> / <%s>): first gives %s; second gives %s"
                % (fa, fb, brief(got1, exp), brief(got2, o_exp)))
    if len(set(map(id, first + second))) != len(first + second):
        return "two iter_paragraphs generators in progress yielded a shared object"
    job["_keep"] = (first, exp)
    return None


def run_keepalive(job):
    """objects parsed earlier stay what they were while other documents are parsed"""
    exp = [[tuple(kv) for kv in p] for p in job["expected"]]
    got, ps = read_iter("Deb822", make_input(job["form"], job["lines"]))
    if got != exp:
        return "list(Deb822.iter_paragraphs(<%s>)) = %r, specification: %r" % (job["form"], got, exp)
    for form in FORMS:
        read_iter("Deb822", make_input(form, job["then_lines"]))
        read_one("Deb822", make_input(form, job["then_lines"]))
    now = [items_of(p) for p in ps]
    if now != exp:
        return "paragraphs parsed earlier changed while another document was parsed: %r, were %r" % (now, exp)
    return None


# ------------------------------------------------------------------ API surface (notes/API_SURFACE.md)
CLASSES = ("Deb822", "Dsc", "Changes", "BuildInfo", "PdiffIndex", "Release", "Sources", "Packages", "Removals")
GPG_CLASSES = ("Dsc", "Changes", "BuildInfo", "Sources")          # raw signature pre-pass for non-str/bytes input
PLAIN_CLASSES = tuple(c for c in CLASSES if c not in GPG_CLASSES)
ALL_FORMS = FORMS + XFORMS
WS_KEY = "whitespace-separates-paragraphs"
CLONES = ("copy", "copy.copy", "deepcopy", "pickle0", "pickle1", "pickle2", "pickle3", "pickle4", "pickle5")


def effective_strict(v):
    """Sources / Packages .iter_paragraphs default to the lenient setting, everything else to the strict one"""
    if v.get("strict") is not None:
        return v["strict"]
    return not (v["via"] == "iter" and v["cls"] in ("Sources", "Packages"))


def call_parse(v, texts):
    """one public way of parsing.  v: cls, via (ctor | iter), style (pos | kw | kwseq), form, final_nl, fields,
    encoding, strict (None | True | False), use_apt_pkg, shared_storage, input_encoding.
    returns (items or list of items or ('EXC', text), objects)"""
    import warnings
    x = None
    try:
        cls = _cls(v["cls"])
        x = make_input(v["form"], texts, v.get("final_nl", True), v.get("input_encoding") or "utf-8")
        fields, enc = v.get("fields"), v.get("encoding")
        strict = None if v.get("strict") is None else {WS_KEY: v["strict"]}
        style = v.get("style", "kw")
        with warnings.catch_warnings():
            warnings.simplefilter("ignore")
            if v["via"] == "ctor":
                if style == "pos":
                    p = cls(x, fields, None, enc or "utf-8", strict)
                else:
                    kw = {}
                    if fields is not None:
                        kw["fields"] = fields
                    if enc is not None:
                        kw["encoding"] = enc
                    if strict is not None:
                        kw["strict"] = strict
                    p = cls(sequence=x, **kw) if style == "kwseq" else cls(x, **kw)
                return items_of(p), [p]
            if style == "pos":
                it = cls.iter_paragraphs(x, fields, v.get("use_apt_pkg", False), v.get("shared_storage", False),
                                         enc or "utf-8", strict)
            else:
                kw = {"use_apt_pkg": v.get("use_apt_pkg", False)}
                if fields is not None:
                    kw["fields"] = fields
                if enc is not None:
                    kw["encoding"] = enc
                if strict is not None:
                    kw["strict"] = strict
                if v.get("shared_storage"):
                    kw["shared_storage"] = True
                it = cls.iter_paragraphs(sequence=x, **kw) if style == "kwseq" else cls.iter_paragraphs(x, **kw)
            ps = list(it)
            return [items_of(p) for p in ps], ps
    except Exception as e:
        return ("EXC", "%s: %s" % (type(e).__name__, e)), None
    finally:
        close_input(x)


def vdesc(v):
    return "%s%s(<%s>%s) [%s%s%s%s]" % (v["cls"], ".iter_paragraphs" if v["via"] == "iter" else "", v["form"],
                                         "" if v.get("final_nl", True) else ", no final newline", v.get("style", "kw"),
                                         "" if v.get("fields") is None else ", fields=%r" % (v["fields"],),
                                         "" if v.get("encoding") is None else ", encoding=%r" % v["encoding"],
                                         "" if v.get("strict") is None else ", strict={%s: %s}" % (WS_KEY, v["strict"]))


def dump_variants(p, want, enc="utf-8", files=False):
    """every public way of dumping one paragraph; returns None or a message"""
    got = []
    try:
        got.append(("dump()", p.dump(), want))
        b = io.BytesIO()
        r = p.dump(b)
        got.append(("dump(BytesIO)", b.getvalue(), want.encode(enc)))
        got.append(("dump(BytesIO) return value", r, None))
        b = io.BytesIO()
        p.dump(b, "utf-8")
        got.append(("dump(BytesIO, 'utf-8')", b.getvalue(), want.encode("utf-8")))
        b = io.BytesIO()
        p.dump(fd=b, encoding="utf-8", text_mode=False)
        got.append(("dump(fd=BytesIO, encoding='utf-8', text_mode=False)", b.getvalue(), want.encode("utf-8")))
        t = io.StringIO()
        p.dump(t, text_mode=True)
        got.append(("dump(StringIO, text_mode=True)", t.getvalue(), want))
        t = io.StringIO()
        p.dump(t, None, True)
        got.append(("dump(StringIO, None, True)", t.getvalue(), want))
        got.append(("str(d)", str(p), want))
        got.append(("bytes(d)", bytes(p), want.encode(enc)))
        got.append(("d.__unicode__()", p.__unicode__(), want))
        try:
            l1 = want.encode("latin-1")
        except UnicodeEncodeError:
            l1 = None
        if l1 is not None:
            b = io.BytesIO()
            p.dump(b, encoding="latin-1")
            got.append(("dump(BytesIO, encoding='latin-1')", b.getvalue(), l1))
        if files:
            path = _scratch_file(b"")
            with open(path, "wb") as f:
                p.dump(f)
            got.append(("dump(<binary file>)", open(path, "rb").read(), want.encode(enc)))
            with open(path, "w", encoding="utf-8", newline="\n") as f:
                p.dump(f, text_mode=True)
            got.append(("dump(<text file>, text_mode=True)", open(path, "rb").read(), want.encode("utf-8")))
        got.append(("[(k, d.get_as_string(k)) for k in d]", [(k, p.get_as_string(k)) for k in p], items_of(p)))
    except Exception as e:
        return "%s after %s raised %s: %s" % ("dump variant", got[-1][0] if got else "nothing", type(e).__name__, e)
    for name, g, w in got:
        if g != w:
            return "%s = %s, dump() of the expected paragraph: %s" % (name, repr(g)[:1200], repr(w)[:1200])
    return None


def clone(p, how):
    import copy
    import pickle
    if how == "copy":
        return p.copy()
    if how == "copy.copy":
        return copy.copy(p)
    if how == "deepcopy":
        return copy.deepcopy(p)
    return pickle.loads(pickle.dumps(p, int(how[6:])))


def run_surface(job):
    """one probe of the API surface; job: what, lines, expected, v (parse variant) ..."""
    what, texts, v = job["what"], job["lines"], job["v"]
    exp = [[tuple(kv) for kv in p] for p in job["expected"]]
    if what == "gpgstrip":
        try:
            cls = _cls(v["cls"])
            outs = []
            for form in ("lines_nl", "blines", "lines", "gen"):
                x = make_input(form, texts)
                strict = None if v.get("strict") is None else {WS_KEY: v["strict"]}
                if v.get("style") == "pos":
                    outs.append(("%s.gpg_stripped_paragraph(<%s>, strict)" % (v["cls"], form), cls.gpg_stripped_paragraph(iter(x), strict)))
                elif v.get("style") == "kw":
                    outs.append(("%s.split_gpg_and_payload(<%s>)[1]" % (v["cls"], form), cls.split_gpg_and_payload(iter(x), strict=strict)[1]))
                else:
                    outs.append(("%s.gpg_stripped_paragraph(<%s>)" % (v["cls"], form), cls.gpg_stripped_paragraph(iter(x))))
        except Exception as e:
            return "gpg_stripped_paragraph raised %s: %s" % (type(e).__name__, e)
        want = [t.encode("utf-8") for t in job["payload"]]
        for name, got in outs:
            if list(got) != want:
                return "%s = %s" % (name, brief(list(got), want))
        return None
    got, objs = call_parse(v, texts)
    want = exp if v["via"] == "iter" else (exp[0] if exp else [])
    if got != want:
        return "%s = %s" % (vdesc(v), brief(got, want))
    if what == "parse":
        return None
    dumps = job.get("dumps") or []
    enc = v.get("encoding") or "utf-8"
    if what == "dump":
        for i, p in enumerate(objs):
            m = dump_variants(p, dumps[i], enc, files=job.get("files", False))
            if m:
                return "paragraph %d parsed by %s: %s" % (i + 1, vdesc(v), m)
        return None
    if what == "clone":
        # two live objects made through DIFFERENT entry points, then copied / pickled
        got2, objs2 = call_parse(job["v2"], texts)
        want2 = exp if job["v2"]["via"] == "iter" else exp[0]
        if got2 != want2:
            return "%s = %s" % (vdesc(job["v2"]), brief(got2, want2))
        a = objs[0]
        b = objs2[0]
        how = job["how"]
        try:
            c = clone(a, how)
            c2 = clone(b, job["how2"])
        except Exception as e:
            if "pickle0" in (how, job["how2"]) or "pickle1" in (how, job["how2"]):
                # UNSPECIFIED (observation for the maintainers): pickle protocols 0 and 1 cannot serialise the
                # case-insensitive key strings (__slots__ without __getstate__); protocols 2..5 are judged
                job["_unspecified"] = "pickle protocol 0/1: %s: %s" % (type(e).__name__, e)
                return None
            return "%s of a paragraph parsed by %s raised %s: %s" % (how, vdesc(v), type(e).__name__, e)
        for name, o, src in (("%s of the result of %s" % (how, vdesc(v)), c, a), ("%s of the result of %s" % (job["how2"], vdesc(job["v2"])), c2, b)):
            if type(o) is not type(src):
                return "%s is a %s, the original a %s" % (name, type(o).__name__, type(src).__name__)
            if items_of(o) != exp[0]:
                return "%s shows %s" % (name, brief(items_of(o), exp[0]))
            m = dump_variants(o, dumps[0], enc)
            if m:
                return "%s: %s" % (name, m)
        mutate(c)
        mutate(b)
        for name, o, h in (("the original after its %s was mutated" % how, a, how),
                           ("the %s after its original was mutated" % job["how2"], c2, job["how2"])):
            if items_of(o) != exp[0]:
                if h == "copy.copy":
                    # UNSPECIFIED (observation): copy.copy() is shallow and shares the field storage with the
                    # original, unlike d.copy(); only copy(), deepcopy and pickle are judged for independence
                    job["_unspecified"] = "copy.copy shares the field storage with the original"
                    return None
                return "%s shows %s" % (name, brief(items_of(o), exp[0]))
        m = dump_variants(a, dumps[0], enc) or dump_variants(c2, dumps[0], enc)
        if m:
            return "after mutating the other object: %s" % m
        return None
    return "unknown probe %r" % what


def latin1_text(rng, cont=False):
    """latin-1 text (for documents parsed with encoding='latin-1'): no C1 controls (U+0085 is a D1 character)"""
    pool = [chr(c) for c in range(0x21, 0x7f)] + [chr(c) for c in range(0xa1, 0x100)] * 2 + [" ", "\xa0", "\t"]
    while True:
        body = "".join(rng.choice(pool) for _ in range(rng.randint(1, 10))) + chr(0xa1 + rng.randrange(0x5f))
        if not body[0].isspace() and not body[-1].isspace():
            return (rng.choice(" \t") + body) if cont else body


def surface_jobs(rng, idx, case, conc, model, exp_json, dumps, quick, armor_hdrs, armor_fields, sig_bools):
    """probes of the secondary entry points for this case (rotating with the case index, so that a quick run
    goes through every class / call style / input form / dump variant / clone operation many times).
    yields (job, diagnostic)"""
    texts = [ln["text"] for ln in model]
    np_ = len(exp_json)
    if np_ == 0:
        return
    nfields = sum(len(p) for p in case["doc"])
    base = {"api": "surface", "lines": texts, "expected": exp_json, "variant": "surface"}

    def variant(n, via, classes=CLASSES, **kw):
        cls = classes[n % len(classes)]
        form = ALL_FORMS[(n * 5 + idx) % len(ALL_FORMS)]
        if cls in GPG_CLASSES and (via == "iter" or form not in ("str", "bytes")) and (np_ > 1 or kw.get("ws")):
            form, via = ("str", "bytes")[n % 2], "ctor"      # keep to what TLC has checked for the signature pre-pass
        kw.pop("ws", None)
        v = {"cls": cls, "via": via, "style": ("pos", "kw", "kwseq")[(n + idx // 3) % 3], "form": form,
             "use_apt_pkg": bool((n + idx) % 2), "shared_storage": bool((n // 2) % 2),
             "encoding": (None, "utf-8", "UTF-8")[(n + idx // 2) % 3], "strict": (None, True, False)[(n + idx // 5) % 3],
             "final_nl": not (form in STREAM_FORMS and texts[-1] != "" and n % 4 == 1)}
        v.update(kw)
        return v

    # A. the same document through another class / call style / input form: same paragraphs
    yield dict(base, what="parse", v=variant(idx, "ctor")), False
    yield dict(base, what="parse", v=variant(idx * 7 + 3, "iter", PLAIN_CLASSES if np_ > 1 else CLASSES)), False
    # B. every way of dumping the parsed paragraphs
    yield dict(base, what="dump", dumps=dumps, files=(idx % 5 == 0),
               v=variant(idx + 4, "iter", PLAIN_CLASSES if np_ > 1 else CLASSES)), False
    # C. copy / deepcopy / pickle of objects made through two different entry points, both alive
    if idx % 2 == 0:
        yield dict(base, what="clone", dumps=dumps, how=CLONES[(idx // 2) % len(CLONES)], how2=CLONES[(idx // 2 + 4) % len(CLONES)],
                   v=variant(idx + 1, "ctor"), v2=variant(idx + 6, "iter", PLAIN_CLASSES if np_ > 1 else CLASSES)), False
    # D. fields=[...]: exactly the named fields, as long as every paragraph keeps one (else: unspecified)
    names = sorted({f["k"] for p in case["doc"] for f in p})
    if names and nfields <= 4:
        w = set(rng.sample(names, rng.randint(1, len(names))))
        kept = [[f for f in p if f["k"] in w] for p in case["parse"]]
        fexp = [[[conc.key[f["k"]], conc.value(f, False)] for f in p] for p in kept]
        unspecified = any(not p for p in kept)
        wanted = [conc.key[k] for k in sorted(w)]
        rng.shuffle(wanted)
        for via in ("ctor", "iter"):
            yield dict(base, what="parse", expected=fexp if not unspecified else exp_json,
                       v=variant(idx + (2 if via == "ctor" else 5), via, PLAIN_CLASSES, fields=wanted, strict=None)), unspecified
        if idx % 10 == 0 and any(k.lower() != k for k in wanted):
            yield dict(base, what="parse", expected=fexp, v=variant(idx, "ctor", ("Deb822",), fields=[k.lower() for k in wanted], strict=None)), True
    # E. a white-space-only line (>= 2 characters) inside the document and the strictness flag, by keyword /
    #    positionally / through the classes whose iter_paragraphs default to the lenient setting
    ws = case.get("wsat")
    if ws and ws.get("ws") and ws.get("nows"):
        n = len(model)
        i = rng.randrange(0, n + 1)
        wtext = rng.choice(["  ", "\t ", " \t", "   ", "\t\t", "  \t  "])
        lines_ws = texts[:i] + [wtext] + texts[i:]
        conc.text[888] = wtext
        stray = i < n and model[i]["c"] == "Cont"      # strict: the rest of the value becomes stray continuation lines

        def conc_ws(res):
            return [[[conc.key[f["k"]], "\n".join(conc.text[t] for t in f["v"])] for f in p] for p in res]
        for r, strict in enumerate((None, True, False)):
            for via in ("ctor", "iter"):
                v = variant(idx + 3 * r + (1 if via == "iter" else 0), via, strict=strict, ws=True)
                eff = effective_strict(v)
                if eff and stray:
                    continue
                yield dict(base, what="parse", lines=lines_ws, expected=conc_ws((ws["ws"] if eff else ws["nows"])["at"][i]), v=v), False
        # the gpg-aware classes given a list / file: signature pre-pass and field parser must use the same flag
        if np_ == 1 and ws["ws"].get("gat"):
            strict = (None, True, False)[idx % 3]
            eff = strict is not False
            if not (eff and stray):
                g = (ws["ws"] if eff else ws["nows"])["gat"][i]
                v = {"cls": GPG_CLASSES[idx % len(GPG_CLASSES)], "via": "ctor", "style": ("pos", "kw", "kwseq")[(idx // 4) % 3],
                     "form": (("lines_nl", "bio", "sio", "lines", "gen", "file_b", "blines", "file_t", "tuple") + tp.KINDS)[idx % (9 + len(tp.KINDS))],
                     "strict": strict}
                yield dict(base, what="parse", lines=lines_ws, expected=conc_ws([g]), v=v), False
    # F. the clearsign payload as returned by gpg_stripped_paragraph / split_gpg_and_payload
    if np_ == 1 and nfields <= armor_fields and idx % 3 == 0:
        shape = {"nh": armor_hdrs[idx % len(armor_hdrs)], "b": bool(idx % 2), "sb": sig_bools[idx % len(sig_bools)],
                 "sh": sig_bools[(idx // 2) % len(sig_bools)]}
        a = armor_lines(rng, model, shape)
        yield dict(base, what="gpgstrip", lines=[ln["text"] for ln in a], payload=texts,
                   v={"cls": CLASSES[idx % len(CLASSES)], "via": "ctor", "form": "lines_nl", "style": ("pos", "kw", "plain")[idx % 3],
                      "strict": (None, True, False)[(idx // 3) % 3]}), False


def latin1_jobs(rng, idx, case):
    """the same abstract document as latin-1 text: bytes input forms with encoding='latin-1' (verdict), text input
    forms with a non-UTF-8 encoding (unspecified: the reader encodes str lines as UTF-8 first)"""
    keys, text = {}, {0: ""}
    taken = set()
    for p in case["doc"]:
        for f in p:
            if f["k"] not in keys:
                keys[f["k"]] = gen_key(rng, taken)
                taken.add(keys[f["k"]].lower())
            for j, t in enumerate(f["v"]):
                if t != 0:
                    text[t] = latin1_text(rng, cont=j > 0)
    expected = [[(keys[f["k"]], "\n".join(text[t] for t in f["v"])) for f in p] for p in case["parse"]]
    dumped = build_and_dump(expected)
    if isinstance(dumped, tuple) or not expected:
        return
    dumps = [build_and_dump([p]) for p in expected]
    texts = dumped.split("\n")[:-1]
    exp_json = [[list(kv) for kv in p] for p in expected]
    base = {"api": "surface", "lines": texts, "expected": exp_json, "variant": "latin-1"}
    bforms = ("bytes", "bio", "blines", "blines_nonl", "file_b") + tp.BINARY_KINDS
    for n, via in enumerate(("ctor", "iter")):
        v = {"cls": PLAIN_CLASSES[(idx + n) % len(PLAIN_CLASSES)], "via": via, "style": ("pos", "kw")[(idx + n) % 2],
             "form": bforms[(idx + 2 * n) % len(bforms)], "encoding": ("latin-1", "iso-8859-1")[idx % 2], "input_encoding": "latin-1",
             "strict": None}
        yield dict(base, what="dump" if via == "iter" else "parse", dumps=dumps, v=v), False
    v = {"cls": "Deb822", "via": "iter", "style": "kw", "form": (("str", "sio", "lines_nl", "file_t") + tp.TEXT_KINDS)[idx % 8], "encoding": "latin-1",
         "input_encoding": "latin-1", "strict": None}
    yield dict(base, what="parse", v=v), True


# ------------------------------------------------------------------ (a) CASE replay

class CaseConc:
    """model names (field index) and text ids -> concrete strings; pads for the original values"""

    def __init__(self, rng, case, canonical=False, sizes=None):
        self.key = {}
        taken = {NEW_KEY.lower()}
        sz_name = (lambda: sizes.name(rng)) if sizes else (lambda: None)
        sz_line = (lambda: sizes.line(rng)) if sizes else (lambda: None)
        kinds = {}
        self.text = {0: ""}
        self.pad = {}
        for p in case["doc"]:
            for f in p:
                if f["k"] not in self.key:
                    k = gen_key(rng, taken, canonical, size=sz_name())
                    taken.add(k.lower())
                    self.key[f["k"]] = k
                for j, tid in enumerate(f["v"]):
                    if j == 0:
                        if tid != 0:
                            self.text[tid] = gen_data(rng, canonical, size=sz_line())
                        self.pad[id(f)] = ("", "") if canonical else (rng.choice(PAD_L), rng.choice(PAD_R))
                    else:
                        self.text[tid] = gen_cont(rng, canonical, size=sz_line())
                    kinds[tid] = "data" if j == 0 else "cont"
        # normalisation / case twins as two different values of the same document
        ids = sorted(t for t in kinds if t != 0 and len(self.text[t]) < 200)
        if not canonical and len(ids) >= 2 and rng.random() < 0.3:
            i, j = rng.sample(ids, 2)
            a, b = rng.choice(TWINS)
            for t, tw in ((i, a), (j, b)):
                self.text[t] = ("tw" + tw) if kinds[t] == "data" else (" tw" + tw)

    def value(self, f, padded):
        first = self.text[f["v"][0]]
        if padded:
            l, r = self.pad[id(f)]
            first = (l + first + r) if first else (l + r)
        return "\n".join([first] + [self.text[t] for t in f["v"][1:]])

    def paragraphs(self, doc, padded=False):
        return [[(self.key[f["k"]], self.value(f, padded)) for f in p] for p in doc]

    def line(self, ln):
        """the concrete line of an abstract line of Dump(P); the abstract line travels with it ("src"), so that the line
        can be rendered again after one of the texts was lengthened (aligned_rendering)"""
        c = ln["c"]
        if c == "Single":
            return dict(L("Single", "%s: %s" % (self.key[ln["k"]], self.text[ln["t"]]), self.key[ln["k"]], self.text[ln["t"]], True), src=ln)
        if c == "Multi":
            return dict(L("Multi", "%s:" % self.key[ln["k"]], self.key[ln["k"]], "", False), src=ln)
        if c == "Cont":
            return dict(L("Cont", self.text[ln["t"]], "", self.text[ln["t"]], False), src=ln)
        if c == "Blank":
            return dict(L("Blank", ""), src=ln)
        raise core.MachineryError("unexpected class %s in Dump(P)" % c)


def build_and_dump(pairs_per_paragraph):
    """real objects from (name, value) lists; returns dump text of the document or ('EXC', ..)"""
    from debian.deb822 import Deb822
    try:
        out = []
        for pairs in pairs_per_paragraph:
            d = Deb822()
            for k, v in pairs:
                d[k] = v
            out.append(d.dump())
        return "\n".join(out)
    except Exception as e:
        return ("EXC", "%s: %s" % (type(e).__name__, e))


def split_paragraph_lines(lines):
    paras, cur = [], []
    for ln in lines:
        if ln["c"] == "Blank":
            paras.append(cur)
            cur = []
        else:
            cur.append(ln)
    paras.append(cur)
    return paras


def insert_comments(rng, lines, positions):
    out = []
    for i, ln in enumerate(lines):
        if i in positions:
            out.append(L("Comment", gen_comment(rng)))
        out.append(ln)
    if len(lines) in positions:
        out.append(L("Comment", gen_comment(rng)))
    return out


def lead_seq(rng, ws=False, maxlen=2):
    n = rng.randint(1, maxlen)
    out = []
    for _ in range(n):
        r = rng.choice(["Blank", "Comment", "WsOnly"] if ws else ["Blank", "Comment"])
        out.append(L("Blank", "") if r == "Blank" else L("Comment", gen_comment(rng)) if r == "Comment" else L("WsOnly", rng.choice(WS_POOL)))
    if ws and not has_ws(out):
        out[rng.randrange(n)] = L("WsOnly", rng.choice(WS_POOL))
    return out


SEPS = [["Blank", "Blank"], ["Blank", "Comment"], ["Comment", "Blank"], ["Blank", "Comment", "Blank"]]
SEPS_WS = [["WsOnly"], ["Blank", "WsOnly"], ["WsOnly", "Blank"]]


def sep_lines(rng, kinds):
    return [L("Blank", "") if c == "Blank" else L("Comment", gen_comment(rng)) if c == "Comment" else L("WsOnly", rng.choice(WS_POOL))
            for c in kinds]


def big_variants(rng, base, np_):
    """the input families of BigInvariant (large documents)"""
    n = len(base)
    yield "plain", base, False
    yield "comments-all", insert_comments(rng, base, set(range(n + 1))), False
    yield "lead", sep_lines(rng, ["Comment", "Blank"]) + base, False
    if n > 1000:
        return
    for i in (0, n // 2, n):
        yield "comment@%d" % i, insert_comments(rng, base, {i}), False
    for kinds in (["Blank"], ["Blank", "Comment"]):
        yield "lead", sep_lines(rng, kinds) + base, False
    yield "trail", base + sep_lines(rng, ["Blank", "Blank"]), False
    if np_ == 1:
        yield "armor[nh=1,b=1,sb=1,sh=0]", armor_lines(rng, base, {"nh": 1, "b": True, "sb": True, "sh": False}), False


def variants(rng, base, np_, full, armor_hdrs, armor_ok=True, sig_bools=(True, False)):
    """the families of inputs for which TLC has checked that the reader returns P.
    yields (name, lines, diag) -- diag: white-space-only lines involved (not a verdict)"""
    n = len(base)
    yield "plain", base, False
    if n == 0:
        return
    all_pos = set(range(n + 1))
    picks = sorted(all_pos) if full else rng.sample(sorted(all_pos), min(2, n + 1))
    for i in picks:
        yield "comment@%d" % i, insert_comments(rng, base, {i}), False
    yield "comments-all", insert_comments(rng, base, all_pos), False
    yield "lead", lead_seq(rng) + base, False
    yield "lead+comments-all", lead_seq(rng) + insert_comments(rng, base, all_pos), False
    yield "trail", base + lead_seq(rng), False
    yield "lead-ws", lead_seq(rng, ws=True) + base, True
    yield "trail-ws", base + lead_seq(rng, ws=True), True
    if np_ > 1:
        paras = split_paragraph_lines(base)
        for kinds in (SEPS if full else [rng.choice(SEPS)]):
            out = []
            for i, p in enumerate(paras):
                out += (sep_lines(rng, kinds) if i else []) + p
            yield "sep:" + "+".join(kinds), out, False
        kinds = rng.choice(SEPS_WS)
        out = []
        for i, p in enumerate(paras):
            out += (sep_lines(rng, kinds) if i else []) + p
        yield "sep:" + "+".join(kinds), out, True
    if np_ == 1 and armor_ok:
        shapes = [{"nh": nh, "b": b, "sb": sb, "sh": sh} for nh in armor_hdrs for b in (True, False)
                  for sb in sig_bools for sh in sig_bools]
        for shape in (shapes if full and len(base) <= 4 else rng.sample(shapes, min(len(shapes), 6 if full else 2))):
            tag = "armor[nh=%d,b=%d,sb=%d,sh=%d]" % (shape["nh"], shape["b"], shape["sb"], shape["sh"])
            a = armor_lines(rng, base, shape)
            yield tag, a, False
            i = rng.randrange(len(a) + 1)
            yield tag + "+comment@%d" % i, insert_comments(rng, a, {i}), False
            yield tag + "+comments-all", insert_comments(rng, a, set(range(len(a) + 1))), False
            yield tag + "+lead", lead_seq(rng) + a, False
            yield tag + "+trail", a + lead_seq(rng), False
            yield tag + "+lead-ws", lead_seq(rng, ws=True) + a, True


STREAM_FORMS = ("str", "bytes", "sio", "bio", "file_t", "file_b") + tp.KINDS + POS_FORMS     # the text as a whole: a final newline is optional
# reading on through the same file object after Deb822(f) (spec/Deb822Stream.tla: ReadOnInvariant / PositionInvariant)
READON_FORMS = ("file_t", "file_b", "sio", "bio") + POS_FORMS + tp.KINDS
READON_REST = ("iter", "read", "readlines", "list", "iter_cls")
FILE_FORMS = ("bio", "file_b", "sio", "file_t") + tp.KINDS                      # file objects
BIN_FILE_FORMS = ("bio", "file_b") + tp.BINARY_KINDS
TEXT_FILE_FORMS = ("sio", "file_t") + tp.TEXT_KINDS


def aligned_rendering(conc, case, lines, plan):
    """transport leg (spec/Deb822Stream.tla: the lines that reach the reader do not depend on where the block
    boundaries fall): one text of the variant `lines` is lengthened so that the end of a line -- any line of the variant:
    inside a value, between two fields, a separator, a comment, an armor line, the last one -- is steered to
    m * 2^k + delta, or so that a multi-byte character straddles m * 2^k.  Texts are opaque to the specification, so
    the expected result is the parse TLC gave for the case, with that text.
    returns (texts, expected paragraphs, Dump(P) as text, info) or None (no line with a text at or before the target)"""
    import copy
    n = len(lines)
    tok = [j for j in range(n) if lines[j].get("src") is not None and lines[j]["c"] in ("Single", "Cont")]
    if not tok:
        return None
    if plan.get("straddle"):
        j = i = tok[plan["pos"] % len(tok)]
    else:
        i = plan["pos"] % n
        if i < tok[0]:
            i = tok[0] + plan["pos"] % (n - tok[0])
        cand = [j for j in tok if j <= i]
        j = cand[-1] if plan["near"] else cand[0]
    tid = lines[j]["src"]["t"]
    end = sum(tp.measure(ln["text"], plan) + 1 for ln in lines[:i + 1])
    need, suffix, delta = tp.pad_amount(end, plan)
    c2 = copy.copy(conc)
    c2.text = dict(conc.text)
    c2.text[tid] = conc.text[tid] + tp.filler(need, plan["pos"]) + suffix
    out = [c2.line(ln["src"]) if ln.get("src") is not None else ln for ln in lines]
    check_domain(out)
    texts = [ln["text"] for ln in out]
    end = sum(tp.measure(t, plan) + 1 for t in texts[:i + 1])
    if (end - delta) % (1 << plan["k"]) or end - delta < (1 << plan["k"]):
        raise core.MachineryError("alignment failed: line %d ends at %d, plan %r" % (i, end, plan))
    expected = c2.paragraphs(case["parse"], padded=False)
    dump = "".join(c2.line(ln)["text"] + "\n" for ln in case["lines"])
    info = {"at": tp.plan_tag(plan), "line": i, "end_offset": end, "padded_line": j,
            "where": "%s|%s" % (lines[i]["c"], lines[i + 1]["c"] if i + 1 < n else "EOF")}
    return texts, expected, dump, info


def replay_case(drifts, case, rng, canonical, full, stats, armor_hdrs, armor_fields=3, sig_bools=(True, False), prev=None,
                sizes=None, big=False, idx=0, quick=True, align=None):
    """returns list of (job, message) violations; diagnostic mismatches are appended to drifts"""
    conc = CaseConc(rng, case, canonical, sizes=sizes)
    np_ = len(case["doc"])
    for k in conc.key.values():
        stats["max:name_len"] = max(stats.get("max:name_len", 0), len(k))
    for t in conc.text.values():
        stats["max:line_len"] = max(stats.get("max:line_len", 0), len(t))
    stats["max:paragraphs"] = max(stats.get("max:paragraphs", 0), np_)
    for p in case["doc"]:
        stats["max:fields"] = max(stats.get("max:fields", 0), len(p))
        for f in p:
            stats["max:continuation_lines"] = max(stats.get("max:continuation_lines", 0), len(f["v"]) - 1)
    orig = conc.paragraphs(case["doc"], padded=True)
    expected = conc.paragraphs(case["parse"], padded=False)     # TLC's Parse(Dump(P)), concretized
    text1 = build_and_dump(orig)
    textT = build_and_dump(expected)
    bad = []
    if isinstance(text1, tuple) or isinstance(textT, tuple):
        job = {"lines": [], "form": "str", "api": "build", "orig": orig, "expected": expected}
        return [(job, "cannot build/dump a paragraph of valid names and values %r: %r" % (orig, text1))]
    model = [conc.line(ln) for ln in case["lines"]]
    check_domain(model)
    fb = stats.setdefault("set:line_final_bytes>=0x80", [])
    lb = stats.setdefault("set:token_lead_bytes>=0xC2", [])
    for ln in model:
        bts = ln["text"].encode("utf-8")
        if bts and bts[-1] >= 0x80 and bts[-1] not in fb:
            fb.append(bts[-1])
        tok = (ln["t"] if ln["c"] == "Single" else ln["text"].lstrip(" \t")).encode("utf-8")
        if tok and tok[0] >= 0xC2 and tok[0] not in lb:
            lb.append(tok[0])
    model_text = "".join(ln["text"] + "\n" for ln in model)
    exp_json = [[list(kv) for kv in p] for p in expected]
    first_dump = build_and_dump(expected[:1])
    if textT != model_text:
        drifts.append("dump() differs from Dump(P) of the specification: %r vs %r" % (textT, model_text))
        stats["skipped_due_to_drift"] = stats.get("skipped_due_to_drift", 0) + 1
        base_jobs = [("plain-real-dump", [L("?", t) for t in text1.split("\n")[:-1]], False)]
    else:
        base_jobs = None
    # the padded original dump: same paragraphs, first lines trimmed
    if text1 != textT:
        for form in FORMS:
            job = {"lines": text1.split("\n")[:-1], "form": form, "final_nl": True, "api": "iter",
                   "expected": exp_json, "expected_dump": textT, "variant": "padded-dump"}
            stats["runs"] += 1
            msg = run_doc(job)
            if msg:
                bad.append((job, msg))
        stats["variant:padded-dump"] = stats.get("variant:padded-dump", 0) + 1
    # independence of calls: same text parsed repeatedly with the caller ruining the results in between,
    # generators interleaved with the previous case's document
    fa = rng.choice(FORMS)
    fb = rng.choice([f for f in FORMS if f != fa])
    job = {"lines": textT.split("\n")[:-1], "form": fa, "form2": fb, "api": "leak", "expected": exp_json,
           "expected_dump": textT, "variant": "calls",
           "other_lines": prev["lines"] if prev else None, "other_expected": prev["expected"] if prev else None}
    stats["runs"] += 9
    stats["variant:calls"] = stats.get("variant:calls", 0) + 1
    msg = run_leak(job)
    keep = job.pop("_keep", None)
    if msg:
        bad.append((job, msg))
    stats["_keep"] = {"objs": keep[0] if keep else [], "lines": job["lines"], "expected": exp_json, "form": fa}
    # secondary entry points (API surface): rotating sample, same verdicts
    if base_jobs is None:
        dumps = [build_and_dump([p]) for p in expected]
        sj = list(surface_jobs(rng, idx, case, conc, model, exp_json, dumps, quick, armor_hdrs, armor_fields, sig_bools))
        if idx % 5 == 1 and not big:
            sj += list(latin1_jobs(rng, idx, case))
        for job, diag in sj:
            stats["runs"] += 1
            key = "surface:" + job["what"] + (":" + job["variant"] if job["variant"] != "surface" else "")
            stats[key] = stats.get(key, 0) + 1
            for kk in ("cls", "style", "form", "via"):
                stats["surface_%s:%s" % (kk, job["v"].get(kk))] = stats.get("surface_%s:%s" % (kk, job["v"].get(kk)), 0) + 1
            msg = run_surface(job)
            note = job.pop("_unspecified", None)
            if note:
                stats["surface_unspecified:" + note.split(":")[0]] = stats.get("surface_unspecified:" + note.split(":")[0], 0) + 1
            if not msg:
                continue
            if diag:
                stats["surface_unspecified_divergences"] = stats.get("surface_unspecified_divergences", 0) + 1
                if stats.setdefault("surface_unspecified_logged", 0) < 2:
                    stats["surface_unspecified_logged"] += 1
                    drifts.append("UNSPECIFIED entry-point divergence (fields= leaving a paragraph empty / other spelling of a name, "
                                  "or text input with a non-UTF-8 encoding): %s" % msg)
            else:
                bad.append((job, msg))
    if base_jobs is not None:
        vs = base_jobs
    elif big:
        vs = big_variants(rng, model, np_)
    else:
        vs = variants(rng, model, np_, full, armor_hdrs, armor_ok=sum(len(p) for p in case["doc"]) <= armor_fields,
                      sig_bools=sig_bools)
    nforms = len(FORMS)
    vs = list(vs)
    # transport: the plain dump and one more variant (rotating) also go through file objects of every kind with a line
    # end / a multi-byte character steered to a block boundary
    aligned_vi = {0, 1 + (idx // 2) % (len(vs) - 1)} if len(vs) > 1 and idx % 2 else {0}
    for vi, (name, lines, diag) in enumerate(vs):
        if lines and lines[0]["c"] != "?":
            check_domain(lines)
        texts = [ln["text"] for ln in lines]
        fam = name.split("@")[0].split("[")[0] + ("+" + name.split("]+")[1].split("@")[0] if "]+" in name else "")
        stats["variant:" + fam] = stats.get("variant:" + fam, 0) + 1
        forms = FORMS if (full or name == "plain") else [FORMS[(vi + j) % nforms] for j in (0, 3)]
        apis = ["iter"]
        if np_ >= 1:
            apis.append("one")
        if np_ == 1 and not any(k.lower() in MV_NAMES for k, _ in expected[0]) and (not big or name == "plain" or name.startswith("armor")):
            apis += ["Dsc", "Changes"] + (["Dsc.iter"] if full and not big else [])
        zone = gpgmv_zone(lines) if lines and lines[0]["c"] != "?" else False
        renderings = []
        for form in forms:
            final_nl = True
            if form in ("str", "bytes", "sio", "bio", "lines_nl") and texts and texts[-1] != "" and rng.random() < 0.3:
                final_nl = False
            renderings.append((form, final_nl, texts, exp_json, textT, first_dump, None, apis))
        if base_jobs is None and not big and (full or (idx + vi) % 3 == 0):
            # a file object the caller has already read a header from (rotating kind; PositionInvariant)
            form = POS_FORMS[(idx // 3 + vi) % len(POS_FORMS)]
            stats["positioned:" + form] = stats.get("positioned:" + form, 0) + 1
            renderings.append((form, not (texts and texts[-1] != "" and (idx + vi) % 4 == 1), texts, exp_json, textT, first_dump, None,
                               apis[:1] + ([apis[1 + (idx + vi) % (len(apis) - 1)]] if len(apis) > 1 else [])))
        if base_jobs is None and np_ >= 2 and not diag and (not big or name == "plain") and (full or (idx + vi) % 2 == 0):
            # reading on through the same file object after Deb822(f) (ReadOnInvariant / PositionInvariant)
            job = {"lines": texts, "form": READON_FORMS[(idx // 2 + vi) % len(READON_FORMS)], "api": "readon",
                   "rest": READON_REST[(idx // 2 + vi) % len(READON_REST)], "final_nl": not (texts[-1] != "" and (idx + vi) % 3 == 1),
                   "expected": exp_json, "variant": name}
            stats["runs"] += 1
            stats["readon:" + job["rest"]] = stats.get("readon:" + job["rest"], 0) + 1
            stats["readon_form:" + job["form"]] = stats.get("readon_form:" + job["form"], 0) + 1
            msg = run_doc(job)
            if msg:
                bad.append((job, msg))
        if align is not None and vi in aligned_vi and lines and base_jobs is None:
            plan = align.next()
            ar = aligned_rendering(conc, case, lines, plan)
            if ar is None:
                stats["aligned_skipped(no text before the target)"] = stats.get("aligned_skipped(no text before the target)", 0) + 1
            else:
                atexts, aexp, adump, info = ar
                aexp_json = [[list(kv) for kv in p] for p in aexp]
                afirst = adump.split("\n\n")[0].rstrip("\n") + "\n" if adump else adump
                nbytes = max(info["end_offset"], sum(len(t) + 1 for t in atexts))
                n0 = align.n
                # offsets in characters: text file objects; in bytes: a binary file object and any file object
                fams = (("text", TEXT_FILE_FORMS), ("text", TEXT_FILE_FORMS)) if plan["chars"] else (("binary", BIN_FILE_FORMS), ("any", FILE_FORMS))
                kinds = [align.pick(*fams[q]) for q in range(2 if plan["k"] < 15 else 1)]
                if plan["k"] <= 13 and n0 % 4 == 0:
                    kinds.append(FORMS[n0 // 4 % len(FORMS)])          # the other input forms see the same text
                stats["aligned_documents"] = stats.get("aligned_documents", 0) + 1
                for kk_, vv_ in (("aligned_at:" + info["at"].split(" (")[0], 1), ("aligned_where:" + info["where"], 1),
                                 ("aligned_variant:" + fam, 1)):
                    stats[kk_] = stats.get(kk_, 0) + vv_
                stats["max:aligned_bytes"] = max(stats.get("max:aligned_bytes", 0), info["end_offset"])
                # Deb822(x) / Dsc(x) / Changes(x) rotate beside iter_paragraphs
                aapis = ["iter"] + ([apis[1 + n0 % (len(apis) - 1)]] if len(apis) > 1 else [])
                for q, form in enumerate(kinds):
                    form = tp.kind_for(form, nbytes) if form in tp.KINDS else form
                    final_nl = not (form in STREAM_FORMS and atexts[-1] != "" and (n0 + q) % 5 == 0)
                    stats["file_object_kind:" + form] = stats.get("file_object_kind:" + form, 0) + 1
                    renderings.append((form, final_nl, atexts, aexp_json, adump, afirst, info, aapis))
        for form, final_nl, texts, exp_json_, dump_, first_, ainfo, apis_ in renderings:
            for api in apis_:
                job = {"lines": texts, "form": form, "final_nl": final_nl, "api": api, "expected": exp_json_,
                       "expected_dump": dump_ if api.endswith("iter") else first_, "variant": name}
                if ainfo:
                    job["aligned"] = ainfo
                stats["runs"] += 1
                msg = run_doc(job)
                if not msg:
                    continue
                if ainfo:
                    msg = "[%s steered to %s, end of line %d (%s) at offset %d] %s" % (
                        "line end" if "straddled" not in ainfo["at"] else "character", ainfo["at"], ainfo["line"] + 1, ainfo["where"],
                        ainfo["end_offset"], msg)
                if api in ("Dsc", "Changes", "Dsc.iter", "Changes.iter") and zone and (form not in ("str", "bytes") or api.endswith(".iter")):
                    stats["gpgmv_zone_divergences"] = stats.get("gpgmv_zone_divergences", 0) + 1
                    if not has_ws(lines) and stats.setdefault("gpgmv_zone_logged", 0) < 2:
                        stats["gpgmv_zone_logged"] += 1
                        drifts.append("UNSPECIFIED (%s): input %r: %s" % (GPGMV_ZONE, make_input("lines_nl", texts), msg))
                elif diag:
                    drifts.append("white-space-only line variant %s: %s" % (name, msg))
                elif api == "one" and np_ > 1:
                    drifts.append("Deb822(x) on a multi-paragraph document: %s" % msg)
                else:
                    bad.append((job, msg))
    return bad


def replay_chunk(args):
    """replay a slice of the CASE list (runs in a worker process in the thorough tier);
    every case has its own seeded generator, so the result does not depend on the slicing"""
    seed, repo, items, k, quick, armor_hdrs, armor_fields, chunk_no, nchunks = args
    import sys
    import warnings
    warnings.filterwarnings("ignore", message="Parsing of Deb822 data with python3-apt")
    warnings.filterwarnings("ignore", message="decoding from .* failed; attempting to detect")
    lib = os.path.join(repo, "lib")
    if lib not in sys.path:
        sys.path.insert(0, lib)
    stats = {"runs": 0, "full": 0}
    drifts, bad = [], []
    prev = None
    # size stress (notes/SIZE_STRESS.md): every 6th case (thorough: every 3rd second concretization) gets
    # names / lines of boundary lengths; the large documents get a few of them
    global CHARS
    CHARS = Chars(offset=chunk_no)
    sizes = Sizes(offset=chunk_no * 7, huge=(3 if nchunks == 1 else 1) if chunk_no < 3 else 0)
    bigsizes = Sizes(offset=chunk_no * 3 + 7, huge=1, p_name=0.5, p_line=0.02)
    # transport (notes/SIZE_STRESS.md part 4): block-boundary alignments and kinds of file objects, round-robin
    align = tp.AlignPlan(offset=chunk_no * 4)
    for idx, case in items:
        nfields = sum(len(p) for p in case["doc"])
        big = bool(case.get("big"))
        for c in range(1 if big else k):
            crng = random.Random("%s-case-%d-%d" % (seed, idx, c))
            full = not big and ((nfields <= 2) if quick else (nfields <= 3 and c == 0))
            stats["full"] += full
            stressed = big or (idx % 6 == 3 if quick else (c == 1 and idx % 3 == 0))
            stats["size_stressed_cases"] = stats.get("size_stressed_cases", 0) + stressed
            b = replay_case(drifts, case, crng, canonical=(c == 0 and idx % 2 == 0 and not stressed), full=full, stats=stats,
                            armor_hdrs=armor_hdrs, armor_fields=armor_fields, sig_bools=(True,) if quick else (True, False),
                            prev=prev, sizes=(bigsizes if big else sizes) if stressed else None, big=big, idx=idx, quick=quick,
                            align=align)
            bad += [(idx, job, msg) for job, msg in b]
            cur = stats.pop("_keep", None)
            # (1) the objects of the previous case are still alive: they must not have changed
            if prev is not None and cur is not None:
                now = [items_of(p) for p in prev["objs"]]
                want = [[tuple(kv) for kv in p] for p in prev["expected"]]
                stats["keepalive_checks"] = stats.get("keepalive_checks", 0) + 1
                if now != want:
                    bad.append((idx, {"api": "keepalive", "lines": prev["lines"], "form": prev["form"], "expected": prev["expected"],
                                      "then_lines": cur["lines"], "variant": "keepalive"},
                                "paragraphs parsed for the previous document changed while this one was handled: %r, were %r"
                                % (now, want)))
            prev = cur if cur is not None else prev
        if len(bad) >= 5:
            break
        del drifts[20:]
    stats["set:name_lengths"] = sorted(sizes.used["name"] | bigsizes.used["name"])
    stats["set:line_lengths"] = sorted(sizes.used["line"] | bigsizes.used["line"])
    return stats, drifts, bad


# ------------------------------------------------------------------ (b) recorded documents

def gen_paragraph(rng, comments, keys_taken=None, sizes=None, nfields=None, nconts=None, canonical=False):
    lines = []
    taken = set()
    sz_name = (lambda: sizes.name(rng)) if sizes else (lambda: None)
    sz_line = (lambda: sizes.line(rng)) if sizes else (lambda: None)
    for fi in range(nfields or rng.randint(1, 5)):
        k = gen_key(rng, taken, size=sz_name()) if not canonical or sizes else "F%d" % fi
        taken.add(k.lower())
        if rng.random() < 0.3:
            lines.append(multi_line(rng, k))
            nc = rng.choice([0, 1, 1, 2, 3])
        else:
            lines.append(single_line(rng, k, gen_data(rng, canonical, size=sz_line())))
            nc = rng.choice([0, 0, 0, 1, 2])
        if nconts is not None:
            nc = nconts if fi % 2 == 0 else 0
        for _ in range(nc):
            if comments and rng.random() < 0.25:
                lines.append(L("Comment", gen_comment(rng)))
            t = gen_cont(rng, canonical, size=sz_line())
            lines.append(L("Cont", t, "", t))
        if comments and rng.random() < 0.25:
            lines.append(L("Comment", gen_comment(rng)))
    return lines


def blanks(rng, lo, hi, comments):
    out = []
    for _ in range(rng.randint(lo, hi)):
        out.append(L("Blank", ""))
        if comments and rng.random() < 0.3:
            out.append(L("Comment", gen_comment(rng)))
    return out


# (paragraphs, fields, continuation lines) of the large recorded documents: counts around 10 / 33 / 100 /
# 257 / 1000 (notes/SIZE_STRESS.md); the last ones only in the thorough tier
BIG_TRACE_DOCS = [(1000, 1, 0), (100, 2, 1), (1, 100, 0), (1, 1, 150), (10, 10, 2), (33, 3, 9), (2, 2, 101), (1, 10, 17),
                  (257, 1, 1), (1, 33, 33), (101, 1, 0), (11, 11, 11), (1, 257, 0), (1000, 2, 1)]


def gen_big_doc(rng, dims, sizes):
    """a large in-domain document: np paragraphs x nf fields, every other field with nc continuation lines;
    short texts except for a few boundary-length names / lines"""
    np_, nf, nc = dims
    comments = rng.random() < 0.5
    lines = []
    for i in range(np_):
        if i:
            lines += blanks(rng, 1, 2 if np_ < 500 else 1, comments and np_ < 500)
        lines += gen_paragraph(rng, comments and rng.random() < 0.1, sizes=sizes, nfields=nf, nconts=nc, canonical=True)
    return lines


def gen_doc(rng, maxpara=8, sizes=None):
    """in-domain document: paragraphs of fields, blank separators, comments anywhere, optional armor"""
    comments = rng.random() < 0.6
    lines = []
    if rng.random() < 0.3:
        if comments and rng.random() < 0.5:
            lines.append(L("Comment", gen_comment(rng)))
        lines += blanks(rng, 0, 2, comments)
    if rng.random() < 0.25:
        body = gen_paragraph(rng, comments, sizes=sizes)
        shape = {"nh": rng.choice([0, 1, 1, 2]), "b": rng.random() < 0.7, "sb": rng.random() < 0.7, "sh": rng.random() < 0.3}
        lines += armor_lines(rng, body, shape)
        if comments and rng.random() < 0.3:
            lines = insert_comments(rng, lines, {rng.randrange(len(lines) + 1)})
    else:
        np_ = rng.choice([1, 1, 2, 2, 3, 3, 4, 5, 6, 7, 8][:maxpara + 3])
        for i in range(np_):
            if i:
                lines += blanks(rng, 1, 3, comments)
            lines += gen_paragraph(rng, comments, sizes=sizes)
    if rng.random() < 0.4:
        lines += blanks(rng, 1, 2, comments)
    return lines


def align_lines(lines, plan):
    """recorded documents (transport leg, see aligned_rendering): the text of one Single / Cont / Comment line at or
    before the steered line is lengthened; the line keeps its class and its token stays the text the reader must return.
    returns (lines, info) or None"""
    n = len(lines)
    tok = [j for j in range(n) if lines[j]["c"] in ("Single", "Cont", "Comment")]
    if not tok:
        return None
    if plan.get("straddle"):
        j = i = tok[plan["pos"] % len(tok)]
    else:
        i = plan["pos"] % n
        if i < tok[0]:
            i = tok[0] + plan["pos"] % (n - tok[0])
        cand = [j for j in tok if j <= i]
        j = cand[-1] if plan["near"] else cand[0]
    end = sum(tp.measure(ln["text"], plan) + 1 for ln in lines[:i + 1])
    need, suffix, delta = tp.pad_amount(end, plan)
    add = tp.filler(need, plan["pos"]) + suffix
    ln = dict(lines[j])
    if ln["c"] == "Single":
        body = ln["text"].rstrip(" \t")
        ln["text"], ln["t"] = body + add + ln["text"][len(body):], ln["t"] + add
    elif ln["c"] == "Cont":
        ln["text"] = ln["t"] = ln["text"] + add
    else:
        ln["text"] += add
    out = lines[:j] + [ln] + lines[j + 1:]
    check_domain(out)
    end = sum(tp.measure(x["text"], plan) + 1 for x in out[:i + 1])
    if (end - delta) % (1 << plan["k"]) or end - delta < (1 << plan["k"]):
        raise core.MachineryError("alignment failed: line %d ends at %d, plan %r" % (i, end, plan))
    return out, {"at": tp.plan_tag(plan), "line": i, "end_offset": end, "padded_line": j,
                 "where": "%s|%s" % (lines[i]["c"], lines[i + 1]["c"] if i + 1 < n else "EOF")}


def proj(paragraphs):
    return [[{"k": k, "v": v.split("\n")} for k, v in p] for p in paragraphs]


def record(lines, form, final_nl=True, strict=None, keep=None, only=None, via=None):
    """prefix closure: the real reader on the first i lines, i = 1..n
    (keep: list that receives the paragraph objects of the complete document;
     only: set of prefix lengths to observe -- large documents; the others are logged as np = -2)"""
    texts = [ln["text"] for ln in lines]
    obs = []
    res = []
    for i in range(1, len(texts) + 1):
        if only is not None and i not in only and i != len(texts):
            obs.append({"np": -2, "last": []})
            continue
        last_nl = final_nl or i < len(texts) or texts[i - 1] == ""
        if via:         # another class / call style (API surface)
            res, ps = call_parse(dict(via, via="iter", form=form, final_nl=last_nl), texts[:i])
        else:
            x = make_input(form, texts[:i], last_nl)
            res, ps = read_iter("Deb822", x, strict)
            close_input(x)
        if keep is not None and i == len(texts):
            keep[:] = ps or []
        if isinstance(res, tuple):
            obs.append({"np": -1, "last": [], "exc": res[1]})
        else:
            pj = proj(res)
            obs.append({"np": len(pj), "last": pj[-1] if pj else []})
    final = proj(res) if not isinstance(res, tuple) else [[{"k": "EXC", "v": [res[1]]}]]
    return {"lines": [{"c": ln["c"], "k": ln["k"], "t": ln["t"], "sp": ln["sp"]} for ln in lines],
            "obs": obs, "final": final}


def _ctl(lines, finals):
    """a control trace from (class, k, t) triples and the claimed result after every line"""
    return {"lines": [{"c": c, "k": k, "t": t, "sp": c in ("Single", "ArmorHeader")} for c, k, t in lines],
            "obs": [{"np": len(f), "last": f[-1] if f else []} for f in finals], "final": finals[-1]}


def _f(k, *v):
    return {"k": k, "v": list(v)}


# negative controls: hand-written (document, claimed observations) pairs that the specification must
# NOT explain.  They do not depend on the code under test, so they stay wrong whatever it does.
STATIC_CONTROLS = [
    # wrong value
    _ctl([("Single", "A", "b")], [[[_f("A", "x")]]]),
    # first line not trimmed
    _ctl([("Single", "A", "b")], [[[_f("A", "b ")]]]),
    # fields in the wrong order
    _ctl([("Single", "A", "b"), ("Single", "B", "c")], [[[_f("A", "b")]], [[_f("B", "c"), _f("A", "b")]]]),
    # a blank line that does not separate
    _ctl([("Single", "A", "b"), ("Blank", "", ""), ("Single", "B", "c")],
         [[[_f("A", "b")]], [[_f("A", "b")]], [[_f("A", "b"), _f("B", "c")]]]),
    # a comment that ends the value
    _ctl([("Multi", "A", ""), ("Cont", "", " x"), ("Comment", "", ""), ("Cont", "", " y")],
         [[[_f("A", "")]], [[_f("A", "", " x")]], [[_f("A", "", " x")]], [[_f("A", "", " x")]]]),
    # continuation line not verbatim
    _ctl([("Single", "A", "b"), ("Cont", "", " x ")], [[[_f("A", "b")]], [[_f("A", "b", " x")]]]),
    # a leading blank line that ends the input
    _ctl([("Blank", "", ""), ("Single", "A", "b")], [[], []]),
    # an armor header read as a field
    _ctl([("PgpBeginMsg", "", ""), ("ArmorHeader", "Hash", "SHA512"), ("Blank", "", ""), ("Single", "A", "b")],
         [[], [], [], [[_f("Hash", "SHA512"), _f("A", "b")]]]),
    # the signature read as a second paragraph
    _ctl([("PgpBeginMsg", "", ""), ("Blank", "", ""), ("Single", "A", "b"), ("PgpBeginSig", "", ""), ("Single", "V", "1"),
          ("PgpEnd", "", "")],
         [[], [], [[_f("A", "b")]], [[_f("A", "b")]], [[_f("A", "b")], [_f("V", "1")]], [[_f("A", "b")], [_f("V", "1")]]]),
]


def validate(ctx, traces, cfg="TraceDeb822Reader.cfg", with_controls=True):
    controls = STATIC_CONTROLS if with_controls else []
    acc, _, r = core.validate_traces(ctx, "TraceDeb822Reader", cfg, traces, extra_env={"TRACE_DIAG": "0"},
                                     controls=controls)
    rejected = [i for i in range(1, len(traces) + 1) if i not in acc]
    info = {}
    if rejected:
        sub = [traces[i - 1] for i in rejected[:20]]
        _, prog, _ = core.validate_traces(ctx, "TraceDeb822Reader", cfg, sub, extra_env={"TRACE_DIAG": "1"})
        for j, i in enumerate(rejected[:20]):
            info[i] = prog.get(j + 1, 0)
    return rejected, info


# ---- diagnostic documents from walks over the emitted automaton (junk, stray PGP lines, ws-only lines)

def walk_doc(rng, g, start, n, ws2=False):
    names = {1: "Alpha", 2: "beta-2"}
    lines = []
    for e in g.walk(rng, start, n, weight=lambda x: 1 if x["b"] in ("Stopped",) else 4):
        c = e["c"]
        if c == "Single":
            lines.append(single_line(rng, names[e["k"]], gen_data(rng)))
        elif c == "Multi":
            lines.append(multi_line(rng, names[e["k"]]))
        elif c == "Cont":
            t = gen_cont(rng)
            lines.append(L("Cont", t, "", t))
        elif c == "Blank":
            lines.append(L("Blank", ""))
        elif c == "WsOnly":
            t = rng.choice(WS_POOL[2:] if ws2 else WS_POOL)
            lines.append(L("WsOnly", t, "", t))
        elif c == "Comment":
            lines.append(L("Comment", gen_comment(rng)))
        elif c == "Junk":
            lines.append(L("Junk", rng.choice(JUNK_POOL)))
        elif c == "PgpBeginMsg":
            lines.append(L("PgpBeginMsg", BEGIN_MSG))
        elif c == "PgpBeginSig":
            lines.append(L("PgpBeginSig", BEGIN_SIG))
        elif c == "PgpEnd":
            lines.append(L("PgpEnd", END_SIG))
        elif c == "ArmorHeader":
            lines.append(L("ArmorHeader", "Hash: SHA512", "Hash", "SHA512", True))
    return lines


# ---- replay of the call-level LTS of spec/Deb822ReaderCalls.tla

CALL_SCRIPTS = [
    [("parse", [1]), ("mutate", [1, "heavy"]), ("parse", [1]), ("mutate", [2, "heavy"]), ("parse", [1])],
    [("parse", [2]), ("mutate", [1, "heavy"]), ("parse", [2]), ("mutate", [2, "heavy"]), ("parse", [2])],
    [("open", [1]), ("next", [1]), ("open", [2]), ("next", [2]), ("next", [1]), ("next", [2]), ("next", [1])],
    [("open", [1]), ("next", [1]), ("mutate", [1, "heavy"]), ("next", [1]), ("next", [1]), ("parse", [1])],
    [("open", [1]), ("open", [1]), ("next", [1]), ("next", [2]), ("mutate", [1, "heavy"]), ("next", [1])],
    [("parse", [2]), ("open", [2]), ("mutate", [1, "heavy"]), ("next", [1]), ("next", [1])],
    [("parse", [1]), ("open", [1]), ("next", [1]), ("mutate", [1, "heavy"]), ("mutate", [2, "heavy"]), ("next", [1])],
    [("open", [2]), ("open", [1]), ("next", [2]), ("next", [1]), ("next", [2]), ("next", [1])],
]
# the same calls with a faulting twin of the argument (the caller's object raises when a line is requested), then carry on
# (configuration calls_faults: two objects, one generator)
CALL_FAULT_SCRIPTS = [
    [("open", [1]), ("next", [1]), ("parse_fault", [1, "middle"]), ("next", [1]), ("list_fault", [1, "last"]), ("next", [1]),
     ("parse_fault", [2, "first"])],
    [("parse", [2]), ("list_fault", [2, "first"]), ("parse_fault", [2, "last"]), ("mutate", [1, "heavy"]), ("parse", [2]), ("open", [2]),
     ("list_fault", [1, "middle"]), ("parse_fault", [1, "first"])],
    [("list_fault", [1, "first"]), ("open", [1]), ("parse_fault", [1, "last"]), ("next", [1]), ("list_fault", [2, "last"]),
     ("mutate", [1, "heavy"]), ("parse_fault", [1, "middle"]), ("next", [1]), ("list_fault", [1, "middle"]), ("next", [1])],
    [("parse_fault", [1, "middle"]), ("parse", [1]), ("list_fault", [1, "middle"]), ("open", [1]), ("next", [1]), ("parse_fault", [2, "middle"])],
]
FAULT_FORMS = ("fgen", "fiter", "fiter_b", "ffile_t", "ffile_b", "fraw_b", "fraw_t", "fgen_nonl")


class FaultyLines:
    """a caller's line source (iterator / file-like object): the request for line `at` raises the caller's exception"""

    def __init__(self, lines, at, exc):
        self.lines, self.at, self.exc, self.i, self.closed = lines, at, exc, 0, False

    def __iter__(self):
        return self

    def __next__(self):
        if self.i == self.at:
            self.i += 1
            raise self.exc
        if self.i >= len(self.lines):
            raise StopIteration
        self.i += 1
        return self.lines[self.i - 1]

    def readline(self, *_):
        try:
            return next(self)
        except StopIteration:
            return self.lines[0][:0]

    def readlines(self, *_):
        return list(self)

    def read(self, *_):
        return self.lines[0][:0].join(self)

    def close(self):
        self.closed = True


def faulty_input(form, texts, at, exc):
    """a faulting twin of make_input(...): the same document, but the caller's object fails when line `at` is requested"""
    import io as _io
    if form in ("fgen", "fgen_nonl"):
        def g():
            for i, t in enumerate(texts):
                if i == at:
                    raise exc
                yield t + ("\n" if form == "fgen" else "")
        return g()
    if form in ("fiter", "ffile_t"):
        return FaultyLines([t + "\n" for t in texts], at, exc)
    if form in ("fiter_b", "ffile_b"):
        return FaultyLines([(t + "\n").encode("utf-8") for t in texts], at, exc)
    data = "".join(t + "\n" for t in texts).encode("utf-8")
    off = len("".join(t + "\n" for t in texts[:at]).encode("utf-8"))

    class Raw(_io.RawIOBase):
        pos = 0

        def readable(self):
            return True

        def readinto(self, b):
            if self.pos >= off:
                raise exc
            n = min(len(b), off - self.pos, 5)
            b[:n] = data[self.pos:self.pos + n]
            self.pos += n
            return n
    br = _io.BufferedReader(Raw(), buffer_size=16)
    return br if form == "fraw_b" else _io.TextIOWrapper(br, encoding="utf-8", newline="\n")


def follow(g, script):
    state, path = g.init, []
    for op, args in script:
        nxt = [e for e in g.out.get(state, []) if e["op"] == op and e["args"] == args]
        if not nxt:
            break
        path.append(nxt[0])
        state = nxt[0]["_t"]
    return path


def calls_conc(rng, docs, canonical=False):
    conc = CaseConc(rng, {"doc": [p for d in docs for p in d["doc"]]}, canonical)
    conc.key[99] = NEW_KEY
    conc.text[666] = "poison"
    conc.text[667] = "x"
    texts = [[conc.line(ln)["text"] for ln in d["lines"]] for d in docs]
    return conc, texts


def calls_steps(rng, path, conc):
    steps = []
    for e in path:
        expect = [{"items": [[conc.key[f["k"]], "\n".join(conc.text[t] for t in f["v"])] for f in o["val"]], "mut": o["mut"]}
                  for o in e["to"]["heap"]]
        form = rng.choice(ALL_FORMS)
        cls = rng.choice(CLASSES if e["op"] == "parse" else PLAIN_CLASSES)
        if cls in GPG_CLASSES and form not in ("str", "bytes"):
            form = rng.choice(("str", "bytes"))          # document 1 has two paragraphs: stay with what TLC has checked
        steps.append({"op": e["op"], "args": e["args"], "res": e["res"], "form": form, "expect": expect, "cls": cls,
                      "style": rng.choice(("pos", "kw", "kwseq")), "strict": rng.choice((None, True, False)),
                      "use_apt_pkg": rng.random() < 0.5})
        if e["op"] in ("parse_fault", "list_fault"):
            steps[-1].update(form=rng.choice(FAULT_FORMS), cls=rng.choice(CLASSES if e["op"] == "parse_fault" else PLAIN_CLASSES),
                             exc=rng.choice(FAULT_EXC))
    return steps


def exec_calls(steps, texts, drifts=None):
    """perform the calls of one behaviour of Deb822ReaderCalls on the real classes; after every call
    every object handed out so far must show what the specification says (objects the caller has
    mutated himself: diagnostic only)"""
    objs, iters, inputs = [], [], []
    try:
        return _exec_calls(steps, texts, drifts, objs, iters, inputs)
    finally:
        for x in inputs:
            close_input(x)


def _exec_calls(steps, texts, drifts, objs, iters, inputs):
    for n, st in enumerate(steps):
        op, args = st["op"], st["args"]
        where = "call %d %s%r <%s> via %s/%s" % (n + 1, op, tuple(args), st["form"], st.get("cls", "Deb822"), st.get("style", "kw"))
        new = None
        try:
            if op in ("parse", "open"):
                import warnings
                cls = _cls(st.get("cls", "Deb822"))
                x = make_input(st["form"], texts[args[0] - 1])
                inputs.append(x)
                strict = None if st.get("strict") is None else {WS_KEY: st["strict"]}
                style = st.get("style", "kw")
                with warnings.catch_warnings():
                    warnings.simplefilter("ignore")
                    if op == "parse":
                        new = (cls(x, None, None, "utf-8", strict) if style == "pos" else
                               cls(sequence=x, strict=strict) if style == "kwseq" else cls(x, strict=strict))
                    else:
                        ua = st.get("use_apt_pkg", False)
                        iters.append(cls.iter_paragraphs(x, None, ua, False, "utf-8", strict) if style == "pos" else
                                     cls.iter_paragraphs(sequence=x, use_apt_pkg=ua, strict=strict) if style == "kwseq" else
                                     cls.iter_paragraphs(x, use_apt_pkg=ua, strict=strict))
            elif op == "next":
                try:
                    new = next(iters[args[0] - 1])
                except StopIteration:
                    new = "STOP"
            elif op == "mutate":
                mutate(objs[args[0] - 1], args[1])
            elif op in ("parse_fault", "list_fault"):
                import warnings
                lines = texts[args[0] - 1]
                n = (lines.index("") if "" in lines else len(lines)) if op == "parse_fault" else len(lines)
                at = fault_index(args[1], n)
                exc = make_fault(st["exc"])
                x = faulty_input(st["form"], lines, at, exc)
                inputs.append(x)
                cls = _cls(st.get("cls", "Deb822"))
                strict = None if st.get("strict") is None else {WS_KEY: st["strict"]}
                style = st.get("style", "kw")
                where += " (the caller's object raises %s when line %d of %d is requested)" % (st["exc"], at + 1, len(lines))
                try:
                    with warnings.catch_warnings():
                        warnings.simplefilter("ignore")
                        if op == "parse_fault":
                            got = (cls(x, None, None, "utf-8", strict) if style == "pos" else
                                   cls(sequence=x, strict=strict) if style == "kwseq" else cls(x, strict=strict))
                        else:
                            ua = st.get("use_apt_pkg", False)
                            got = list(cls.iter_paragraphs(x, None, ua, False, "utf-8", strict) if style == "pos" else
                                       cls.iter_paragraphs(sequence=x, use_apt_pkg=ua, strict=strict) if style == "kwseq" else
                                       cls.iter_paragraphs(x, use_apt_pkg=ua, strict=strict))
                except Exception as e:
                    if e is not exc:
                        return "%s raised %s: %s -- specification: the caller's exception comes out" % (where, type(e).__name__, e)
                else:
                    return "%s returned %r -- specification: the caller's exception comes out" % (
                        where, items_of(got) if op == "parse_fault" else [items_of(o) for o in got])
        except Exception as e:
            return "%s raised %s: %s" % (where, type(e).__name__, e)
        if op in ("parse", "next"):
            if st["res"] == 0:
                if new != "STOP":
                    return "%s returned a paragraph %r, specification: StopIteration" % (where, items_of(new))
            else:
                if isinstance(new, str):
                    return "%s raised StopIteration, specification: paragraph %r" % (where, st["expect"][st["res"] - 1]["items"])
                if any(new is o for o in objs):
                    return "%s returned an object that was handed out before" % where
                objs.append(new)
        for j, e in enumerate(st["expect"]):
            got, want = items_of(objs[j]), [tuple(kv) for kv in e["items"]]
            if got != want:
                if e["mut"]:
                    if drifts is not None:
                        drifts.append("%s: object %d mutated by the caller shows %r, specification %r" % (where, j + 1, got, want))
                else:
                    return "%s: paragraph object %d shows %r, specification: %r" % (where, j + 1, got, want)
    return None


# ---- edit / render histories of ONE live paragraph (spec/Deb822ReaderEdits.tla)

EDIT_SCRIPTS = [
    [("render", ["dump"]), ("order_first", [3]), ("render", ["str"]), ("sort_fields", []), ("render", ["bytes"])],
    [("render", ["str"]), ("sort_fields_key", []), ("order_last", [3]), ("set", [2, 1]), ("order_before", [1, 2])],
    [("render", ["bytes"]), ("order_after", [1, 3]), ("del", [2]), ("order_first", [3]), ("merge_from_other", [2, 1])],
    [("order_last", [1]), ("render", ["dump"]), ("order_before", [3, 2]), ("update", [3, 2, 1, 2]), ("sort_fields", [])],
    [("render", ["dump"]), ("pop", [1]), ("setdefault", [1, 2]), ("order_first", [1]), ("popitem", []), ("sort_fields_key", [])],
    [("render", ["str"]), ("merge_only_here", [2]), ("order_after", [2, 3]), ("clear", []), ("set", [3, 1]), ("set", [1, 2]),
     ("order_first", [1])],
    # refused assignments and calls failing in a caller-supplied object are ordinary steps (error atomicity)
    [("del", [2]), ("refused_set", [2, "nl_end", "set"]), ("render", ["dump"]), ("absent", [2, "pop_default"]), ("set", [2, 1]),
     ("refused_set", [2, "no_indent", "update"]), ("pop", [3]), ("absent", [3, "pop"])],
    [("pop", [1]), ("refused_set", [1, "blank_line", "setdefault"]), ("sort_key_fault", ["middle"]), ("dump_fault", ["last", "binary"]),
     ("render", ["str"]), ("absent", [1, "del"]), ("refused_set", [3, "nl_end", "setdefault"])],
    [("clear", []), ("popitem_empty", []), ("refused_set", [3, "no_indent", "merge"]), ("sort_key_fault", ["first"]),
     ("dump_fault", ["first", "text"]), ("set", [3, 2]), ("sort_key_incomparable", []), ("refused_set", [1, "nl_end", "set"]),
     ("set", [1, 1]), ("sort_key_incomparable", []), ("sort_key_fault", ["last"]), ("render", ["bytes"])],
]
REFUSED_OPS = ("refused_set", "absent", "popitem_empty", "sort_key_fault", "sort_key_incomparable", "dump_fault")
RENDER_KINDS = ("dump()", "str(d)", "bytes(d)", "dump(BytesIO)", "dump(BytesIO, 'utf-8')", "dump(StringIO, text_mode=True)",
                "dump(fd=StringIO, encoding=None, text_mode=True)")


def renderings(p):
    """every public way of rendering one paragraph, as text"""
    out = [("dump()", p.dump()), ("str(d)", str(p)), ("bytes(d)", bytes(p).decode("utf-8"))]
    b = io.BytesIO()
    p.dump(b)
    out.append(("dump(BytesIO)", b.getvalue().decode("utf-8")))
    b = io.BytesIO()
    p.dump(b, "utf-8")
    out.append(("dump(BytesIO, 'utf-8')", b.getvalue().decode("utf-8")))
    t = io.StringIO()
    p.dump(t, text_mode=True)
    out.append(("dump(StringIO, text_mode=True)", t.getvalue()))
    t = io.StringIO()
    p.dump(fd=t, encoding=None, text_mode=True)
    out.append(("dump(fd=StringIO, encoding=None, text_mode=True)", t.getvalue()))
    return out


def check_renderings(p, want, n):
    """every rendering of the object as it is now re-parses to its current fields in the current order, all
    renderings agree, get_as_string gives the current values; returns None or a message"""
    got = items_of(p)
    if got != want:
        return None, "the paragraph shows %s" % brief(got, want)
    try:
        rs = renderings(p)
        gs = [(k, p.get_as_string(k)) for k in p]
    except Exception as e:
        return None, "rendering raised %s: %s" % (type(e).__name__, e)
    if gs != want:
        return rs, "[(k, d.get_as_string(k)) for k in d] = %s" % brief(gs, want)
    for i, (name, text) in enumerate(rs):
        form = ALL_FORMS[(n + i) % len(ALL_FORMS)]
        back, _ = read_iter("Deb822", make_input(form, text.split("\n")[:-1] if text else []))
        if back != ([want] if want else []):
            return rs, ("%s = %r re-parses (<%s>) to %s -- the paragraph itself holds these fields in this order"
                        % (name, text[:600], form, brief(back, [want] if want else [])))
    for name, text in rs[1:]:
        if text != rs[0][1]:
            return rs, "%s = %r but %s = %r" % (name, text[:600], rs[0][0], rs[0][1][:600])
    return rs, None


class CallerFault(Exception):
    """private exception class of a caller-supplied object"""


FAULT_EXC = ("OSError", "ValueError", "KeyError", "CallerFault", "UnicodeDecodeError")


def make_fault(kind):
    if kind == "UnicodeDecodeError":
        return UnicodeDecodeError("utf-8", b"\xff", 0, 1, "caller's fault")
    return {"OSError": OSError, "ValueError": ValueError, "KeyError": KeyError, "CallerFault": CallerFault,
            }[kind]("caller's fault")


def faulty_writer(text_mode, at=None, exc=None):
    """a caller's file object for dump(fd) (a BytesIO / StringIO whose write() is overridden): the at-th write() raises
    the caller's exception (at = None: it only counts the calls in .n)"""
    base = io.StringIO if text_mode else io.BytesIO

    class FaultyWriter(base):
        n = 0

        def write(self, data):
            self.n += 1
            if at is not None and self.n - 1 == at:
                raise exc
            return base.write(self, data)
    return FaultyWriter()


def fault_index(pos, n):
    return {"first": 0, "middle": n // 2, "last": n - 1}[pos]


def spell(name, how):
    """another spelling of a field name (the mapping ignores ASCII case)"""
    return {0: name, 1: name.upper(), 2: name.lower(), 3: name.swapcase()}[how % 4]


def bad_value(rng, kind, canonical=False):
    """a value Deb822 documents as refused: it ends in a newline / has an empty line / has a continuation line that
    does not start with white space (everything else about it is in the domain)"""
    first = rng.choice([gen_data(rng, canonical), ""])
    conts = [gen_cont(rng, canonical) for _ in range(rng.randint(0 if first else 1, 2))]
    if kind == "nl_end":
        return rng.choice(["\n".join([first] + conts) + "\n", gen_data(rng, canonical) + "\n", "\n" if rng.random() < 0.2 else "x\n"])
    if kind == "blank_line":
        conts = conts or [gen_cont(rng, canonical)]
        at = rng.randint(0, len(conts) - 1)
        return "\n".join([first] + conts[:at] + [""] + conts[at:])
    if kind == "no_indent":
        x = rng.choice([gen_data(rng, canonical), "Key: value", "# comment", BEGIN_SIG, ".", "x\ty", "b"])
        at = rng.randint(0, len(conts))
        return "\n".join([first] + conts[:at] + [x] + conts[at:])
    raise core.MachineryError("unknown kind of refused value %r" % kind)


def refused_conc(rng, st, canonical=False):
    """concretization of a refused / failing step (kept in the case, so that a replay performs the same call)"""
    op, a = st["op"], st["args"]
    c = {"spell": rng.randrange(4), "exc": rng.choice(FAULT_EXC[:4])}
    if op == "refused_set":
        c["bad"] = bad_value(rng, a[1], canonical)
        c["with_valid"] = rng.random() < 0.3         # update(): a valid pair for the same name after the refused one is never reached
    return c


class LibraryObservation(Exception):
    """an API probe saw the LIBRARY do something that no outcome class of the model covers (a wrong return value ...): an
    observation like any other -- outcome 'other:<text>', which the model never produces, hence a VIOLATION in both
    legs -- never a machinery failure"""


def outcome_of(e, fault):
    """class of outcome of a call (the model's res): the caller's own exception object, or the documented class"""
    if fault.get("exc") is e:
        return "caller"
    if isinstance(e, LibraryObservation):
        return "other:" + str(e)
    for cls in (KeyError, ValueError, TypeError):
        if isinstance(e, cls):
            return cls.__name__
    return "other:" + type(e).__name__


def apply_edit(p, st, names, values, rank):
    """one public call (the model's op) on the real paragraph; returns (outcome, exception): 'ok', 'caller' (the
    exception object raised by the caller-supplied argument came out), or the exception class"""
    fault = {}
    try:
        _apply_edit(p, st, names, values, rank, fault)
    except core.MachineryError:
        raise
    except Exception as e:
        return outcome_of(e, fault), e
    return "ok", None


def _apply_edit(p, st, names, values, rank, fault):
    import warnings
    op, a = st["op"], st["args"]
    style = st.get("style", 0)
    c = st.get("conc") or {}
    if op == "refused_set":
        name, bad, how = spell(names[a[0]], c["spell"]), c["bad"], a[2]
        if how == "set":
            p[name] = bad
        elif how == "setdefault":
            p.setdefault(name, bad)
        elif how == "update":
            pairs = [(name, bad)] + ([(name, values[(a[0], 1)])] if c.get("with_valid") else [])
            p.update(dict(pairs[:1]) if style % 2 == 0 else pairs)
        elif how == "merge":
            p.merge_fields(name, {name: bad})
        else:
            raise core.MachineryError("unknown refused_set variant %r" % how)
    elif op == "absent":
        name = spell(names[a[0]], c["spell"])
        if a[1] == "del":
            del p[name]
        elif a[1] == "pop":
            p.pop(name)
        else:
            marker = object()
            if p.pop(name, marker) is not marker:
                raise LibraryObservation("pop(absent name, default) did not return the default")
    elif op == "popitem_empty":
        p.popitem()
    elif op == "sort_key_fault":
        fault["exc"] = make_fault(c["exc"])
        at, seen = fault_index(a[0], len(p)), []

        def key(x):
            seen.append(x)
            if len(seen) - 1 == at:
                raise fault["exc"]
            return rank[x.lower()]
        p.sort_fields(key=key) if style % 2 == 0 else p.sort_fields(key)
    elif op == "sort_key_incomparable":
        odd = sorted(rank)[style % len(rank)] if len(p) < 2 else sorted(x.lower() for x in p)[style % len(p)]
        p.sort_fields(key=lambda x: "text" if x.lower() == odd else rank[x.lower()])
    elif op == "dump_fault":
        text_mode = a[1] == "text"
        cnt = faulty_writer(text_mode)
        p.dump(cnt, text_mode=text_mode)            # how many write() calls a dump of this paragraph makes
        if cnt.n:
            fault["exc"] = make_fault(c["exc"])
            fd = faulty_writer(text_mode, fault_index(a[0], cnt.n), fault["exc"])
            if text_mode:
                p.dump(fd, text_mode=True) if style % 2 == 0 else p.dump(fd, None, True)
            else:
                p.dump(fd) if style % 2 == 0 else p.dump(fd=fd, encoding="utf-8")
    elif op == "set":
        p[names[a[0]]] = values[(a[0], a[1])]
    elif op == "del":
        del p[names[a[0]]]
    elif op == "pop":
        p.pop(names[a[0]])
    elif op == "popitem":
        p.popitem()
    elif op == "clear":
        p.clear()
    elif op == "setdefault":
        p.setdefault(names[a[0]], values[(a[0], a[1])])
    elif op == "update":
        pairs = [(names[a[0]], values[(a[0], a[1])]), (names[a[2]], values[(a[2], a[3])])]
        p.update(dict(pairs) if style % 2 == 0 else pairs)
    elif op == "order_first":
        p.order_first(names[a[0]])
    elif op == "order_last":
        p.order_last(names[a[0]])
    elif op == "order_before":
        p.order_before(names[a[0]], names[a[1]])
    elif op == "order_after":
        p.order_after(names[a[0]], names[a[1]])
    elif op == "sort_fields":
        p.sort_fields() if style % 2 == 0 else p.sort_fields(None)
    elif op == "sort_fields_key":
        p.sort_fields(key=lambda x: -rank[x.lower()])
    elif op in ("merge_from_other", "merge_only_here"):
        other = {names[a[0]]: values[(a[0], a[1])]} if op == "merge_from_other" else {}
        if style % 3 == 1:
            other = _cls("Deb822")(other)
        if style % 3 == 2:
            with warnings.catch_warnings():
                warnings.simplefilter("ignore")
                p.mergeFields(names[a[0]], other)
        else:
            p.merge_fields(names[a[0]], other)
    elif op == "render":
        {"dump": p.dump, "str": lambda: str(p), "bytes": lambda: bytes(p)}[a[0]]()
    else:
        raise core.MachineryError("unknown edit %r" % op)


def edits_conc(rng, nkeys=3, canonical=False):
    taken = {NEW_KEY.lower()}
    ks = []
    for _ in range(nkeys):
        k = gen_key(rng, taken, canonical)
        taken.add(k.lower())
        ks.append(k)
    ks.sort(key=str.lower)            # rank = position in the case-insensitive sort order (sort_fields default)
    names = {i + 1: k for i, k in enumerate(ks)}
    values = {}
    for k in names:
        values[(k, 1)] = gen_data(rng, canonical)
        values[(k, 2)] = "\n" + gen_cont(rng, canonical) + "\n" + gen_cont(rng, canonical)
    return names, values


def model_fields(state, names, values):
    """model state <<[k, v]>> -> [(name, value)] (v = <<100+k>> -> alternative 1, <<0, 200+k, 300+k>> -> 2)"""
    return [(names[f["k"]], values[(f["k"], 1 if len(f["v"]) == 1 else 2)]) for f in state]


def exec_edits(case, drifts=None):
    """case: names {rank: name}, values {(rank, alt): text} as [[rank, alt, text]], init, steps [{op, args, style, expect}],
    entry (parse variant).  Returns None or a message"""
    names = {int(k): v for k, v in case["names"].items()}
    values = {(k, a): t for k, a, t in case["values"]}
    rank = {v.lower(): k for k, v in names.items()}
    init = [tuple(kv) for kv in case["init"]]
    text = build_and_dump([init])
    if isinstance(text, tuple):
        return "cannot build the initial paragraph: %r" % (text,)
    got, objs = call_parse(case["entry"], text.split("\n")[:-1])
    want0 = [init] if case["entry"]["via"] == "iter" else init
    if got != want0 or not objs:
        return "%s = %s" % (vdesc(case["entry"]), brief(got, want0))
    p = objs[0]
    _, msg = check_renderings(p, init, 0)
    if msg:
        return "freshly parsed by %s: %s" % (vdesc(case["entry"]), msg)
    done = []
    for n, st in enumerate(case["steps"]):
        done.append("%s%s" % (st["op"], tuple(st["args"])))
        out, exc = apply_edit(p, st, names, values, rank)
        res = st.get("res", "ok")
        if out != res:
            call = done[-1] + ((" [value %r]" % st["conc"]["bad"][:200]) if st["op"] == "refused_set" else "")
            if st["op"] == "refused_set" and out == "ok":
                # the tree stores a value the specification refuses: what follows is outside the domain (value validation
                # itself is C08) -- executed, no verdict
                if drifts is not None:
                    drifts.append("refused assignment carried out (unspecified from here on): %s" % call)
                return None
            return ("after %s: %s %s, specification: %s" % (
                " ; ".join(done[:-1]) or "parsing", call,
                "returned normally" if out == "ok" else str(exc) if isinstance(exc, LibraryObservation)
                else "raised %s: %s" % (type(exc).__name__, exc),
                {"ok": "the call succeeds", "caller": "the exception raised by the caller's own object comes out"}.get(res, "raises " + res)))
        want = [tuple(kv) for kv in st["expect"]]
        _, msg = check_renderings(p, want, n)
        if msg:
            return "history %s on one paragraph (parsed by %s): %s%s" % (
                " ; ".join(done), vdesc(case["entry"]),
                "(the last call ended with %s, the paragraph must be what it was) " % res if res != "ok" else "", msg)
    return None


def edits_case(rng, path, n):
    names, values = edits_conc(rng, canonical=(n % 5 == 0))
    init_state = path[0]["from"] if path else []
    steps = [{"op": e["op"], "args": e["args"], "style": rng.randrange(6), "res": e["res"],
              "expect": [list(kv) for kv in model_fields(e["to"], names, values)]} for e in path]
    for st in steps:
        if st["op"] in REFUSED_OPS:
            st["conc"] = refused_conc(rng, st, canonical=(n % 5 == 0))
    cls = (PLAIN_CLASSES + ("Dsc", "Changes"))[n % (len(PLAIN_CLASSES) + 2)]
    form = ALL_FORMS[n % len(ALL_FORMS)] if cls in PLAIN_CLASSES else ("str", "bytes")[n % 2]
    entry = {"cls": cls, "via": ("ctor", "iter")[n % 2] if cls in PLAIN_CLASSES else "ctor", "style": ("pos", "kw", "kwseq")[n % 3],
             "form": form, "strict": None}
    return {"kind": "edits", "names": {str(k): v for k, v in names.items()}, "values": [[k, a, t] for (k, a), t in sorted(values.items())],
            "init": [list(kv) for kv in model_fields(init_state, names, values)], "steps": steps, "entry": entry}


# recorded edit histories (code -> spec): a larger alphabet, every event carries what the real reader gets back
# from every rendering of the object

def record_edits(rng, nkeys, nops):
    names, values = edits_conc(rng, nkeys)
    rank = {v.lower(): k for k, v in names.items()}

    def split(v):
        return v.split("\n")

    def proj(items):
        return [{"k": rank[k.lower()], "v": split(v)} for k, v in items]
    start = rng.sample(sorted(names), rng.randint(1, nkeys))
    init = [(names[k], values[(k, rng.choice((1, 2)))]) for k in start]
    text = build_and_dump([init])
    try:
        p = _cls("Deb822")(text)
    except Exception as e:          # an exception of the code under test is an observation: an unexplainable history
        err = [{"k": 0, "v": ["parsing %r raised %s: %s" % (text, type(e).__name__, e)]}]
        return {"init": proj(init), "names": {str(k): v for k, v in names.items()},
                "values": [[k, a, t] for (k, a), t in sorted(values.items())],
                "events": [{"op": "render", "k": 1, "r": 1, "v": [""], "v2": [""], "how": "", "res": "ok", "obs": err, "rend": [],
                            "same": False, "args": ["dump"], "style": 0, "conc": None}], "carried_out": []}
    events = []
    ops = ["set", "set", "del", "pop", "popitem", "setdefault", "update", "order_first", "order_last", "order_before",
           "order_after", "sort_fields", "sort_fields_key", "merge_from_other", "merge_only_here", "render", "render", "clear",
           "refused_set", "refused_set", "refused_set", "absent", "popitem_empty", "sort_key_fault", "sort_key_incomparable", "dump_fault"]
    carried = []
    for n in range(nops):
        try:
            present = [rank[k.lower()] for k in p]
        except Exception as e:      # the paragraph cannot be listed any more: an unexplainable observation ends the history
            events.append({"op": "render", "k": 1, "r": 1, "v": [""], "v2": [""], "how": "", "res": "ok", "rend": [], "same": False,
                           "obs": [{"k": 0, "v": ["listing the paragraph raised %s: %s" % (type(e).__name__, e)]}],
                           "args": ["dump"], "style": 0, "conc": None})
            break
        absent = [k for k in names if k not in present]
        op = rng.choice(ops)
        k = rng.choice(sorted(names))
        r = rng.choice(sorted(names))
        a, b = rng.choice((1, 2)), rng.choice((1, 2))
        if op in ("del", "pop", "order_first", "order_last", "merge_only_here"):
            if not present:
                continue
            k = rng.choice(present)
        if op in ("order_before", "order_after"):
            if len(present) < 2:
                continue
            k, r = rng.sample(present, 2)
        if op == "popitem" and not present:
            continue
        if op == "clear" and (not present or rng.random() < 0.7):
            continue
        if op == "merge_from_other":
            if not absent:
                continue
            k = rng.choice(absent)
        if op == "update" and k == r:
            continue
        how = ""
        if op == "refused_set":
            how = rng.choice(("set", "set", "setdefault", "update", "merge"))
            if how == "merge" or (how == "setdefault" and rng.random() < 0.7) or rng.random() < 0.4:
                if not absent:              # mostly names the paragraph does not have (yet / any more)
                    continue
                k = rng.choice(absent)
        if op == "absent":
            if not absent:
                continue
            k, how = rng.choice(absent), rng.choice(("del", "pop", "pop_default"))
        if op == "popitem_empty" and present:
            continue
        pos = rng.choice(("first", "middle", "last"))
        st = {"op": op, "style": rng.randrange(6),
              "args": {"set": [k, a], "setdefault": [k, a], "merge_from_other": [k, a], "update": [k, a, r, b],
                       "order_before": [k, r], "order_after": [k, r], "render": [rng.choice(("dump", "str", "bytes"))],
                       "refused_set": [k, rng.choice(("nl_end", "blank_line", "no_indent")), how], "absent": [k, how],
                       "popitem_empty": [], "sort_key_fault": [pos], "sort_key_incomparable": [],
                       "dump_fault": [pos, rng.choice(("binary", "text"))]}.get(op, [k])}
        if op in REFUSED_OPS:
            st["conc"] = refused_conc(rng, st)
        out, _ = apply_edit(p, st, names, values, rank)
        if op == "refused_set" and out == "ok" and (how != "setdefault" or k in absent):
            # the tree stores a value the harness built to be refused: the rest of the history is outside the domain
            carried.append("%s%s value %r" % (op, tuple(st["args"]), st["conc"]["bad"][:200]))
            break
        try:
            rs = renderings(p)
            rend = []
            for i, (_, t) in enumerate(rs):
                back, _ = read_iter("Deb822", make_input(ALL_FORMS[(n + i) % len(ALL_FORMS)], t.split("\n")[:-1] if t else []))
                rend.append([proj(x) for x in back] if not isinstance(back, tuple) else [[{"k": 0, "v": [back[1]]}]])
            same = all(t == rs[0][1] for _, t in rs)
            obs = proj(items_of(p))
        except core.MachineryError:
            raise
        except Exception as e:
            obs, rend, same = [{"k": 0, "v": ["%s: %s" % (type(e).__name__, e)]}], [], False
        events.append({"op": op, "k": k, "r": r, "v": split(values[(k, a)]), "v2": split(values[(r, b)]), "how": how, "res": out,
                       "obs": obs, "rend": rend, "same": same, "args": st["args"], "style": st["style"], "conc": st.get("conc")})
    return {"init": proj(init), "events": events, "names": {str(k): v for k, v in names.items()},
            "values": [[k, a, t] for (k, a), t in sorted(values.items())], "carried_out": carried}


def rerecord_edits(t):
    """perform the recorded calls again on the current tree"""
    names = {int(k): v for k, v in t["names"].items()}
    values = {(k, a): x for k, a, x in t["values"]}
    rank = {v.lower(): k for k, v in names.items()}

    def proj(items):
        return [{"k": rank[k.lower()], "v": v.split("\n")} for k, v in items]
    init = [(names[f["k"]], "\n".join(f["v"])) for f in t["init"]]
    try:
        p = _cls("Deb822")(build_and_dump([init]))
    except Exception as ex:
        return dict(t, events=[dict(t["events"][0], obs=[{"k": 0, "v": ["%s: %s" % (type(ex).__name__, ex)]}], rend=[], same=False)])
    events = []
    for n, e in enumerate(t["events"]):
        out, _ = apply_edit(p, {"op": e["op"], "args": e["args"], "style": e["style"], "conc": e.get("conc")}, names, values, rank)
        if e["op"] == "refused_set" and out == "ok" and e["res"] != "ok":
            break                           # the refused assignment is carried out now: outside the domain from here on
        try:
            rs = renderings(p)
            rend = []
            for i, (_, x) in enumerate(rs):
                back, _ = read_iter("Deb822", make_input(ALL_FORMS[(n + i) % len(ALL_FORMS)], x.split("\n")[:-1] if x else []))
                rend.append([proj(y) for y in back] if not isinstance(back, tuple) else [[{"k": 0, "v": [back[1]]}]])
            events.append(dict(e, res=out, obs=proj(items_of(p)), rend=rend, same=all(x == rs[0][1] for _, x in rs)))
        except core.MachineryError:
            raise
        except Exception as ex:
            events.append(dict(e, res=out, obs=[{"k": 0, "v": ["%s: %s" % (type(ex).__name__, ex)]}], rend=[], same=False))
    return dict(t, events=events)


def _ef(k, *v):
    return {"k": k, "v": list(v)}


def _eev(op, k, r, obs, rend=None, same=True, how="", res="ok"):
    return {"op": op, "k": k, "r": r, "v": ["x"], "v2": ["y"], "obs": obs, "rend": [[obs] if obs else []] * 3 if rend is None else rend,
            "same": same, "how": how, "res": res}


# hand-written control histories the specification must NOT explain (independent of the code under test)
EDIT_CONTROLS = [
    # a rendering that still shows the order before order_first (a stale render memo)
    {"init": [_ef(1, "a"), _ef(2, "b")],
     "events": [_eev("render", 1, 1, [_ef(1, "a"), _ef(2, "b")]),
                _eev("order_first", 2, 1, [_ef(2, "b"), _ef(1, "a")], rend=[[[_ef(2, "b"), _ef(1, "a")]], [[_ef(1, "a"), _ef(2, "b")]]])]},
    # renderings that disagree
    {"init": [_ef(1, "a")], "events": [_eev("sort_fields", 1, 1, [_ef(1, "a")], same=False)]},
    # sort_fields that does not sort
    {"init": [_ef(2, "b"), _ef(1, "a")], "events": [_eev("sort_fields", 1, 1, [_ef(2, "b"), _ef(1, "a")])]},
    # a deleted field that is still rendered
    {"init": [_ef(1, "a"), _ef(2, "b")], "events": [_eev("del", 1, 1, [_ef(2, "b")], rend=[[[_ef(1, "a"), _ef(2, "b")]]])]},
    # a refused assignment to a name the paragraph does not have that leaves the name behind (without / with a value)
    {"init": [_ef(1, "a")], "events": [_eev("refused_set", 2, 1, [_ef(1, "a"), _ef(2)], rend=[], same=False, how="set", res="ValueError")]},
    {"init": [_ef(1, "a")], "events": [_eev("refused_set", 2, 1, [_ef(1, "a"), _ef(2, "x")], how="update", res="ValueError")]},
    # ... whose damage shows in the next, valid, call only
    {"init": [_ef(1, "a")], "events": [_eev("refused_set", 2, 1, [_ef(1, "a")], how="setdefault", res="ValueError"),
                                       _eev("render", 1, 1, [_ef(1, "a")], rend=[[[_ef(1, "a"), _ef(2, "x")]]])]},
    # a refused assignment to an existing name that removes the field
    {"init": [_ef(1, "a"), _ef(2, "b")], "events": [_eev("refused_set", 2, 1, [_ef(1, "a")], how="set", res="ValueError")]},
    # a refused assignment that is reported with another outcome than the documented one; setdefault of a present name raising
    {"init": [_ef(1, "a")], "events": [_eev("refused_set", 2, 1, [_ef(1, "a")], how="set", res="other:AttributeError")]},
    {"init": [_ef(1, "a")], "events": [_eev("refused_set", 1, 1, [_ef(1, "a")], how="setdefault", res="ValueError")]},
    # the caller's key function fails: the exception is swallowed / the order is changed / fields are lost
    {"init": [_ef(2, "b"), _ef(1, "a")], "events": [_eev("sort_key_fault", 1, 1, [_ef(2, "b"), _ef(1, "a")], res="ok")]},
    {"init": [_ef(2, "b"), _ef(1, "a")], "events": [_eev("sort_key_fault", 1, 1, [_ef(1, "a"), _ef(2, "b")], res="caller")]},
    {"init": [_ef(2, "b"), _ef(1, "a")], "events": [_eev("sort_key_incomparable", 1, 1, [], res="TypeError")]},
    # the caller's file object fails in dump(fd): another exception comes out / the paragraph is emptied
    {"init": [_ef(1, "a")], "events": [_eev("dump_fault", 1, 1, [_ef(1, "a")], res="other:RuntimeError")]},
    {"init": [_ef(1, "a")], "events": [_eev("dump_fault", 1, 1, [], res="caller")]},
    # deleting an absent name succeeds silently / removes another field
    {"init": [_ef(1, "a")], "events": [_eev("absent", 2, 1, [_ef(1, "a")], how="del", res="ok")]},
    {"init": [_ef(1, "a")], "events": [_eev("absent", 2, 1, [], how="pop", res="KeyError")]},
]


def validate_edits(ctx, traces, diag=False):
    """TLC (TraceDeb822ReaderEdits) on the recorded edit histories + controls; returns (rejected ids, progress, result)"""
    path = os.path.join(ctx.work, "edit-traces-%d.json" % (1 if diag else 0))
    keep = ("op", "k", "r", "v", "v2", "how", "res", "obs", "rend", "same")
    allt = [{"init": t["init"], "events": [{k: e[k] for k in keep} for e in t["events"]]} for t in traces] + ([] if diag else EDIT_CONTROLS)
    with open(path, "w") as f:
        json.dump(allt, f)
    r = core.run_tlc("TraceDeb822ReaderEdits", "TraceDeb822ReaderEdits.cfg", ctx.work, workers=1,
                     env={"TRACE_FILE": path, "TRACE_DIAG": "1" if diag else "0"}, want_tags={"ACCEPTED", "AT"},
                     timeout=900 if ctx.tier == "quick" else 3600)
    if r.violated:
        raise core.MachineryError("trace module TraceDeb822ReaderEdits reported %s\n%s" % (r.violated, r.tail))
    acc = {v if isinstance(v, int) else v[0] for v in r.printed.get("ACCEPTED", [])}
    if any(i > len(traces) for i in acc):
        raise core.MachineryError("TraceDeb822ReaderEdits accepted a corrupted control history: binding is vacuous")
    prog = {}
    for v in r.printed.get("AT", []):
        prog[v[0]] = max(prog.get(v[0], 0), v[1])
    return [i for i in range(1, len(traces) + 1) if i not in acc], prog, r


# ------------------------------------------------------------------ TLC configurations

def cfg_text(name, **sub):
    import re
    s = open(core.SPEC + "/" + name).read()
    for k, v in sub.items():
        s, cnt = re.subn(r"(?m)^(\s*%s\s*=\s*).*$" % k, lambda m: m.group(1) + v, s)
        if cnt != 1:
            raise core.MachineryError("cfg %s: cannot substitute %s" % (name, k))
    return s


def run(ctx):
    import warnings
    warnings.filterwarnings("ignore", message="Parsing of Deb822 data with python3-apt")
    warnings.filterwarnings("ignore", message="decoding from .* failed; attempting to detect")
    quick = ctx.tier == "quick"
    rng = ctx.rng
    ctx.import_repo()
    os.environ["C02_SCRATCH"] = ctx.work
    budget = int(os.environ.get("VERIF_TLC_WORKERS", "0") or 0) or core.NCPU     # TLC workers in use at a time
    workers = max(2, min(8, budget // 2))
    maxtotal = 3 if quick else 4            # documents emitted as CASE lines and replayed
    armor_fields = 2 if quick else 3        # single paragraphs checked inside armor
    armor_hdrs = [0, 1] if quick else [0, 1, 2]
    ctx.assumptions += [
        "bounded: documents of <= 3 paragraphs x <= 3 fields, <= %d fields in all, values with empty/non-empty first line and 0..2 continuation lines; armor shapes nh in %s x blank before signature x blank/header after BEGIN PGP SIGNATURE" % (maxtotal, armor_hdrs),
        "closed automaton: one line per class, 2 names; history-free VIEW",
        "payload text is sampled (seeded): Policy-valid names, printable/UTF-8 values, no DESIGN D1 character inside a line, no Unicode white space at the ends of the first line",
        "diagnostic only (spec_drift): white-space-only lines, junk / stray PGP lines, Deb822(x) on multi-paragraph input, strict whitespace-separates-paragraphs=False",
        "unspecified: " + GPGMV_ZONE,
        "trusted: TLC, the concretizer (line class by construction, self-checked), the projection items() / value.split('\\n') / dump()",
    ]

    import time
    tm = ctx.extra.setdefault("phase_wall_s", {})
    t_ = time.time()
    # 1. design level, concurrently: closed automaton (2 strictness values), bounded documents
    #    (multi-paragraph: no armor; single paragraph: armor + Dsc pre-pass), negative controls
    inv_multi = ["RoundTrip", "ParseOneOk", "CommentInvariant", "LeadingBlankInvariant", "TrailingInvariant",
                 "SeparatorInvariant", "FieldsInvariant", "EmitWs", "EmitCase"]
    inv_armor = ["RoundTrip", "ArmorInvariant", "GpgMvAgrees"]

    def bnd_cfg(inv, **sub):
        import re
        s = cfg_text("MC_Deb822Reader_bnd.cfg", **sub)
        s = re.sub(r"(?m)^INVARIANT .*\n", "", s)
        return s + "".join("INVARIANT %s\n" % i for i in inv)

    hdrs = "{%s}" % ", ".join(map(str, armor_hdrs))
    inv_deep = ["RoundTrip", "ParseOneOk", "CommentAllInvariant"]
    light = [
        dict(name="lts", cfg="MC_Deb822Reader_lts.cfg", workers=2, tags={"EDGE"}),
    ]
    if not quick:
        light.append(dict(name="lts_nows", cfg="MC_Deb822Reader_lts_nows.cfg", workers=1, tags={"EDGE"}))
    bigsel = "{1, 2, 3, 4, 5, 6, 7, 8, 9, 10, 11}"
    big_job = dict(name="bnd_big", workers=workers, tags={"CASE"}, java_opts=["-Xss256m"],
                   cfg=bnd_cfg(["BigInvariant", "EmitCase"], BigSel=bigsel, Emit="TRUE").replace("SPECIFICATION BSpec", "SPECIFICATION BigSpec"))
    if quick:
        # one run: the multi-paragraph invariants for every document, the armor invariants for the small single paragraphs
        heavy = [
            dict(name="bnd_docs", cfg=bnd_cfg(inv_multi[:-2] + inv_armor[1:] + inv_multi[-2:], MaxTotal=str(maxtotal), Emit="TRUE",
                                              ArmorHdrs=hdrs, SigBools="{TRUE}", ArmorMaxFields=str(armor_fields)),
                 workers=workers, tags={"CASE", "WSAT"}),
            big_job,
        ]
    else:
        heavy = [
            dict(name="bnd_docs", cfg=bnd_cfg(inv_multi, MaxTotal=str(maxtotal), Emit="TRUE"), workers=workers, tags={"CASE", "WSAT"}),
            dict(name="bnd_deep", cfg=bnd_cfg(inv_deep, MaxTotal="5"), workers=workers, tags=set()),
            dict(name="bnd_armor", cfg=bnd_cfg(inv_armor, MaxPara="1", MaxTotal=str(armor_fields), ArmorHdrs=hdrs),
                 workers=workers, tags=set()),
            dict(name="bnd_wide", cfg=bnd_cfg(inv_multi[:-2], MaxTotal="9", MaxCont="1", ShapeMode="1"), workers=workers, tags=set()),
            big_job,
        ]
    controls = NEG_CONTROLS if not quick else [NEG_CONTROLS[ctx.seed % len(NEG_CONTROLS)]]
    for const, val, inv in controls:
        light.append(dict(name="neg:%s=%s" % (const, val), expect=inv, workers=1, tags=set(),
                          cfg=cfg_text("MC_Deb822Reader_bnd.cfg", MaxTotal="2", MaxCont="1", ArmorHdrs="{1}", **{const: val})))
    kinds = '{"heavy"}' if quick else '{"heavy", "del", "first"}'
    light.append(dict(name="calls", module="Deb822ReaderCalls", workers=3 if quick else 4, tags={"EDGE", "DOCS"},
                      cfg=cfg_text("MC_Deb822ReaderCalls.cfg", Kinds=kinds)))
    light.append(dict(name="calls_faults", module="Deb822ReaderCalls", workers=1, tags={"EDGE", "DOCS"},
                      cfg=cfg_text("MC_Deb822ReaderCalls.cfg", Kinds='{"heavy"}', MaxObjs="2", MaxIters="1",
                                   FaultPos='{"first", "middle", "last"}')))
    light.append(dict(name="edits", module="Deb822ReaderEdits", workers=2, tags={"EDGE"}, cfg="MC_Deb822ReaderEdits.cfg"))
    light.append(dict(name="neg:RenderMemoClearedBySetDelOnly", module="Deb822ReaderEdits", expect="RendersCurrent", workers=1, tags=set(),
                      cfg=cfg_text("MC_Deb822ReaderEdits.cfg", UseMemo="TRUE", MemoClearedBy='{"set", "del"}', Emit="FALSE")))
    light.append(dict(name="neg:RefusedLeaksKey=TRUE", module="Deb822ReaderEdits", expect="RendersCurrent", workers=1, tags=set(),
                      cfg=cfg_text("MC_Deb822ReaderEdits.cfg", RefusedLeaksKey="TRUE", Emit="FALSE")))
    # the transport below the line-level reader (Deb822Stream): the lines delivered do not depend on the block cuts
    #  quick: documents of <= 2 fields, alternating line widths, block cuts of every size and phase + one short read;
    #  thorough: all width modes, and documents of <= 3 fields / two armor shapes under block cuts
    # -Xss64m: the recursive operators of Deb822Stream overflow the default thread stack when the JIT is slow (loaded machine)
    light.append(dict(name="stream", module="Deb822Stream", workers=2, tags=set(), java_opts=["-Xss64m"],
                      cfg=cfg_text("MC_Deb822Stream.cfg", WidthModes="{3}") if quick else "MC_Deb822Stream.cfg"))
    if not quick:
        light.append(dict(name="stream_wide", module="Deb822Stream", workers=4, tags=set(), java_opts=["-Xss64m"],
                          cfg=cfg_text("MC_Deb822Stream.cfg", MaxTotal="3", MaxFields="3", ShortReads="FALSE", ArmorHdrs="{0, 1}",
                                       ArmorMaxFields="2")))
    for const, inv in (STREAM_CONTROLS if not quick else [STREAM_CONTROLS[ctx.seed % len(STREAM_CONTROLS)]]):
        import re as _re
        c = cfg_text("MC_Deb822Stream.cfg", ShortReads="FALSE", **{const: "TRUE"})
        c = _re.sub(r"(?m)^INVARIANT .*\n", "", c) + "INVARIANT %s\n" % inv
        light.append(dict(name="neg:%s=TRUE" % const, module="Deb822Stream", expect=inv, workers=1, tags=set(), cfg=c, java_opts=["-Xss64m"]))
    call_controls = [("SharedResults", "INVARIANT ReturnedFresh", "ReturnedFresh"),
                     ("SharedIterObject", "PROPERTY NoSpontaneousChange", "NoSpontaneousChange"),
                     ("FaultSharesStorage", "PROPERTY FaultsChangeNothing", "FaultsChangeNothing")]
    for const, prop, inv in (call_controls if not quick else [call_controls[ctx.seed % 3]]):
        import re as _re
        c = cfg_text("MC_Deb822ReaderCalls.cfg", Kinds='{"heavy"}', Emit="FALSE", FaultPos='{"first"}', **{const: "TRUE"})
        c = _re.sub(r"(?m)^(INVARIANT|PROPERTY) .*\n", "", c) + prop + "\n"
        light.append(dict(name="neg:%s=TRUE" % const, module="Deb822ReaderCalls", expect=inv, workers=1, tags=set(), cfg=c))
    timeout = 900 if quick else 3600

    def one(j):
        return core.run_tlc(j.get("module", "Deb822Reader"), j["cfg"], ctx.work, workers=j["workers"], want_tags=j["tags"],
                            timeout=timeout, java_opts=j.get("java_opts"))

    # the heavy configurations in two chains sharing the worker budget, the light ones (1 worker) beside them
    light.sort(key=lambda j: 0 if j["name"] == "calls" else 1)      # the longest light job first
    with ThreadPoolExecutor(max_workers=2) as hx, ThreadPoolExecutor(max_workers=4) as lx:
        f_heavy = [hx.submit(one, j) for j in heavy]
        f_light = [lx.submit(one, j) for j in light]
        jobs = light + heavy
        results = [f.result() for f in f_light + f_heavy]
    res = {}
    for j, r in zip(jobs, results):
        ctx.tlc_runs.append({"module": j.get("module", "Deb822Reader"), "config": j["name"], "generated": r.generated, "distinct": r.distinct,
                             "depth": r.depth, "wall_s": round(r.wall, 2), "violated": r.violated})
        if j.get("expect"):
            if r.violated != j["expect"]:
                raise core.MachineryError("negative control %s: expected TLC to report %s, got %r" % (j["name"], j["expect"], r.violated))
            ctx.extra.setdefault("spec_negative_controls", {})[j["name"]] = "violates " + r.violated
        else:
            if r.violated:
                raise core.MachineryError("specification %s (%s) violates %s\n%s" % (j.get("module", "Deb822Reader"), j["name"], r.violated, r.tail))
            ctx.states += r.distinct
            ctx.transitions += r.generated
        res[j["name"]] = r

    edges = res["lts"].printed.get("EDGE", [])
    edges.sort(key=lambda e: (skey(e["from"]), e["c"], e["k"], e["b"]))       # emission order depends on the workers
    if len(edges) != res["lts"].generated - 2 or any(not isinstance(e, dict) for e in edges):
        raise core.MachineryError("closed automaton: %d EDGE lines for %d generated states" % (len(edges), res["lts"].generated))
    per_branch = {}
    for e in edges + (res["lts_nows"].printed.get("EDGE", []) if "lts_nows" in res else []):
        per_branch[e["b"]] = per_branch.get(e["b"], 0) + 1
    ctx.extra["edges_per_branch"] = dict(sorted(per_branch.items()))
    ctx.extra["model"] = {"automaton_states": res["lts"].distinct, "automaton_edges": len(edges),
                          "documents": res["bnd_docs"].distinct,
                          "single_paragraph_documents_armored": res["bnd_armor"].distinct if "bnd_armor" in res else sum(6 ** n for n in range(1, armor_fields + 1)),
                          "MaxPara": 3, "MaxFields": 3, "MaxCont": 2, "MaxTotal": maxtotal, "ArmorHdrs": armor_hdrs,
                          "ArmorMaxFields": armor_fields,
                          "wide_documents(3x3, 2 shapes)": res["bnd_wide"].distinct if "bnd_wide" in res else 0,
                          "deep_documents(MaxTotal 5)": res["bnd_deep"].distinct if "bnd_deep" in res else 0}
    ctx.extra["model"]["transport(Deb822Stream)"] = {
        "documents": res["stream"].distinct + (res["stream_wide"].distinct if "stream_wide" in res else 0),
        "BlockSizes": [2, 3, 4], "phases": "every", "short_reads": "one more cut anywhere; byte by byte",
        "families": "dump, comment before every line, leading + trailing lines, armor (single paragraphs)",
        "position": "k lines already handed to the caller (junk / comment / blank-terminated header: rest = P; OneEnd lines = Deb822(f): "
                    "rest = Tail(P)) under every cutting (PositionInvariant); ReadOnInvariant over comments / leads / trails / separators"}
    cases = res["bnd_docs"].printed.get("CASE", [])
    if len(cases) != res["bnd_docs"].distinct or any(not isinstance(c, dict) for c in cases):
        raise core.MachineryError("bounded configuration: %d CASE lines for %d states" % (len(cases), res["bnd_docs"].distinct))
    cases.sort(key=lambda c: (c["np"], len(c["lines"]), skey(c["shape"])))
    ws_by_shape = {}
    for w in res["bnd_docs"].printed.get("WSAT", []):
        if isinstance(w, dict):
            ws_by_shape[skey(w["shape"])] = w
    for c in cases:
        c["wsat"] = ws_by_shape.get(skey(c["shape"]))
    ctx.extra["model"]["documents_with_strictness_expectations"] = sum(1 for c in cases if c["wsat"])
    bigcases = [c for c in res["bnd_big"].printed.get("CASE", []) if isinstance(c, dict) and c["np"] > 0]
    if 2 * len(bigcases) != res["bnd_big"].distinct:
        raise core.MachineryError("size-stress configuration: %d CASE lines for %d states" % (len(bigcases), res["bnd_big"].distinct))
    bigcases.sort(key=lambda c: (len(c["lines"]), c["np"]))
    for c in bigcases:
        c["big"] = True
    # the large documents are spread over the list (and over the worker processes of the thorough tier)
    step = max(1, len(cases) // (len(bigcases) + 1))
    for i, c in enumerate(bigcases):
        cases.insert(min(len(cases), (i + 1) * step + i), c)
    ctx.extra["model"]["large_documents(paragraphs x fields x continuation lines)"] = [
        "%dx%dx%d" % (c["np"], max(len(p) for p in c["doc"]), max(len(f["v"]) - 1 for p in c["doc"] for f in p)) for c in bigcases]

    tm["tlc_design"] = round(time.time() - t_, 1)
    t_ = time.time()
    # 2. (a) replay of every CASE
    for case in cases:
        if case["parse"] != case["doc"]:
            raise core.MachineryError("CASE with Parse(Dump(P)) # P although RoundTrip holds")
    k = 1 if quick else 2
    items = list(enumerate(cases))
    nproc = max(1, min(4 if quick else 8, budget // 2))
    nchunks = 1 if nproc == 1 else (12 if quick else 48)
    chunks = [(ctx.seed, ctx.repo, items[i::nchunks], k, quick, armor_hdrs, armor_fields, i, nchunks) for i in range(nchunks)]
    if nproc == 1:
        outs = [replay_chunk(c) for c in chunks]
    else:
        import multiprocessing
        with multiprocessing.get_context("fork").Pool(nproc) as pool:
            outs = pool.map(replay_chunk, chunks)
    stats = {}
    all_bad = []
    n_unspec_logged = {}
    for st, drifts, bad in outs:
        for kk, v in st.items():
            if kk.startswith("max:"):
                stats[kk] = max(stats.get(kk, 0), v)
            elif kk.startswith("set:"):
                stats[kk] = sorted(set(stats.get(kk, [])) | set(v))
            else:
                stats[kk] = stats.get(kk, 0) + v
        for d in drifts:
            if d.startswith("UNSPECIFIED"):
                cat = d[:24]
                n_unspec_logged[cat] = n_unspec_logged.get(cat, 0) + 1
                if n_unspec_logged[cat] > 2:
                    continue
            ctx.drift(d)
        all_bad += bad
    all_bad.sort(key=lambda x: (x[0], x[1].get("variant", "") != "plain", x[1].get("variant", ""),
                                ALL_FORMS.index(x[1].get("form") or x[1].get("v", {}).get("form", "str")), x[1]["api"],
                                json.dumps(x[1].get("v"), sort_keys=True)))
    for idx, job, msg in all_bad[:5]:
        ctx.violation({"kind": "doc", "job": job, "shape": cases[idx]["shape"]}, msg)
    for idx, case in items:
        for c in range(k):
            ctx.case_seen(("case", skey(case["shape"])), nontrivial=bool(case["doc"]))
    nfull = stats.pop("full", 0)
    ctx.traces += len(cases)
    ctx.evaluations += stats["runs"]
    ctx.extra["replay"] = dict(sorted(stats.items()))
    ctx.extra["replay"]["cases"] = len(cases)
    ctx.extra["replay"]["cases_with_all_variants_all_forms"] = nfull
    if stats.get("skipped_due_to_drift", 0) * 20 > max(1, len(cases)):
        raise core.MachineryError("more than 5% of the cases skipped because dump() drifted from Dump(P)")
    if cases:
        mid = cases[len(cases) // 2]
        conc = CaseConc(random.Random("%s-sample" % ctx.seed), mid)
        ctx.sample("CASE shape=%s -> dump %r" % (json.dumps(mid["shape"], separators=(",", ":")),
                                                 build_and_dump(conc.paragraphs(mid["doc"], padded=True))))

    tm["replay"] = round(time.time() - t_, 1)
    t_ = time.time()
    # 2b. behaviours of the call-level model (Deb822ReaderCalls): scripted and random call sequences
    cedges = res["calls"].printed.get("EDGE", [])
    cedges.sort(key=lambda e: (skey(e["from"]), e["op"], skey(e["args"])))
    cdocs = (res["calls"].printed.get("DOCS") or [None])[0]
    if len(cedges) != res["calls"].generated - 1 or not isinstance(cdocs, list) or any(d["parse"] != d["doc"] for d in cdocs):
        raise core.MachineryError("call-level model: %d EDGE lines for %d generated states / DOCS line missing"
                                  % (len(cedges), res["calls"].generated))
    cinit = [e["from"] for e in cedges if not e["from"]["heap"] and not e["from"]["its"]][0]
    cg = LTS(cedges, cinit)
    nrep, nwalks = (8, 200) if quick else (100, 6000)
    paths = []
    for sc in CALL_SCRIPTS:
        pth = follow(cg, sc)
        if len(pth) < 3:
            raise core.MachineryError("call script %r cannot be followed in the emitted LTS" % (sc,))
        paths += [pth] * nrep
    for _ in range(nwalks):
        paths.append(cg.walk(rng, cg.init, rng.randint(3, 11), weight=lambda x: 1 if x["op"] == "mutate" else 2))
    # ... and of the configuration with failing calls (the caller's line source raises): scripted and random
    fedges = res["calls_faults"].printed.get("EDGE", [])
    fedges.sort(key=lambda e: (skey(e["from"]), e["op"], skey(e["args"])))
    fdocs = (res["calls_faults"].printed.get("DOCS") or [None])[0]
    if len(fedges) != res["calls_faults"].generated - 1 or fdocs != cdocs:
        raise core.MachineryError("call-level model with failing calls: %d EDGE lines for %d generated states / other documents"
                                  % (len(fedges), res["calls_faults"].generated))
    fg = LTS(fedges, cinit)
    nrep2, nwalks2 = (4, 60) if quick else (50, 2000)
    for sc in CALL_FAULT_SCRIPTS:
        pth = follow(fg, sc)
        if len(pth) != len(sc):
            raise core.MachineryError("call script %r cannot be followed in the emitted LTS" % (sc,))
        paths += [pth] * nrep2
    for _ in range(nwalks2):
        # 12 failing calls are enabled in every state: about a third of the steps
        paths.append(fg.walk(rng, fg.init, rng.randint(4, 12), weight=lambda x: 0.5 if x["op"].endswith("_fault") else 2))
    ncalls = 0
    cdrifts = []
    cops, cfaults = {}, {}
    for n, pth in enumerate(paths):
        crng = random.Random("%s-calls-%d" % (ctx.seed, n))
        conc, texts = calls_conc(crng, cdocs, canonical=(n % 7 == 0))
        steps = calls_steps(crng, pth, conc)
        ncalls += len(steps)
        for st in steps:
            cops[st["op"]] = cops.get(st["op"], 0) + 1
            if st["op"].endswith("_fault"):
                cfaults["%s(%s) <%s> %s" % (st["op"], st["args"][1], st["form"], st["exc"])] = 1
        msg = exec_calls(steps, texts, cdrifts)
        ctx.case_seen(("calls", n), True)
        if msg:
            ctx.violation({"kind": "calls", "steps": steps, "texts": texts}, msg)
            if len(ctx.violations) >= 5:
                break
    for d in cdrifts[:3]:
        ctx.drift(d)
    ctx.traces += len(paths)
    ctx.evaluations += ncalls
    ctx.extra["calls"] = {"lts_states": len(cg.states), "lts_edges": len(cg.edges), "behaviours_replayed": len(paths),
                          "lts_with_failing_calls": {"states": len(fg.states), "edges": len(fg.edges)},
                          "calls_executed": ncalls, "per_op": cops, "kinds": kinds,
                          "failing_caller_objects(call(position) <form> exception)": len(cfaults),
                          "failing_forms": sorted({k.split("<")[1].split(">")[0] for k in cfaults}),
                          "failing_exceptions": sorted({k.split()[-1] for k in cfaults})}
    ctx.sample("call behaviour: " + " ; ".join("%s%s" % (e["op"], tuple(e["args"])) for e in follow(cg, CALL_SCRIPTS[2])))
    # 2c. edit / render histories of one live paragraph (Deb822ReaderEdits): scripted and random behaviours
    eedges = res["edits"].printed.get("EDGE", [])
    if len(eedges) != res["edits"].generated - 1 or any(not isinstance(e, dict) for e in eedges):
        raise core.MachineryError("edit model: %d EDGE lines for %d generated states" % (len(eedges), res["edits"].generated))
    eedges.sort(key=lambda e: (skey(e["from"]), e["op"], skey(e["args"])))
    einit = [e["from"] for e in eedges if len(e["from"]) == 3 and [f["k"] for f in e["from"]] == [1, 2, 3]
             and [len(f["v"]) for f in e["from"]] == [1, 3, 1]][0]
    eg = LTS(eedges, einit)
    nrep, nwalks = (6, 120) if quick else (60, 4000)
    epaths = []
    for sc in EDIT_SCRIPTS:
        pth = follow(eg, sc)
        if len(pth) != len(sc):
            raise core.MachineryError("edit script %r cannot be followed in the emitted LTS" % (sc,))
        epaths += [pth] * nrep
    for _ in range(nwalks):
        # refused / failing calls are about a quarter of the steps (27-36 refused_set edges per state: weight 1)
        epaths.append(eg.walk(rng, eg.init, rng.randint(3, 12),
                              weight=lambda x: 1 if x["op"] in ("render", "clear", "refused_set", "absent") else 3))
    eops, eres = {}, {}
    nsteps = 0
    edrifts = []
    for n, pth in enumerate(epaths):
        ecase = edits_case(random.Random("%s-edits-%d" % (ctx.seed, n)), pth, n)
        for st in ecase["steps"]:
            eops[st["op"]] = eops.get(st["op"], 0) + 1
            if st["op"] in REFUSED_OPS:
                kk = "%s%s -> %s" % (st["op"], "(%s)" % st["args"][-1] if st["op"] in ("refused_set", "absent") else "", st["res"])
                eres[kk] = eres.get(kk, 0) + 1
        nsteps += len(pth)
        msg = exec_edits(ecase, edrifts)
        ctx.case_seen(("edits", n), True)
        if msg:
            ctx.violation(ecase, msg)
            if len(ctx.violations) >= 5:
                break
    ctx.traces += len(epaths)
    ctx.evaluations += nsteps * len(RENDER_KINDS)
    ctx.extra["edits"] = {"lts_states": len(eg.states), "lts_edges": len(eg.edges), "behaviours_replayed": len(epaths),
                          "mutator_calls": nsteps, "renderings_checked": (nsteps + len(epaths)) * len(RENDER_KINDS),
                          "per_op": dict(sorted(eops.items())), "refused_or_failing_calls": dict(sorted(eres.items())),
                          "refused_assignments_carried_out(unspecified)": len(edrifts)}
    for d in edrifts[:3]:
        ctx.drift(d)
    if not ctx.violations and not edrifts:
        # every class of refused / failing call, with both outcomes where the model has two, is part of every run
        need = {"refused_set(set) -> ValueError", "refused_set(update) -> ValueError", "refused_set(merge) -> ValueError",
                "refused_set(setdefault) -> ValueError", "refused_set(setdefault) -> ok", "absent(del) -> KeyError",
                "absent(pop) -> KeyError", "absent(pop_default) -> ok", "popitem_empty -> KeyError", "sort_key_fault -> caller",
                "sort_key_fault -> ok", "sort_key_incomparable -> TypeError", "sort_key_incomparable -> ok", "dump_fault -> caller",
                "dump_fault -> ok"}
        if need - set(eres):
            raise core.MachineryError("edit histories without %s" % sorted(need - set(eres)))
    ctx.sample("edit history: " + " ; ".join("%s%s" % (e["op"], tuple(e["args"])) for e in follow(eg, EDIT_SCRIPTS[0])))
    tm["calls"] = round(time.time() - t_, 1)
    t_ = time.time()
    # 3. (b) recorded documents, prefix by prefix, validated by TLC
    ndocs = 250 if quick else 4000
    traces, meta = [], []
    prev_keep = None
    tsizes = Sizes(offset=ctx.seed % 7, huge=2 if quick else 6, p_name=0.4, p_line=0.25)
    bsizes = Sizes(offset=3 + ctx.seed % 5, huge=1, p_name=0.3, p_line=0.01)
    bigdims = BIG_TRACE_DOCS[:8] if quick else BIG_TRACE_DOCS
    bigpos = {(j + 1) * (ndocs // (len(bigdims) + 1)): d for j, d in enumerate(bigdims)}
    tstat = {"paragraphs": 0, "fields": 0, "continuation_lines": 0, "lines": 0}
    vstat = {}
    talign = tp.AlignPlan(offset=ctx.seed * 3 + 1)
    astat = {}
    nlarge = 0
    global CHARS
    CHARS = Chars(offset=ctx.seed + 11)
    for i in range(ndocs):
        only = None
        if i in bigpos:
            lines = gen_big_doc(rng, bigpos[i], bsizes)
            n = len(lines)
            only = {1, 2, 3, n - 2, n - 1, n} | set(rng.sample(range(1, n + 1), min(n, 18)))
            tstat["paragraphs"] = max(tstat["paragraphs"], bigpos[i][0])
            tstat["fields"] = max(tstat["fields"], bigpos[i][1])
            tstat["continuation_lines"] = max(tstat["continuation_lines"], bigpos[i][2])
            tstat["lines"] = max(tstat["lines"], n)
        else:
            lines = gen_doc(rng, sizes=tsizes if i % 5 == 2 else None)
        check_domain(lines)
        form = ALL_FORMS[i % len(ALL_FORMS)]
        ainfo = None
        if i % 5 == 4 and i not in bigpos:
            # transport leg: a line end / a multi-byte character steered to a multiple of 2^k, the document read
            # through a file object (rotating kind); observed at the prefixes around the steered line
            plan = talign.next()
            if plan["k"] > 13:
                nlarge += 1
                if nlarge > (2 if quick else 12):
                    plan["k"] = 13 - nlarge % 3
            al = align_lines(lines, plan)
            if al is not None:
                lines, ainfo = al
                n, at = len(lines), ainfo["line"] + 1
                only = {1, n} | {x for x in range(at - 2, at + 4) if 1 <= x <= n} | set(rng.sample(range(1, n + 1), min(n, 3)))
                form = talign.pick("text", TEXT_FILE_FORMS) if plan["chars"] else talign.pick("any", FILE_FORMS)
                if form in tp.KINDS:
                    form = tp.kind_for(form, max(ainfo["end_offset"], sum(len(x["text"]) + 1 for x in lines)))
                for kk_ in ("at:" + ainfo["at"].split(" (")[0], "where:" + ainfo["where"], "kind:" + form):
                    astat[kk_] = astat.get(kk_, 0) + 1
        final_nl = not (lines[-1]["text"] != "" and rng.random() < 0.3) or form in ("lines", "gen", "tuple", "blines", "blines_nonl")
        via = None if i % 3 == 0 else {"cls": PLAIN_CLASSES[i % len(PLAIN_CLASSES)], "style": ("pos", "kw", "kwseq")[(i // 3) % 3],
                                        "use_apt_pkg": bool(i % 2), "strict": (None, True)[(i // 2) % 2]}
        keep = []
        traces.append(record(lines, form, final_nl, keep=keep, only=only, via=via))
        vstat["%s/%s" % ((via or {}).get("cls", "Deb822"), (via or {}).get("style", "kw"))] = vstat.get(
            "%s/%s" % ((via or {}).get("cls", "Deb822"), (via or {}).get("style", "kw")), 0) + 1
        meta.append({"texts": [ln["text"] for ln in lines], "form": form, "final_nl": final_nl, "via": via, "aligned": ainfo})
        # the objects of the previous document are still alive: they must still show what was recorded
        # for them (and what TLC validates below)
        if prev_keep is not None:
            now = proj([r if not isinstance(r, tuple) else [("EXC", r[1])] for r in map(items_of, prev_keep)])
            if now != traces[-2]["final"] and len(ctx.violations) < 5:
                ctx.violation({"kind": "doc", "job": {"api": "keepalive", "lines": meta[-2]["texts"], "form": meta[-2]["form"],
                                                      "expected": [[[f["k"], "\n".join(f["v"])] for f in p] for p in traces[-2]["final"]],
                                                      "then_lines": meta[-1]["texts"]}},
                              "paragraphs of the previous recorded document changed while the next one was parsed: %r, were %r"
                              % (now, traces[-2]["final"]))
        prev_keep = keep
    # diagnostic documents: walks over the emitted automaton (junk, stray PGP lines, ws-only lines);
    # validated in the same TLC batch, a rejection is spec_drift only
    init0 = [e["from"] for e in edges if not e["from"]["raw"] and e["from"]["atBeg"] and e["from"]["first"]
             and not e["from"]["stopped"] and not e["from"]["pay"] and not e["from"]["pre"] and e["from"]["gst"] == "SAFE"][0]
    g = LTS([dict(e, op=e["c"], args=[e["k"]], res=e["b"]) for e in edges if not e["from"]["raw"]], init0)
    init = [g.init]
    nwalk = 120 if quick else 1500
    wtr, wmeta = [], []
    for i in range(nwalk):
        lines = walk_doc(rng, g, init[0], rng.randint(3, 25))
        if not lines:
            continue
        check_domain(lines)
        wtr.append(record(lines, FORMS[i % len(FORMS)]))
        wmeta.append([ln["text"] for ln in lines])
    # recorded edit / render histories of one paragraph (6 names), validated by TraceDeb822ReaderEdits beside the reader traces
    etraces = [record_edits(random.Random("%s-edit-trace-%d" % (ctx.seed, i)), 6, 20 if quick else 40) for i in range(40 if quick else 1500)]
    ecarried = [d for t in etraces for d in t["carried_out"]]
    for d in ecarried[:3]:
        ctx.drift("recorded edit history: refused assignment carried out (unspecified from there on): " + d)
    etraces = [t for t in etraces if t["events"]]
    tm["record"] = round(time.time() - t_, 1)
    t_ = time.time()
    with ThreadPoolExecutor(max_workers=1) as ex:
        f_edits = ex.submit(validate_edits, ctx, etraces)
        rej_all, info = validate(ctx, traces + wtr)
        erej, _, er = f_edits.result()
    ctx.tlc_runs.append({"module": "TraceDeb822ReaderEdits", "generated": er.generated, "distinct": er.distinct, "depth": er.depth,
                         "wall_s": round(er.wall, 2), "violated": er.violated})
    ctx.states += er.distinct
    ctx.transitions += er.generated
    ctx.extra["negative_controls_rejected"] = ctx.extra.get("negative_controls_rejected", 0) + len(EDIT_CONTROLS)
    ctx.traces += len(etraces)
    etres = {}
    for t in etraces:
        for e in t["events"]:
            if e["op"] in REFUSED_OPS:
                kk = "%s%s -> %s" % (e["op"], "(%s)" % e["how"] if e["how"] else "", e["res"])
                etres[kk] = etres.get(kk, 0) + 1
    ctx.extra["edit_traces"] = {"recorded": len(etraces), "events": sum(len(t["events"]) for t in etraces), "rejected": len(erej),
                                "refused_or_failing_calls": dict(sorted(etres.items())),
                                "refused_assignments_carried_out(unspecified)": len(ecarried)}
    if erej:
        _, eprog, _ = validate_edits(ctx, [etraces[i - 1] for i in erej[:10]], diag=True)
        for j, i in enumerate(erej[:5]):
            t = etraces[i - 1]
            at = eprog.get(j + 1, 0)
            ev = t["events"][at] if at < len(t["events"]) else None
            ctx.violation({"kind": "edit-trace", "trace": t, "first_unexplained_event": at + 1},
                          "recorded edit history of one paragraph not explained by Deb822ReaderEdits: after %s the event %s"
                          % (" ; ".join("%s%s" % (e["op"], tuple(e["args"])) for e in t["events"][:at]) or "parsing",
                             repr({k: ev[k] for k in ("op", "args", "res", "conc", "obs", "rend", "same")} if ev else None)[:1500]))
    rejected = [i for i in rej_all if i <= len(traces)]
    wrej = [i - len(traces) for i in rej_all if i > len(traces)]
    ctx.extra["diagnostic_walks"] = {"documents": len(wtr), "rejected": len(wrej)}
    for i in wrej[:5]:
        ctx.drift("automaton walk not explained (diagnostic): %r at line %d" % (wmeta[i - 1], info.get(i + len(traces), 0) + 1))
    tm["validate"] = round(time.time() - t_, 1)
    t_ = time.time()
    ctx.traces += len(traces)
    ctx.evaluations += sum(len(t["lines"]) for t in traces)
    for i in range(len(traces)):
        ctx.distinct.add(("trace", i))
    ctx.extra["size_stress"] = {
        "replay": {k[4:]: v for k, v in ctx.extra["replay"].items() if k.startswith(("max:", "set:"))},
        "traces": {"max": tstat, "large_documents": ["%dx%dx%d" % d for d in bigdims],
                   "name_lengths": sorted(tsizes.used["name"] | bsizes.used["name"]),
                   "line_lengths": sorted(tsizes.used["line"] | bsizes.used["line"]),
                   "entry_points": dict(sorted(vstat.items())),
                   "max_name_len": max((len(l["k"]) for t in traces for l in t["lines"]), default=0),
                   "max_line_len": max((len(x) for m in meta for x in m["texts"]), default=0)}}
    # transport (spec/Deb822Stream.tla; notes/SIZE_STRESS.md part 4): alignments and kinds of file objects gone through
    rp = ctx.extra["replay"]
    ctx.extra["aligned_cases"] = {
        "replay": {"documents": rp.get("aligned_documents", 0), "largest_steered_offset": rp.get("max:aligned_bytes", 0),
                   "steered_to": {k[len("aligned_at:"):]: v for k, v in rp.items() if k.startswith("aligned_at:")},
                   "line_end|next_line": {k[len("aligned_where:"):]: v for k, v in rp.items() if k.startswith("aligned_where:")},
                   "variant_families": {k[len("aligned_variant:"):]: v for k, v in rp.items() if k.startswith("aligned_variant:")}},
        "traces": {"documents": sum(v for k, v in astat.items() if k.startswith("kind:")),
                   "steered_to": {k[3:]: v for k, v in sorted(astat.items()) if k.startswith("at:")},
                   "line_end|next_line": {k[6:]: v for k, v in sorted(astat.items()) if k.startswith("where:")}}}
    fk = {}
    for k, v in list(rp.items()):
        if k.startswith(("aligned_at:", "aligned_where:", "aligned_variant:")):
            del rp[k]
        elif k.startswith("file_object_kind:"):
            fk[k[len("file_object_kind:"):]] = v
            del rp[k]
    ctx.extra["file_object_kinds"] = {
        "aligned_replay": dict(sorted(fk.items())),
        "aligned_traces": {k[5:]: v for k, v in sorted(astat.items()) if k.startswith("kind:")},
        "rotating_everywhere(surface probes, traces, call behaviours, edit histories)": list(ALL_FORMS)}
    ctx.extra["traces_recorded"] = len(traces)
    ctx.extra["trace_lines"] = sum(len(t["lines"]) for t in traces)
    ctx.extra["traces_rejected"] = len(rejected)
    t0 = max(range(len(traces)), key=lambda i: (len(traces[i]["final"]) == 2, -len(traces[i]["lines"])))
    ctx.sample("recorded document (%s): %r -> %s" % (meta[t0]["form"], "\n".join(meta[t0]["texts"]),
                                                      json.dumps(traces[t0]["final"], ensure_ascii=False, separators=(",", ":"))))
    for i in rejected[:5]:
        at = info.get(i, 0)
        m = meta[i - 1]
        ctx.violation({"kind": "trace", "lines": [dict(l, text=x) for l, x in zip(traces[i - 1]["lines"], m["texts"])],
                       "form": m["form"], "final_nl": m["final_nl"], "via": m.get("via"), "first_unexplained_line": at + 1,
                       "aligned": m.get("aligned")},
                      "reader not explained by Deb822Reader: after line %d (%s) of %s [%s%s] the real result is %s"
                      % (at + 1, repr(m["texts"][at] if at < len(m["texts"]) else None)[:300], repr(m["texts"])[:1200], m["form"],
                         "; end of line %d steered to %s (offset %d)" % (m["aligned"]["line"] + 1, m["aligned"]["at"], m["aligned"]["end_offset"])
                         if m.get("aligned") else "",
                         repr(traces[i - 1]["obs"][at] if at < len(traces[i - 1]["obs"]) else None)[:1500]))

    # 4. diagnostic walks under the non-default strictness flag (thorough)
    if not quick:
        g2 = LTS([dict(e, op=e["c"], args=[e["k"]], res=e["b"]) for e in res["lts_nows"].printed["EDGE"] if not e["from"]["raw"]], init0)
        wtr2, wmeta2 = [], []
        for i in range(nwalk):
            lines = walk_doc(rng, g2, init[0], rng.randint(3, 25), ws2=True)
            if not lines:
                continue
            wtr2.append(record(lines, FORMS[i % len(FORMS)], strict={"whitespace-separates-paragraphs": False}))
            wmeta2.append([ln["text"] for ln in lines])
        wrej2, winfo2 = validate(ctx, wtr2, cfg="TraceDeb822Reader_nows.cfg", with_controls=False)
        ctx.extra["diagnostic_walks_nows"] = {"documents": len(wtr2), "rejected": len(wrej2)}
        for i in wrej2[:5]:
            ctx.drift("automaton walk (whitespace-separates-paragraphs=False) not explained (diagnostic): %r at line %d"
                      % (wmeta2[i - 1], winfo2.get(i, 0) + 1))


def replay(ctx, case):
    import warnings
    warnings.filterwarnings("ignore", message="Parsing of Deb822 data with python3-apt")
    ctx.import_repo()
    os.environ["C02_SCRATCH"] = ctx.work
    if case["kind"] == "doc":
        job = case["job"]
        if job["api"] == "build":
            r = build_and_dump([[tuple(kv) for kv in p] for p in job["orig"]])
            return ("cannot build/dump: %r" % (r,)) if isinstance(r, tuple) else None
        return run_doc(job)
    if case["kind"] == "calls":
        return exec_calls(case["steps"], case["texts"])
    if case["kind"] == "edits":
        return exec_edits(case)
    if case["kind"] == "edit-trace":
        again = rerecord_edits(case["trace"])
        if not again["events"]:
            return None
        rej, prog, _ = validate_edits(ctx, [again], diag=True)
        return ("edit history still not explained by the specification at event %d" % (prog.get(1, 0) + 1)) if rej else None
    if case["kind"] == "trace":
        lines = case["lines"]
        t = record(lines, case["form"], case.get("final_nl", True), via=case.get("via"))
        rejected, info = validate(ctx, [t], with_controls=False)
        if rejected:
            return "document still not explained by the specification after line %d" % (info.get(1, 0) + 1)
        return None
    return "unknown case kind"
