"""C17 -- copyright documents and license texts survive dump and re-parse.

spec:      spec/CopyrightDoc.tla  (codec layer over line classes; converters of the restricted fields,
           Deb822 dump and reader; document layer with add_* / Load), spec/TraceCopyrightDoc.tla
TLC:       CopyrightDoc_codec*.cfg  closed: every list of <= 4 / 5 lines over 8 class symbols
           (CodecNormal, CodecLaw, CodecStable, EncodedSafe)
           CopyrightDoc_doc*.cfg    closed: header kinds x every history of <= 3 add_* calls over four
           context paragraphs and at most one focus paragraph of every shape (BuildAccepted,
           FilesFirst, RoundTrip, Stable, HistoryKept)
           CopyrightDoc_neg.cfg     spec-level negative controls, re-run in every check:
           NoDotEscape -> EncodedSafe / RoundTrip, DecoderStrips -> CodecLaw / RoundTrip,
           DotAnyIndent -> CodecLaw; state kept between calls (memo history variable): StaleDump ->
           RoundTrip, LicMemoBySynopsis -> RoundTrip, ParseMemoAliased -> CodecRepeat;
           CommaSeparates (separator look-alikes at the edge of a word are cut off) -> RoundTrip,
           RejectDrops (a refused assignment removes the old value) -> RoundTrip,
           MayAcceptedSplits (a pattern with a white-space look-alike is taken and split by the reader) -> RoundTrip,
           ArgAliased (the text made for the caller's list object is remembered per OBJECT; the caller re-uses the object) -> RoundTrip
           caller's objects (CopyrightDoc: CALLER'S OBJECTS): an argument is a VALUE -- the document holds what the list was
           worth when the call was made.  The harness owns ONE list object per kind of argument (pattern lists, lists of
           entries, line lists of the codec: caller_list) and hands that same object to create() / the setters /
           format_multiline_lines in every call of every history -- across paragraphs, documents, cases, accepted and refused
           calls --, changed IN PLACE in between (grown, shrunk, items replaced, slice-assigned); expected results are TLC's as
           before (they never depended on object identity)
           word shapes: the payload ids of patterns carry a shape (CopyrightDoc!WShape: plain / edge = begins or
           ends with a separator look-alike such as , ; : | / punct = punctuation only); every CASE has words of
           every shape, concretized accordingly in EVERY concretization (the canonical one included)
           refused calls: the build histories (action DocReject: on the paragraph added last / the first
           paragraph / the header / the document, further add_* calls follow) and the edits of the re-parsed
           document (BadEdits) contain calls the API REFUSES (CopyrightDoc!Rejects: raw values
           Deb822.validate_input refuses, lists the converters refuse, None for a mandatory field, item
           assignment / deletion of restricted fields, deletion of a missing field, add_* of the wrong class,
           header = <not a Header>); ApplyCall says they change nothing: HistoryKept, RoundTrip
           calls the format does not settle (CopyrightDoc!MayReject): a value with a separator look-alike INSIDE (Unicode
           white space that is not blank / tab / newline -- U+00A0, U+1680, U+2000..U+200A, U+202F, U+205F, U+3000 --,
           U+001F, invisible fillers, full-width / ideographic comma and semicolon) as a pattern, an entry of a line-based
           list, a single-line value, a line of a raw field or a synopsis.  Law: REFUSED AND NOTHING CHANGED, OR CARRIED OUT
           AND THE VALUE IS ONE OPAQUE WORD of the document that survives both round trips.  The outcome is the field acc of
           the call record: TLC enumerates both outcomes in the build histories (DocReject) and the edits (BadEdits) --
           files / license synopsis / custom field --; the two CASE lines get the same concretization and the observed
           outcome selects the one that is judged; recorded calls carry acc = did not raise.  Negative control
           MayAcceptedSplits (carried out, but the reader splits at the look-alike) -> RoundTrip
           faults of caller-supplied objects (SIZE_STRESS part 5; CopyrightDoc kind "fault"): p.files / header line-based
           fields = an iterable that raises at its first / a middle / its last step (generator, iterable object; OSError,
           ValueError, KeyError, a private class), dump(<file object whose k-th write() raises>) of the document and of one
           paragraph, Copyright(<generator / iterable of byte lines / TextIOWrapper / BufferedReader over a raw stream that
           raises; an input that ends early at a line end or inside a line>).  The specification: the call raises (the
           caller's own exception object: diagnostic) and changes nothing; a swallowed fault is a violation; the history goes
           on (further add_* calls, setters, dumps, the three parses of every execution) and must be explained as usual
binding:   (a) every CASE line of both closed configurations (input AND expected result computed by
               TLC) is concretized (seeded) and replayed into debian.copyright
           (b) random documents (0..6 paragraphs, texts up to 8 lines, built through the API or parsed
               from a text with any paragraph order) and random line lists are executed by the real
               code, abstracted by an independent line classifier and validated by TLC
               (TraceCopyrightDoc); corrupted control traces must be rejected
               -- the documents of (b) are built by add_* calls AND other calls in between (setters of
               paragraphs and header, item access; accepted and refused ones: Tr.calls with the observed
               `raised`), their re-parsed dumps are edited by the same kinds of calls (Tr.edits); TLC folds
               ApplyCall over them: a call raised exactly when Rejects says so, a refused call left the document
               alone (the round trips are compared with ApplyCalls(...)), an accepted call did what its record says
           (c) no state between calls or objects: in (a) and (b) License objects and pattern lists are
               shared between paragraphs and between documents; the re-parsed document is then CHANGED
               (TLC's Edits in (a): files / copyright / license with the same synopsis / one more add_*;
               random edit sequences in (b)), dumped and strictly re-parsed again -- the second round
               trip must give the edited document (TLC: ApplyEdits); the first dump is parsed once more
               after its first parse result was changed; the parsed document of the previous case is
               kept alive and looked at again after the current case; the codec is called twice on the
               same list with the returned list changed by the caller in between
API surface (notes/API_SURFACE.md).  The same verdicts apply whichever entry point is used; the primary
ones are used by the canonical concretization of every TLC case, the others are rotated (seeded `vseed`,
stored in replay files) over every other execution of the replay leg and 75 % of the recorded traces, mixed
within one history (paragraphs of one document built through different variants, the three parses and the
dumps of one execution through different forms, queries through different iterators).  Counts per
variant: evidence per_action_counts "parse:*", "dump:*", "(api) *".
  entry point / variant                                             exercised by
  ----------------------------------------------------------------  ------------------------------------------
  Copyright()                                                       replay, trace (every execution)
  Copyright(sequence) list of lines with / without newlines, tuple  parse forms lines, lines-nonl, tuple
  Copyright(sequence) one str / one UTF-8 bytes object              parse forms str, bytes-str
  Copyright(sequence) iterator / generator                          parse forms iter, gen
  Copyright(sequence) text file object (StringIO, file on disk)     parse forms file, disk-text
  Copyright(sequence) byte lines / BytesIO / binary file + encoding parse forms bytes, bytesio, disk-bin, gen-bytes; latin1
                                                                    (encoding='latin-1' when the text allows)
  Copyright(sequence) other kinds of file objects (SIZE_STRESS 4):  parse forms disk-unbuf, short-reads, short-text, gzip,
    unbuffered file, BufferedReader / TextIOWrapper over a raw        gzip-disk, gzip-text, bz2, lzma, spooled, spooled-text
    stream with short reads (1..7 bytes), GzipFile / gzip.open rb,    (rotated like every other form; every aligned document
    rt / BZ2File / LZMAFile, SpooledTemporaryFile (binary, text)      goes through a file-object form)
  block-boundary alignment of the dumped text (SIZE_STRESS 4)       trace leg, aligned_suite: a line end inside a value /
                                                                    between two fields / the paragraph separator / the last
                                                                    byte at 2^k-2, 2^k-1, 2^k (k = 9..17: all of 4096, 8192,
                                                                    65536, 131072, a sample of the others; thorough: all) and a
                                                                    multi-byte character straddling 2^k; evidence aligned_cases
  Copyright(lines, 'utf-8', True) / (sequence=, encoding=, strict=) parse forms positional, keyword
  Copyright(..., strict=False) on a valid document                  parse form nonstrict (same result, no warning)
  CRLF line ends                                                    parse form crlf
  NotMachineReadableError / MachineReadableFormatError path         trace kind "reject": 9 texts x 15 strict input
                                                                    forms, exception class = TLC's Load(text).err
  deprecated header field Format-Specification                      trace / replay, start "parsed" (25 % of rotated):
                                                                    warned about, rewritten; then same verdicts
  add_files_paragraph / add_license_paragraph                       start "api"; edits "add" on the re-parsed document
  all_paragraphs / iter(copyright) / all_files_paragraphs /         observe_doc: rotated for reading, and always
    all_license_paragraphs                                          cross-checked (same objects, same order)
  find_files_paragraph (matches, files_pattern)                     40 % of rotated executions: the document and its
                                                                    re-parsed dump answer alike (right answer: C16)
  FilesParagraph.create / LicenseParagraph.create positional        primary
  ... keyword arguments; create + files/copyright/license setters   build variants kw, setters
  FilesParagraph(Deb822) / LicenseParagraph(Deb822) constructors    build variant ctor (over Deb822(str) / Deb822(lines))
  files / copyright / license getters and setters                   every execution; setters: edits, scribble; calls of the
                                                                    build phase (replay: refused; trace: accepted + refused)
  comment getter / setter, custom fields p[k] = v, p[k], iter, len  paragraph "extra" fields (spec: extra), read through
                                                                    iteration + item access and compared with the getter
  setter = None (comment: removes; files / copyright / license /    calls "none" (spec: Mandatory): replay + trace, build phase
    format: TypeError), del p[k] (custom: removes; restricted /      and edits of the re-parsed document
    missing: refused), p[<restricted>] = v (RestrictedFieldError)   calls "item" / "delitem" (key case rotated)
  a REFUSED call (ValueError / TypeError / RestrictedFieldError /   spec: Rejects, ApplyCall(D, e) = D; replay: DocReject / BadEdits
    KeyError) at any point of a history                             cases; trace: ~55 % of the random calls; the size suite
  a call the API MAY refuse (separator look-alike inside the value): spec: MayReject / acc; replay: twin CASE lines (files, license
    files, upstream_name, upstream_contact / files_excluded,          synopsis, custom field) in DocReject / BadEdits; trace: ~22 %
    license synopsis, copyright, comment / source / disclaimer,       of the random calls of both phases (MAY_RATE), one long
    custom fields -- setters and p[k] = v; create(...) +              pattern list per size-suite document; add_* of a paragraph
    add_*_paragraph of a paragraph with such a pattern / synopsis     with such a value: ~22 % of the add edits (trace)
  a call whose caller-supplied object FAILS (iterable of patterns /  spec: kind "fault"; replay: DocReject / BadEdits cases (Files,
    entries, file object given to dump(f) / paragraph.dump(fd),       Upstream-Contact, dump, parse; fault position / exception
    file object / iterator given to Copyright())                     class / kind of object rotated); trace: ~15 % of the calls
  files = list / tuple / generator; entries = list / tuple          rotated in do_call
  the SAME list object given to create(files) / files = / line-     primary concretization: always; rotated: 70 % of the lists
    based header setters / format_multiline_lines again and again,    (the others: a never-changed list shared by equal values,
    changed in place by the caller between the calls                  tuples, generators); evidence caller_objects_trace_leg
  Header(): format, upstream_name, upstream_contact, license        header kinds of the spec; every execution
  Header: source, disclaimer, comment, copyright, custom fields,    spec: header extra / fe / fi (kind "full"; random in
    files_excluded, files_included, known_format, current_format    traces); header setters also as calls of both phases
                                                                    (name / entries / raw / lic / none / item / delitem)
  Header(Deb822) constructor + Copyright.header setter              30 % of rotated executions
  License(s, t) / (synopsis=, text=) / License(s) / License(s,      rotated at construction; _replace; read through
    None) / _replace; attributes, indexes, unpacking                attributes / indexes / unpacking
  License.to_str / License.from_str (also from_str(None))           every execution: from_str(to_str()) = License (spec:
                                                                    LicLaw), besides the field converters
  format_multiline_lines / parse_multiline_as_lines (positional,    codec cases and codec traces
    keyword)
  format_multiline / parse_multiline (string variants, None)        codec cases (sdom) and traces (spec: CodecStrLaw)
  Copyright.dump() / dump(f=text file) / dump(f) / file on disk /   dump forms str, file, file-pos, disk, spooled,
    text SpooledTemporaryFile / TextIOWrapper(BytesIO) / gzip 'wt'    wrapped-bytesio, gzip
  paragraph.dump() / dump(fd, text_mode=True) / dump(binary fd) /   assembling the text of start "parsed", Deb822 data of
    dump(fd=, encoding=) of FilesParagraph, LicenseParagraph, Header  the ctor variants
  out of domain: header format setter with another format (a document in another format is not in the statement),
  globs_to_re (C16), function_deprecated_by aliases (the module has none), pickle / copy (not documented for these
  classes).  A call the specification refuses but the tree CARRIES OUT puts a value outside the domain into the
  document (DESIGN D3): that execution is unspecified from then on (replay: no verdict; trace: TLC's note "refused
  call carried out"), the exception CLASS of a refused call is diagnostic.  NOT so for the values the format does not
  settle (above): the statement says "a document built from ... pattern list ..." without saying which words a
  pattern may contain, so refusing is fine, but a value the API TOOK is part of the built document and inside the
  statement.  Look-alikes at the EDGE of a value stay unspecified (trailing / leading white space, DESIGN D3), the
  str.splitlines boundaries (U+0085, U+2028 ...) stay excluded (D1).  Pattern / entry payloads: any ASCII
  punctuation at the edges or as the whole word is inside the domain (white space is the only separator); a lone '.'
  keeps its own id (DotWord).

verdict observables (DESIGN 5, C17): the strict re-parse of dump() raises nothing and logs no warning;
           paragraph kinds and order, files, copyright, license synopsis and text, header fields
           equal to what the document was built from; the second dump() equals the first;
           parse_multiline_as_lines(format_multiline_lines(ls)) == ls when no line is white-space-only
           or a lone '.' (and ls != ['']) -- each of these also the second time, whatever was built,
           parsed, dumped or changed before.  Everything else (encoded form, normal form outside the
           condition, layout of dump(), insertion position of add_files_paragraph, what the reader of
           the specification predicts for the dumped lines) is diagnostic: spec drift, never an alarm.
"""
import io
import json
import logging
import os
import random
import shutil
import zlib
from concurrent.futures import ThreadPoolExecutor

import core

MANIFEST = dict(
    technique="TLA+ spec (CopyrightDoc: multiline codec over line classes, restricted-field converters, Deb822 dump/reader, document layer) model-checked by TLC in two closed configurations; every CASE (input + expected result) replayed into debian.copyright; recorded executions on random documents and line lists validated by TLC (TraceCopyrightDoc)",
    text="TLC checks, for every list of up to 5 lines over 8 line-class symbols, that decoding the ' .' encoding returns the stated normal form, the original list under the statement's condition, a stable re-encoding and a value that Deb822 accepts and cannot split; and, for every header kind and every history of up to 3 add_*_paragraph calls over context paragraphs and one focus paragraph of every shape, that Load(Dump(D)) = D in strict mode and Dump(Load(Dump(D))) = Dump(D). Each of those cases is concretized (indentation with blanks and tabs, non-ASCII, '.'-prefixed words, ' .' lines, PGP-looking and field-looking lines, long lines, globs with escapes) and executed by the real Copyright / FilesParagraph / LicenseParagraph / License code with every verdict observable compared with TLC's expected result; random documents of 0..6 paragraphs with texts of up to 8 lines (built through the API or parsed in any paragraph order) and random line lists are recorded from the real code and validated by TLC. State leaking between calls or objects is covered in both directions: the specification carries what the first round trip produced as a history variable (memo) that the design must never read; every execution shares License objects and pattern lists between paragraphs and documents, edits the re-parsed document (TLC's edits / random edit sequences explained by ApplyEdits) and makes a second round trip, parses the first dump again after its first parse result was changed, re-examines the live objects of the previous case, and calls the codec twice with the returned list changed in between. Building histories also contain the calls the API refuses (values Deb822.validate_input or the list converters refuse, None for a mandatory field, item access to restricted fields, add_* of the wrong class): the specification (Rejects / ApplyCall) says that they raise and change nothing, TLC enumerates them inside the build histories and the edits, and recorded histories with accepted and refused calls are explained by folding ApplyCall. Calls whose acceptance the format does not settle -- a pattern, entry, single-line value or synopsis with a look-alike of white space inside (NO-BREAK SPACE, EM SPACE, IDEOGRAPHIC SPACE, U+001F, full-width commas ...) -- are ordinary steps of both phases with the law 'refused and nothing changed, or carried out and the value round-trips as one word' (MayReject / acc: TLC enumerates both outcomes, the observed one selects the expected document). Calls whose caller-supplied object fails (an iterable that raises at its first / a middle / its last step, a file object whose write() raises during dump, a file object or iterator that raises or ends early during Copyright()) raise, change nothing, and the history goes on. The lists handed to create() / the setters / the codec are the harness' own re-used list objects, changed in place between the calls (a library that keeps or recognises the caller's object shows the value of another call; spec-level control ArgAliased). Words of pattern lists carry a shape in the model (plain / separator look-alike at an edge / punctuation only) so that every case has all of them; documents are also laid out so that line ends, field ends, paragraph separators and multi-byte characters fall on 2^k block boundaries and are read through every kind of file object (short reads, unbuffered, gzip/bz2/lzma, spooled).",
    note="Small-scope: closed over the stated bounds; characters inside a line are sampled (seeded), not enumerated. Domain (DESIGN D1, D3): no str.splitlines boundary inside a line, license texts do not end in an empty line, the codec is not given [''], no trailing white space, copyright continuation lines are indented and non-blank; empty synopsis, white-space-only / lone-dot lines in documents are executed as unspecified. Trusted: TLC, the concretizer, the independent line classifier, the projections. A call the specification refuses but the code carries out makes that execution unspecified (no verdict). A call the format does not settle (separator look-alike inside a value) may be refused or carried out; carried out, its value belongs to the document. Look-alikes at the edges of values are unspecified. Corrupted control traces and nine spec-level negative controls are required to fail in every run.",
    design="5 (C17)")

D1_CHARS = "\n\r\v\f\x1c\x1d\x1e\x85\u2028\u2029"
NEG_CONTROLS = [("codec", "NoDotEscape", "EncodedSafe"), ("doc", "NoDotEscape", "RoundTrip"),
                ("codec", "DecoderStrips", "CodecLaw"), ("doc", "DecoderStrips", "RoundTrip"),
                ("codec", "DotAnyIndent", "CodecLaw"),
                # state kept between calls (memo history variable of the specification)
                ("doc", "StaleDump", "RoundTrip"), ("doc", "LicMemoBySynopsis", "RoundTrip"),
                ("codec", "ParseMemoAliased", "CodecRepeat"),
                # separator look-alikes at the edges of a word; a refused assignment that removes the old value
                ("doc", "CommaSeparates", "RoundTrip"), ("doc", "RejectDrops", "RoundTrip"),
                # a call the format does not settle is carried out and the reader splits the word at the look-alike
                ("doc", "MayAcceptedSplits", "RoundTrip"),
                # the text made for the caller's (re-used, meanwhile changed) list object is remembered per object
                ("doc", "ArgAliased", "RoundTrip")]

# ------------------------------------------------------------------ concretization pools
# bodies of Plain / Indented text lines: start with a non-blank, are not a lone '.', no trailing blank
TEXT_POOL = [
    "Permission is hereby granted, free of charge, to any person obtaining a copy",
    "of this software and associated documentation files (the \"Software\"), to deal",
    ".dotted start", "..", "...", ". dot then blank", ".x", "#not a comment", "Key: value", "Files: *",
    "License: GPL-2+", "Copyright: 2001 X", "-----BEGIN PGP SIGNED MESSAGE-----", "-----BEGIN PGP SIGNATURE-----",
    "-----END PGP SIGNATURE-----", "Ünïcödé 中文 текст \U0001f427",
    "a b", "x", "tab\tinside", "double  blank", "ends with dot.", "1.", "* bullet", "- item",
    "\\ backslash", "quote \" and 'single'", "THE SOFTWARE IS PROVIDED \"AS IS\", WITHOUT WARRANTY OF ANY KIND",
    "On Debian systems, see `/usr/share/common-licenses/GPL-2'.", "e", "é", "0", ":", "::x", "a:", "=", "%s %d {0}",
    "word " * 120 + "end", "MIT", "GPL-2+", "2014 Some Guy <guy@example.org>",
]
# the codec law (on lists of lines) also covers lines with trailing white space; documents do not use
# them (the first line of a Deb822 value is trimmed: unspecified there)
CODEC_POOL = TEXT_POOL + ["trailing blank ", "tab at end\t", "x  ", ". ", "..\t"]
COPY_POOL = ["2014 Some Guy <guy@example.org>", "© 2001-2020 Ünï Cödé", "(C) 1999, 2000 Foo, Inc.",
             ".dot org", "#hash", "2015 a: b", "Copyright 2012  Two  Blanks", "x", "1999-2004 李雷",
             "2003, 2004 Free Software Foundation, Inc.", "Files: not a field", "-----BEGIN PGP SIGNED MESSAGE-----"]
SYN_POOL = ["GPL-2+", "MIT", "Expat", "GPL-2+ or MIT", "GPL-3+ with OpenSSL exception", "Apache-2.0", "BSD-3-clause",
            "public-domain", "CC-BY-SA-4.0", "Lizenz-ä", ".weird", "#1", "LGPL-2.1+ and BSD-2-clause", "x"]
PAT_POOL = ["*", "debian/*", "src/*.c", "a?b", "foo\\*bar", "docs/\\?/x", "\\\\server", "лиц/*", "*.[ch]", "#weird",
            "a:b", ".hidden", "..", "-----BEGIN", "x=y,z", "Makefile", "lib/**/x", "?", "\\*", "z", "A", "a"]
NAME_POOL = ["foo-project", "Ünï soft", "a b", "x", "lib.foo++"]
CONTACT_POOL = ["Jane Doe <jane@example.org>", "https://example.org/contact", "Jürgen <j@x.de>", "x",
                "The Team <team@lists.example.org>", ".dot", "#hash"]
WS1 = [" ", " ", " ", "\t"]
WS2 = ["  ", "  ", " \t", "\t ", "\t\t"]
SOURCE_POOL = ["https://example.org/src", "git://example.org/x.git", "ftp://ftp.example.org/pub/x-1.0.tar.gz", "x", "see README"]
CANON = {1: "glob%d", 2: "2014 Holder %d", 3: "LIC-%d", 4: "text line %d", 5: "name%d", 6: "Contact %d <c%d@example.org>",
         7: "comment %d", 8: "excluded-%d/*", 9: "https://example.org/%d"}
# 7: lines of a Comment (raw value), 8: entries of Files-Excluded / Files-Included, 9: Source / custom single lines
POOLS = {1: PAT_POOL, 2: COPY_POOL, 3: SYN_POOL, 4: TEXT_POOL, 5: NAME_POOL, 6: CONTACT_POOL, 7: COPY_POOL, 8: PAT_POOL,
         9: SOURCE_POOL}

# ---- separator look-alikes (spec: WShape).  White space is the ONLY separator of a pattern list, a newline the
# only one of a line-based list: every other ASCII punctuation character -- the separators of other list
# syntaxes (', ' of the pre-1.0 drafts, ';', ':', '|') included -- is payload, also as the first / last character
# of a word and as the whole word.  Rotated over both edges of every kind of payload by spice().
PUNCT = list("!\"#$%&'()*+,-./:;<=>?@[\\]^_`{|}~")
SEPLIKE = [",", ",", ";", ":", "|", ",,", ";;", "::", "||", ",;", "/", "&", "+", "="]
PUNCT_ONLY = SEPLIKE + [c for c in PUNCT if c != "."] + [c * 2 for c in PUNCT] + [",.", ".,", "...", "-,-", "{,}", "(,)", "[,]", "<,>",
                                                                                 "'\"'", "--", "->", "=>", "&&", "!!", "#,", ",#"]


# ---- values the format does not settle (spec: MayReject, ids >= MayBase).  White space of the format is blank, tab
# and newline; a character that only LOOKS like a separator -- Unicode white space that is not format white space
# (str.isspace(), str.split() and the regex class \\s know it, the format does not), U+001F, invisible fillers, the
# full-width / ideographic comma and semicolon -- INSIDE a pattern, an entry, a single-line value or a synopsis may
# be refused by the API; when the call is carried out the value is one opaque word of the document.  Offered as
# ordinary calls of both phases (never at the edge of a value: trailing / leading white space is unspecified).
MAY = 500000
LOOK_SPACE = [chr(c) for c in [0x1f, 0xa0, 0x1680] + list(range(0x2000, 0x200b)) + [0x202f, 0x205f, 0x3000]]
LOOK_OTHER = ["\uff0c", "\u3001", "\uff1b", "\u2060", "\u180e", "\u2800", "\u3164"]
LOOK = frozenset(LOOK_SPACE + LOOK_OTHER)
for _c in LOOK_SPACE:
    assert _c.isspace() and len(("a%sb" % _c).split()) == 2 and len(("a%sb" % _c).splitlines()) == 1 and _c not in D1_CHARS, hex(ord(_c))
for _c in LOOK_OTHER:
    assert not _c.isspace() and len(("a%sb" % _c).splitlines()) == 1, hex(ord(_c))


def has_look(s):
    return any(ch in LOOK for ch in s)


def may_inject(rng, w, keep_len=False):
    """the word / line `w` with one (sometimes two) separator look-alikes INSIDE it (rng None: NBSP in the middle)"""
    if len(w) < 2:
        w = "a" + w + "b"
    for _ in range(1 if rng is None or rng.random() < 0.8 else 2):
        c = "\u00a0" if rng is None else rng.choice(LOOK_SPACE[1:4] + ["\u2003", "\u3000"] + LOOK_SPACE + LOOK_OTHER)
        k = len(w) // 2 if rng is None else rng.randrange(1, len(w))
        if keep_len and len(w) > 2:
            k = min(k, len(w) - 2)
            w = w[:k] + c + w[k + 1:]
        else:
            w = w[:k] + c + w[k:]
    return w


# ---- character / encoding stress (notes/SIZE_STRESS.md part 2); comparisons are by code point, never normalised
# one character per UTF-8 TRAILING byte 0x80..0xBF, in 2-, 2-, 3- and 4-byte encodings (code point = i mod 64)
TRAIL = [[chr(0x100 + i), chr(0x400 + i), chr(0x4E00 + i), chr(0x1F600 + i)] for i in range(64)]


def _lead_chars():
    """one (assigned where possible, never white space) character per UTF-8 LEAD byte C2..DF, E0..EF, F0..F4"""
    import unicodedata
    out = []
    for lead in list(range(0xC2, 0xE0)) + list(range(0xE0, 0xF0)) + list(range(0xF0, 0xF5)):
        if lead < 0xE0:
            cands = range((lead - 0xC0) << 6, ((lead - 0xC0) << 6) + 64)
        elif lead < 0xF0:
            cands = range(max(0x800, (lead - 0xE0) << 12), ((lead - 0xE0) << 12) + 0x1000, 37)
        else:
            cands = range(max(0x10000, (lead - 0xF0) << 18), min(0x110000, ((lead - 0xF0) << 18) + 0x40000), 4099)
        ok = [c for c in cands if not 0xD800 <= c <= 0xDFFF and not chr(c).isspace() and chr(c) not in D1_CHARS
              and chr(c).encode("utf-8")[0] == lead and c not in (0xFEFF, 0xFFFE, 0xFFFF)]
        good = [c for c in ok if unicodedata.category(chr(c)) not in ("Cn", "Cc", "Co")]
        out.append(chr((good or ok)[0]))
    return out


LEADS = _lead_chars() + ["\u0301", "\ufeff", "\u200d", "\u00df", "\u0130", "\U00010400"]
# texts that are not NFC / NFKC stable and their precomposed / canonical twins: DIFFERENT values
TWINS = [("caf\u00e9", "cafe\u0301"), ("\u00c5ngstr\u00f6m", "\u212bngstro\u0308m"), ("\u03a9hm", "\u2126hm"),
         ("\u985e", "\uf9d0"), ("fi-le", "\ufb01-le"), ("ABC", "\uff21\uff22\uff23"), ("\ud55c", "\u1112\u1161\u11ab"),
         ("a\u030a", "\u00e5")]
HAZARDS = ["Stra\u00dfe", "\u0130stanbul", "\u0131d", "\u017fhort", "\u03c3\u03c2", "\U00010400\U00010428", "\ufeffBOM-first",
           "mid\ufeffdle", "zw\u200dj\u200cnj", "soft\u00adhyphen", "\u200frtl\u200e", "\U0001f600", "\U0010ffff", "\u0301lone",
           "zw\u200bsp", "x\u0445", "\u0105", "N\u0145"]
# look-alikes that are white space for Python but NOT for the format: fine inside / at the end of a text
# line (the codec and the reader keep them), unspecified at the edges of a first line and inside patterns
LOOKALIKE_TEXT = ["nb\u00a0sp", "em\u2003sp", "id\u3000sp", "ends with nbsp\u00a0", "ends with em\u2003", "ends ideographic\u3000",
                  "\u200b", "\ufeff", "tab then nbsp\t\u00a0"]
_UNI = [a for t in TWINS for a in t] + HAZARDS
TEXT_POOL += _UNI + [a + " and " + b for a, b in TWINS]
COPY_POOL += ["2014 " + x for x in _UNI[::2]] + ["\u00a9 2001 " + b + " " + a for a, b in TWINS[:3]]
SYN_POOL += [x for x in _UNI if x != "\u0301lone"][1::3] + ["GPL-2+ " + TWINS[0][0], "GPL-2+ " + TWINS[0][1]]
PAT_POOL += [x + "/*" for x in _UNI[::2]] + [TWINS[0][0], TWINS[0][1], TWINS[1][0], TWINS[1][1]]
PAT_POOL += ["data/x" + c for c in SEPLIKE[:8]] + PUNCT_ONLY[:24] + ["a,b", "*.{c,h}", "x;y", ",lead", ";lead", "src/*.c,", "*.h;"]
NAME_POOL += _UNI[1::5]
CONTACT_POOL += [x + " <x@example.org>" for x in _UNI[2::5]]
TEXT_EDGE_POOL = TEXT_POOL + LOOKALIKE_TEXT            # bodies of license TEXT lines (never a first line)
CODEC_POOL += _UNI + LOOKALIKE_TEXT


def edge_word(rng, stem):
    """a word that begins and / or ends with separator look-alikes"""
    r = rng.random()
    a, b = rng.choice(SEPLIKE + PUNCT), rng.choice(SEPLIKE + PUNCT)
    if r < 0.55:
        return stem + a
    if r < 0.8:
        return a + stem
    return a + stem + b


def punct_word(rng, n=None):
    """a word made of punctuation only (n characters when given); never a lone '.'"""
    if n is None:
        return rng.choice(PUNCT_ONLY)
    w = "".join(rng.choice(PUNCT) for _ in range(n))
    return "," if w == "." else w


def wshape(code):
    """CopyrightDoc!WShape of a payload id (patterns: part 1; also used for the entries of Files-Excluded /
    Files-Included: part 8)"""
    if code >= MAY:
        return "plain"
    return ("punct", "plain", "edge")[(code % 100) % 3] if (code // 100) % 10 in (1, 8) and code >= 800 else "plain"


def spice(rng, s, edges=True):
    """rotate characters covering every UTF-8 trailing byte to the END of a payload and characters
    covering every lead byte to its START (same length in code points when the payload is long); likewise
    the ASCII punctuation characters (separator look-alikes) to both edges"""
    if not edges or not s:
        return s
    r = rng.random()
    if 0.62 < r < 0.74:
        c = rng.choice(SEPLIKE + PUNCT)
        return (s[:-len(c)] + c) if len(s) > 8 else s + c
    if 0.74 <= r < 0.80:
        c = rng.choice(SEPLIKE + PUNCT)
        return (c + s[len(c):]) if len(s) > 8 else c + s
    if r < 0.30:
        c = rng.choice(rng.choice(TRAIL))
        s = (s[:-1] + c) if len(s) > 8 else s + c
    if 0.22 < r < 0.40:
        c = rng.choice(LEADS)
        s = (c + s[1:]) if len(s) > 8 else c + s
    return s


for _c in [c for t in TRAIL for c in t] + LEADS:
    assert not _c.isspace() and _c not in D1_CHARS, repr(_c)
assert sorted({c.encode("utf-8")[-1] for t in TRAIL for c in t}) == list(range(0x80, 0xC0))
assert {c.encode("utf-8")[0] for c in LEADS} >= set(range(0xC2, 0xF5))
for _pool in (TEXT_POOL, COPY_POOL, SYN_POOL, PAT_POOL, NAME_POOL, CONTACT_POOL, SOURCE_POOL):
    for _s in _pool:
        assert _s and _s == _s.strip() and _s != "." and not any(c in _s for c in D1_CHARS), _s
for _s in PAT_POOL:
    assert not any(c.isspace() for c in _s), _s
for _pool in (COPY_POOL, SYN_POOL, PAT_POOL, NAME_POOL, CONTACT_POOL, SOURCE_POOL):
    for _s in _pool:
        assert not has_look(_s), _s           # (the ordinary pools: values every tree must take)


# ------------------------------------------------------------------ size dimension (notes/SIZE_STRESS.md)
# The specification is class-abstract: a pattern, a line body, a synopsis are opaque payloads, a list
# of patterns / lines / paragraphs is a sequence of ANY length.  Its predictions are therefore
# independent of lengths and counts by construction; the sizes live in the concretization (replay
# leg: every STRESS_EVERY-th case gets one extra, size-stressed concretization) and in the recorded
# traces (a fixed suite of extreme documents / line lists in every run plus random stressed ones).
BOUNDS = [1, 2, 7, 8, 9, 15, 16, 17, 31, 32, 33, 63, 64, 65, 71, 72, 73, 79, 80, 81, 127, 128, 129, 255, 256, 257,
          1023, 1024, 1025, 4095, 4096, 4097]
BIG_BOUNDS = [8191, 8192, 8193, 65535, 65536, 65537]
COUNTS = [0, 1, 2, 3, 9, 10, 11, 16, 17, 31, 32, 33, 99, 100, 101, 255, 256, 257]
JOINED = [70, 71, 72, 73, 74, 75, 78, 79, 80, 81, 82, 254, 255, 256, 257, 258, 4094, 4095, 4096, 4097, 4098]
STRESS_EVERY = 8
PAT_CHUNKS = ["third-party/", "lib-compat/", "ab-cd/", "x-y-z/", "src/", "*.c", "docs-old/", "a?b/", "\\*-", "é-ü/"]
TXT_CHUNKS = ["well-known ", "third-party ", "re-use ", "of ", "so-called ", "free-software; ", "x-y ", "Ünï-cödé ",
              "a ", "non-infringement, ", "e-mail: "]


def size_len(rng, cap=4097):
    """heavy-tailed length that regularly hits the boundary neighbourhoods"""
    pool = [b for b in BOUNDS if b <= cap]
    if cap > 8000 and rng.random() < 0.04:
        return rng.choice([b for b in BIG_BOUNDS if b <= cap])
    if rng.random() < 0.75:
        return rng.choice(pool[:max(1, min(len(pool), 23))])
    return rng.choice(pool)


def _cycled(rng, chunks, n):
    order = list(chunks)
    rng.shuffle(order)
    out = []
    size = 0
    while size < n:
        for c in order:
            out.append(c)
            size += len(c)
            if size >= n:
                break
    return "".join(out)[:n]


def sized_pattern(rng, n):
    """a glob of exactly n characters, no white space, hyphens between letters all along"""
    t = _cycled(rng, PAT_CHUNKS, n)
    return "x" if t == "." else t


def sized_text(rng, n):
    """a line body of exactly n characters: starts with a non-blank, is not '.', no trailing blank,
    hyphenated words all along"""
    t = _cycled(rng, TXT_CHUNKS, n)
    if t[-1].isspace():
        t = t[:-1] + "x"
    return "x" if t == "." else t


def split_total(rng, total, n):
    """n positive lengths whose blank-joined length is `total` (or the smallest possible)"""
    total = max(total, 2 * n - 1)
    room = total - (n - 1)
    cuts = sorted(rng.sample(range(1, room), n - 1)) if n > 1 else []
    return [b - a for a, b in zip([0] + cuts, cuts + [room])]


class Conc:
    """choices made for one concretization: key -> string (kept for replay files)"""

    def __init__(self, rng=None, canonical=False, choices=None, stress=False):
        self.rng = rng
        self.canonical = canonical
        self.stress = stress
        self.c = dict(choices or {})

    def pats(self, codes):
        """the patterns of one Files field; size-stressed: joined length / single lengths at boundaries"""
        good = [c for c in codes if c > 0]
        if self.stress and good and any("b:%d" % c not in self.c for c in good):
            rng = self.rng
            if rng.random() < 0.5:
                lens = split_total(rng, rng.choice(JOINED), len(good))
            else:
                lens = [size_len(rng) for _ in good]
            for c, n in zip(good, lens):
                self.c.setdefault("b:%d" % c, self.shaped(c, n))
        return [self.word(c, "pat") for c in codes]

    def shaped(self, code, n):
        """a pattern of n characters with the word shape of its payload id (CopyrightDoc!WShape)"""
        sh = wshape(code)
        if code >= MAY:
            return may_inject(self.rng, sized_pattern(self.rng, max(n, 3)), keep_len=True)
        if sh == "punct":
            return punct_word(self.rng, min(n, 64))
        if sh == "edge" and n >= 2:
            c = self.rng.choice(SEPLIKE + PUNCT)[:1]
            t = sized_pattern(self.rng, n - 1)
            return t + c if self.rng.random() < 0.7 else c + t
        return spice(self.rng, sized_pattern(self.rng, n))

    def word(self, code, ctx):
        """one word of a list: 0 = the empty string, -2 = a string containing a separator of the list syntax
        (`ctx`: "pat" white space, "entry" a newline) -- both only occur in calls the API rejects"""
        if code == 0:
            return self.get("bad0:" + ctx, lambda: "" if self.canonical or ctx == "pat" else self.rng.choice(["", " ", "\t"]))
        if code == -2:
            if ctx == "pat":
                return self.get("bad2:pat", lambda: "a b" if self.canonical else self.rng.choice(
["a b", "tab\there", "new\nline", " lead", "trail ", "a  b", "cr\rx", "ff\x0cx", "x\u00a0y z", "\tlead"]))
            return self.get("bad2:entry", lambda: "a\nb" if self.canonical else self.rng.choice(["a\nb", "x y\n z", "one\n\ntwo", "p\nq"]))
        return self.body(code)

    def get(self, key, make):
        if key not in self.c:
            self.c[key] = make()
        return self.c[key]

    def ws(self, key, n):
        if n == 0:
            return ""
        if n >= 3:
            return self.get("ws:%s:%d" % (key, n), lambda: " " * n)
        return self.get("ws:%s:%d" % (key, n),
                        lambda: " " * n if self.canonical else self.rng.choice(WS1 if n == 1 else WS2))

    def body(self, code):
        part = ((code % MAY) // 100) % 10
        shape = wshape(code)

        def make():
            if code >= MAY:
                # a value the format does not settle: an ordinary one with a separator look-alike inside
                if self.canonical:
                    f = CANON[part]
                    return may_inject(None, f % ((code,) * f.count("%d")))
                if self.stress:
                    return self.shaped(code, size_len(self.rng, 1025)) if part in (1, 8) else may_inject(
                        self.rng, sized_text(self.rng, size_len(self.rng, 257)), keep_len=True)
                return may_inject(self.rng, self.rng.choice(POOLS[part]))
            if self.canonical:
                f = CANON[part]
                t = f % ((code,) * f.count("%d"))
                # (the canonical concretization has the word shapes too: a trailing / only separator look-alikes)
                return t + SEPLIKE[(code // 1000 - 1) % 9] if shape == "edge" else (PUNCT_ONLY[code % len(PUNCT_ONLY)] if shape == "punct" else t)
            if shape == "punct":
                return punct_word(self.rng)
            if self.stress:
                if part == 1:
                    return self.shaped(code, size_len(self.rng))
                if part == 8:
                    return self.shaped(code, size_len(self.rng, 129))
                return spice(self.rng, sized_text(self.rng, size_len(self.rng, 257 if part in (5, 6, 9) else 4097)))
            if shape == "edge":
                return edge_word(self.rng, self.rng.choice(POOLS[part]))
            return spice(self.rng, self.rng.choice(TEXT_EDGE_POOL if part == 4 else POOLS[part]))
        return self.get("b:%d" % code, make)

    def line(self, enc, key):
        """enc = [10*ind + bcode, id...] as printed by EncLn"""
        ind, b = enc[0] // 10, enc[0] % 10
        if b == 0:
            return self.ws(key, ind)
        if b == 1:
            return self.ws(key, ind) + "."
        wkey = "%d" % enc[1] if len(enc) == 2 else key
        return self.ws(wkey, ind) + " ".join(self.body(c) for c in enc[1:])

    def text(self, encs, key):
        return "\n".join(self.line(e, "%s.%d" % (key, j)) for j, e in enumerate(encs))


# ------------------------------------------------------------------ independent line classifier

def abs_line(s, it):
    """abstract a concrete line to the [ind, b, id] of the specification; `it` interns payload words"""
    n = 0
    while n < len(s) and s[n].isspace():
        n += 1
    body = s[n:]
    if body == "":
        return {"ind": n, "b": "none", "id": []}
    if body == ".":
        return {"ind": n, "b": "dot", "id": []}
    parts = body.split(" ")
    if len(parts) <= 2000 and all(parts) and not any(ch.isspace() and ch not in LOOK for p in parts for ch in p):
        return {"ind": n, "b": "txt", "id": [it(p) for p in parts]}
    return {"ind": n, "b": "txt", "id": [it(body)]}


def abs_str(s, it):
    return [abs_line(x, it) for x in s.split("\n")]


def abs_words(a):
    """WordsOf of the specification"""
    return a["id"] if a["b"] == "txt" else ([-1] if a["b"] == "dot" else [])


class Interner:
    def __init__(self, format_url):
        self.d = {format_url: 1}

    def __call__(self, s):
        """the id of a payload string; >= MAY (spec: MayBase) when it contains a separator look-alike"""
        if s not in self.d:
            self.d[s] = len(self.d) + 1
        return self.d[s] + (MAY if has_look(s) else 0)


# ------------------------------------------------------------------ driving the real code

class _Catch(logging.Handler):
    def __init__(self):
        logging.Handler.__init__(self, logging.WARNING)
        self.msgs = []

    def emit(self, record):
        self.msgs.append(record.getMessage())


def exc_name(e):
    return type(e).__name__


def exec_codec(lines, vr=None):
    """format_multiline_lines -> parse_multiline_as_lines on one list of lines, then the same calls
    again after the caller has changed the list the first call returned (no state between calls), then
    the string variants format_multiline / parse_multiline on '\n'.join(lines); `vr` (a Random) rotates
    positional / keyword calls"""
    from debian import copyright as C
    o = {"enc": None, "out": None, "exc": "", "msg": "", "out2": None, "out3": None, "kept": True,
         "sout": None, "ssame": True}
    arg = caller_list("lines", lines)           # (the caller's own list of lines: re-used, changed in place between the calls)
    kw = vr is not None and vr.random() < 0.3
    try:
        o["enc"] = C.format_multiline_lines(lines=arg) if kw else C.format_multiline_lines(arg)
        res = C.parse_multiline_as_lines(s=o["enc"]) if kw else C.parse_multiline_as_lines(o["enc"])
        if not isinstance(res, list) or not all(isinstance(x, str) for x in res):
            o["exc"], o["msg"] = "BadResult", repr(res)[:200]
            return o
        o["out"] = list(res)
        # the caller owns the returned list: scribble on it, then call again
        res.append("scribbled by the caller")
        res[0] = "scribbled"
        enc2 = C.format_multiline_lines(arg)
        o["out2"] = list(C.parse_multiline_as_lines(enc2))
        o["out3"] = list(C.parse_multiline_as_lines(o["enc"]))
        o["kept"] = arg == list(lines) and enc2 == o["enc"]
        # string variants (None passes through)
        text = "\n".join(lines)
        senc = C.format_multiline(s=text) if kw else C.format_multiline(text)
        o["sout"] = C.parse_multiline(senc)
        o["ssame"] = (senc == o["enc"]) and C.format_multiline(None) is None and C.parse_multiline(None) is None
        if not isinstance(o["sout"], str):
            o["exc"], o["msg"] = "BadResult", "parse_multiline returned %r" % (o["sout"],)
    except Exception as e:           # an exception of the code under test is an observation
        o["exc"], o["msg"] = exc_name(e), str(e)[:200]
    return o


# inputs shared between documents (the same License object / the same pattern list object is handed
# to the code under test again and again; the code must neither change them nor remember them)
_SHARED = {"repo": None, "lic": {}, "pats": {}}
# the CALLER'S OWN list objects (spec: CALLER'S OBJECTS): one list per kind of argument, handed to create() / the
# setters / the codec again and again -- across calls, paragraphs, documents and cases -- and changed IN PLACE to
# the value of the next call (grown, shrunk, items replaced).  What a call stores is what the list was worth when
# the call was made; a library that keeps the object, or recognises it the next time, shows the value of an
# earlier (or later) call.  n = number of calls that got the object, mut = number of in-place changes.
_CALLER = {"pats": [], "entries": [], "lines": [], "n": 0, "mut": 0}


def caller_list(kind, values):
    """the caller's list object of that kind, changed in place to hold `values`"""
    buf, values = _CALLER[kind], list(values)
    _CALLER["n"] += 1
    if buf == values:
        return buf                                  # (the same value twice: the same object, untouched)
    _CALLER["mut"] += 1
    k = 0
    while k < len(buf) and k < len(values) and buf[k] == values[k]:
        k += 1
    if k == len(buf):
        if len(values) == k + 1:
            buf.append(values[k])                   # grown by one / by several
        else:
            buf.extend(values[k:])
    elif k == len(values):
        del buf[k:]                                 # shrunk
    elif len(buf) == len(values):
        for j in range(k, len(values)):             # items replaced one by one
            if buf[j] != values[j]:
                buf[j] = values[j]
    elif (_CALLER["mut"] % 2) == 0:
        buf[:] = values
    else:
        del buf[:]
        buf += values
    if buf != values:
        raise core.MachineryError("caller_list: %r != %r" % (buf, values))
    return buf


def _shared_reset(C):
    if _SHARED["repo"] is not C or len(_SHARED["lic"]) > 4000:
        _SHARED["repo"], _SHARED["lic"], _SHARED["pats"] = C, {}, {}


def _mk_lic(C, syn, text, vr=None):
    """a (shared) License object, constructed positionally / by keyword / with the default or None text /
    through _replace"""
    key = (syn, text)
    if key not in _SHARED["lic"]:
        v = vr.choice(["pos", "pos", "kw", "short", "none", "replace"]) if vr is not None else "pos"
        if v == "kw":
            lic = C.License(synopsis=syn, text=text)
        elif v == "short" and text == "":
            lic = C.License(syn)
        elif v == "none" and text == "":
            lic = C.License(syn, None)               # "text: The full text of the license, if any (may be None)"
        elif v == "replace":
            lic = C.License("tmp", "tmp")._replace(synopsis=syn, text=text)
        else:
            lic = C.License(syn, text)
        _SHARED["lic"][key] = lic
    return _SHARED["lic"][key]


def _mk_pats(pats, vr=None):
    """the list of patterns handed to create() / the files setter: the caller's own, re-used and meanwhile
    changed list object (always in the primary concretization, 70 % of the rotated ones), or a list that is
    shared by every call with that value and never changed"""
    if vr is None or vr.random() < 0.7:
        return caller_list("pats", pats)
    key = tuple(pats)
    if key not in _SHARED["pats"]:
        _SHARED["pats"][key] = list(pats)
    return _SHARED["pats"][key]


def _set_extra(p, extra, header=False):
    for k, v in extra or ():
        attr = {"Comment": "comment", "Source": "source", "Disclaimer": "disclaimer", "Copyright": "copyright"}.get(k)
        if attr and (header or k == "Comment"):
            setattr(p, attr, v)               # the RestrictedField property
        else:
            p[k] = v                          # RestrictedWrapper.__setitem__ (custom field)


def _mk_para(C, op, vr=None):
    """FilesParagraph / LicenseParagraph through create (positional / keyword), through create + setters, or
    through the constructor over a Deb822 object"""
    from debian import deb822
    lic = _mk_lic(C, op["syn"], op["text"], vr)
    v = vr.choice(["pos", "pos", "kw", "setters", "ctor"]) if vr is not None else "pos"
    if op["kind"] == "Files":
        pats = _mk_pats(op["pats"], vr)
        if v == "kw":
            p = C.FilesParagraph.create(files=pats, copyright=op["copy"], license=lic)
        elif v == "setters":
            # (the placeholder is the caller's list too: it is changed to the real value before the setter gets it)
            p = C.FilesParagraph.create(caller_list("pats", ["placeholder"]) if pats is _CALLER["pats"] else ["placeholder"],
                                        "placeholder", C.License("PLACEHOLDER", "placeholder\n text"))
            p.license = lic
            pats = _mk_pats(op["pats"]) if pats is _CALLER["pats"] else pats
            p.files = pats
            p.copyright = op["copy"]
        else:
            p = C.FilesParagraph.create(pats, op["copy"], lic)
        if pats != list(op["pats"]):
            raise AssertionError("FilesParagraph.create changed the list of patterns it was given")
    else:
        if v == "kw":
            p = C.LicenseParagraph.create(license=lic)
        elif v == "setters":
            p = C.LicenseParagraph.create(C.License("PLACEHOLDER", "placeholder"))
            p.license = lic
        else:
            p = C.LicenseParagraph.create(lic)
    _set_extra(p, op.get("extra"))
    if v == "ctor":
        data = deb822.Deb822(p.dump() if vr.random() < 0.5 else p.dump().splitlines())
        p = C.FilesParagraph(data) if op["kind"] == "Files" else C.LicenseParagraph(data)
    return p


def _para_text(p, vr):
    """the text of one paragraph through the dump variants of RestrictedWrapper"""
    v = vr.choice(["str", "str", "text-fd", "bytes-fd", "bytes-enc"]) if vr is not None else "str"
    if v == "text-fd":
        f = io.StringIO()
        p.dump(f, text_mode=True)
        return f.getvalue()
    if v == "bytes-fd":
        f = io.BytesIO()
        p.dump(f)
        return f.getvalue().decode("utf-8")
    if v == "bytes-enc":
        f = io.BytesIO()
        p.dump(fd=f, encoding="utf-8")
        return f.getvalue().decode("utf-8")
    return p.dump()


_SCRATCH = {"dir": None, "n": 0}
PARSE_FORMS = ["lines", "lines-nonl", "str", "bytes-str", "bytes", "iter", "gen", "tuple", "file", "bytesio", "disk-text",
               "disk-bin", "positional", "keyword", "nonstrict", "crlf", "latin1",
               # kinds of file objects (notes/SIZE_STRESS.md part 4)
               "disk-unbuf", "short-reads", "short-text", "gzip", "gzip-disk", "gzip-text", "bz2", "lzma", "spooled", "spooled-text",
               "gen-bytes"]
# the forms that hand the text over as a FILE OBJECT (the aligned documents go through every one of them)
FILE_FORMS = ["file", "bytesio", "disk-text", "disk-bin", "disk-unbuf", "short-reads", "short-text", "gzip", "gzip-disk", "gzip-text",
              "bz2", "lzma", "spooled", "spooled-text"]
FILE_KINDS = {"file": "io.StringIO", "bytesio": "io.BytesIO", "disk-text": "file on disk, text mode", "disk-bin": "file on disk, binary, buffered",
              "disk-unbuf": "file on disk, binary, buffering=0 (io.FileIO)", "short-reads": "io.BufferedReader over a raw stream returning 1..7 bytes per read",
              "short-text": "io.TextIOWrapper over such a short-read stream", "gzip": "gzip.GzipFile over BytesIO", "gzip-disk": "gzip.open(path, 'rb') (fileno() names the compressed file)",
              "gzip-text": "gzip.open(path, 'rt')", "bz2": "bz2.BZ2File", "lzma": "lzma.LZMAFile", "spooled": "tempfile.SpooledTemporaryFile (binary, rolled over or not)",
              "spooled-text": "tempfile.SpooledTemporaryFile (text)", "gen": "generator of str lines", "gen-bytes": "generator of byte lines",
              "dump:file": "dump(f=io.StringIO)", "dump:disk": "dump(f) to a file on disk", "dump:spooled": "dump(f) to a text SpooledTemporaryFile",
              "dump:wrapped-bytesio": "dump(f) to io.TextIOWrapper over BytesIO", "dump:gzip": "dump(f) to gzip.open(path, 'wt')"}
DUMP_FORMS = ["str", "file", "file-pos", "disk", "spooled", "wrapped-bytesio", "gzip"]


class _ShortRaw(io.RawIOBase):
    """a raw stream whose reads return 1..7 bytes"""

    def __init__(self, data):
        io.RawIOBase.__init__(self)
        self._d, self._p, self._r = data, 0, random.Random(len(data))

    def readable(self):
        return True

    def readinto(self, b):
        n = min(len(b), self._r.randint(1, 7), len(self._d) - self._p)
        b[:n] = self._d[self._p:self._p + n]
        self._p += n
        return n


def _scratch_file():
    _SCRATCH["n"] += 1
    return os.path.join(_SCRATCH["dir"], "c17-%d-%d.copyright" % (os.getpid(), _SCRATCH["n"]))


def parse_doc(C, text, form):
    """Copyright(...) over every documented input form"""
    lines = text.splitlines(True)
    if form == "latin1":
        try:
            return C.Copyright(text.encode("latin-1").splitlines(True), encoding="latin-1", strict=True)
        except UnicodeEncodeError:
            form = "bytes"
    if form in ("disk-text", "disk-bin", "disk-unbuf", "gzip-disk", "gzip-text") and _SCRATCH["dir"] is None:
        form = "file"
    if form == "lines":
        return C.Copyright(lines, strict=True)
    if form == "lines-nonl":
        return C.Copyright(text.split("\n")[:-1] if text.endswith("\n") else text.split("\n"), strict=True)
    if form == "str":
        return C.Copyright(text)
    if form == "bytes-str":
        return C.Copyright(text.encode("utf-8"), "utf-8")
    if form == "bytes":          # "encoding: Encoding to use, in case input is raw byte strings"
        return C.Copyright(text.encode("utf-8").splitlines(True), encoding="utf-8", strict=True)
    if form == "iter":
        return C.Copyright(iter(lines), strict=True)
    if form == "gen":
        return C.Copyright((x for x in lines), strict=True)
    if form == "tuple":
        return C.Copyright(tuple(lines), strict=True)
    if form == "file":
        return C.Copyright(io.StringIO(text), strict=True)
    if form == "bytesio":
        return C.Copyright(io.BytesIO(text.encode("utf-8")), encoding="utf-8")
    if form in ("disk-text", "disk-bin"):
        path = _scratch_file()
        with io.open(path, "w", encoding="utf-8", newline="\n") as f:
            f.write(text)
        try:
            with (io.open(path, "rt", encoding="utf-8", newline="\n") if form == "disk-text" else open(path, "rb")) as f:
                return C.Copyright(f, strict=True)
        finally:
            os.unlink(path)
    if form in ("disk-unbuf", "gzip-disk", "gzip-text"):
        import gzip
        data = text.encode("utf-8")
        path = _scratch_file()
        with open(path, "wb") as f:
            f.write(data if form == "disk-unbuf" else gzip.compress(data, 1))
        try:
            with (open(path, "rb", buffering=0) if form == "disk-unbuf" else gzip.open(path, "rb") if form == "gzip-disk"
                  else gzip.open(path, "rt", encoding="utf-8", newline="\n")) as f:
                return C.Copyright(f, strict=True)
        finally:
            os.unlink(path)
    if form in ("short-reads", "short-text", "gzip", "bz2", "lzma", "spooled", "spooled-text", "gen-bytes"):
        import bz2
        import gzip
        import lzma
        import tempfile
        data = text.encode("utf-8")
        if form == "gen-bytes":
            return C.Copyright((x for x in data.splitlines(True)), encoding="utf-8", strict=True)
        if form == "short-reads":
            f = io.BufferedReader(_ShortRaw(data))
        elif form == "short-text":
            f = io.TextIOWrapper(io.BufferedReader(_ShortRaw(data)), encoding="utf-8", newline="\n")
        elif form == "gzip":
            f = gzip.GzipFile(fileobj=io.BytesIO(gzip.compress(data, 1)))
        elif form == "bz2":
            f = bz2.BZ2File(io.BytesIO(bz2.compress(data, 1)))
        elif form == "lzma":
            f = lzma.LZMAFile(io.BytesIO(lzma.compress(data, preset=0)))
        elif form == "spooled":
            f = tempfile.SpooledTemporaryFile(max_size=4096 if len(data) % 2 else 1 << 22, dir=_SCRATCH["dir"])
            f.write(data)
            f.seek(0)
        else:
            f = tempfile.SpooledTemporaryFile(max_size=4096 if len(data) % 2 else 1 << 22, mode="w+", encoding="utf-8", newline="\n", dir=_SCRATCH["dir"])
            f.write(text)
            f.seek(0)
        with f:
            return C.Copyright(f, strict=True)
    if form == "positional":
        return C.Copyright(lines, "utf-8", True)
    if form == "keyword":
        return C.Copyright(sequence=lines, encoding="utf-8", strict=True)
    if form == "nonstrict":      # a valid document reads the same without strictness (and logs nothing)
        return C.Copyright(lines, strict=False)
    if form == "crlf":
        return C.Copyright([x[:-1] + "\r\n" if x.endswith("\n") else x for x in lines], strict=True)
    raise core.MachineryError("unknown parse form %r" % form)


def dump_doc(c, form):
    if form in ("file", "file-pos"):
        f = io.StringIO()
        r = c.dump(f=f) if form == "file" else c.dump(f)
        if r is not None:
            raise TypeError("dump(f) returned %r" % type(r))
        return f.getvalue()
    if form == "disk" and _SCRATCH["dir"] is not None:
        path = _scratch_file()
        try:
            with io.open(path, "w", encoding="utf-8", newline="\n") as f:
                c.dump(f)
            with io.open(path, "r", encoding="utf-8", newline="\n") as f:
                return f.read()
        finally:
            if os.path.exists(path):
                os.unlink(path)
    if form == "spooled":
        import tempfile
        with tempfile.SpooledTemporaryFile(max_size=8192, mode="w+", encoding="utf-8", newline="\n", dir=_SCRATCH["dir"]) as f:
            c.dump(f)
            f.seek(0)
            return f.read()
    if form == "wrapped-bytesio":
        raw = io.BytesIO()
        f = io.TextIOWrapper(raw, encoding="utf-8", newline="\n")
        c.dump(f=f)
        f.flush()
        return raw.getvalue().decode("utf-8")
    if form == "gzip" and _SCRATCH["dir"] is not None:
        import gzip
        path = _scratch_file()
        try:
            with gzip.open(path, "wt", encoding="utf-8", newline="\n", compresslevel=1) as f:
                c.dump(f)
            with gzip.open(path, "rb") as f:
                return f.read().decode("utf-8")
        finally:
            if os.path.exists(path):
                os.unlink(path)
    return c.dump()


HDR_KNOWN = ("format", "upstream-name", "upstream-contact", "license", "files-excluded", "files-included")
HDR_ATTR = {"source": "source", "disclaimer": "disclaimer", "comment": "comment", "copyright": "copyright"}


def _lic_parts(lic, vr):
    """the two parts of a License namedtuple through attributes / indexes / unpacking"""
    v = vr.choice(["attr", "attr", "index", "unpack"]) if vr is not None else "attr"
    if v == "index":
        return lic[0], lic[1]
    if v == "unpack":
        syn, text = lic
        return syn, text
    return lic.synopsis, lic.text


def _extras(p, known, attrs):
    """the other fields of a wrapper, through iteration + item access; a field that also has a
    property must read the same through it"""
    out = []
    for k in p:
        if k.lower() in known:
            continue
        v = p[k]
        a = attrs.get(k.lower())
        if a is not None and getattr(p, a) != v:
            out.append(["getter-disagrees:" + k, repr(getattr(p, a))])
        out.append([k, v])
    return out


def observe_doc(C, c, vr=None):
    """projection of a Copyright object: (header dict, list of paragraph dicts); `vr` rotates the
    query entry points (all_paragraphs / iteration / the two filtered iterators, License access)"""
    h = c.header
    hl = h.license
    hdr = {"format": h.format, "name": h.upstream_name, "uc": list(h.upstream_contact),
           "lic": None if hl is None else list(_lic_parts(hl, vr)),
           "fe": list(h.files_excluded), "fi": list(h.files_included), "extra": _extras(h, HDR_KNOWN, HDR_ATTR)}
    if not (h.known_format() and h.current_format()) or len(h) != len(list(h)):
        hdr["format"] = "known_format/current_format/len disagree: %r" % (h.format,)
    ps = []
    allp = list(c.all_paragraphs())
    viai = list(c) if vr is None or vr.random() < 0.5 else [x for x in iter(c)]
    body = (viai if vr is not None and vr.random() < 0.5 else allp)[1:]
    for p in body:
        if isinstance(p, C.FilesParagraph):
            syn, text = _lic_parts(p.license, vr)
            ps.append({"kind": "Files", "pats": list(p.files), "copy": p.copyright, "syn": syn, "text": text,
                       "extra": _extras(p, ("files", "copyright", "license"), {"comment": "comment"})})
        elif isinstance(p, C.LicenseParagraph):
            syn, text = _lic_parts(p.license, vr)
            ps.append({"kind": "License", "pats": [], "copy": None, "syn": syn, "text": text,
                       "extra": _extras(p, ("license",), {"comment": "comment"})})
        else:
            ps.append({"kind": type(p).__name__, "pats": [], "copy": None, "syn": None, "text": None, "extra": []})
    fs = list(c.all_files_paragraphs())
    ls = list(c.all_license_paragraphs())
    same_objects = (len(allp) == len(viai) and all(x is y for x, y in zip(allp, viai)) and allp[:1] == [h]
                    and [x for x in allp[1:] if isinstance(x, C.FilesParagraph)] == fs
                    and [x for x in allp[1:] if isinstance(x, C.LicenseParagraph)] == ls)
    if not same_objects:
        ps.append({"kind": "iterators-disagree", "pats": [], "copy": None, "syn": None, "text": None, "extra": []})
    return hdr, ps


def query_files(C, c, names):
    """find_files_paragraph through the document: position of the answer (or the exception) per name"""
    body = list(c.all_paragraphs())[1:]
    out = []
    for n in names:
        try:
            p = c.find_files_paragraph(n)
            out.append(None if p is None else [i for i, q in enumerate(body) if q is p][0])
        except Exception as e:
            out.append(exc_name(e))
    return out


SCRIBBLE = [{"kind": "scribble"}]
RAW_ATTR = {"Comment": "comment", "Source": "source", "Disclaimer": "disclaimer", "Copyright": "copyright"}
ENT_ATTR = {"Upstream-Contact": "upstream_contact", "Files-Excluded": "files_excluded", "Files-Included": "files_included"}
NONE_ATTR = dict(RAW_ATTR, **{"Files": "files", "License": "license", "Format": "format", "Upstream-Name": "upstream_name"})


def exc_class(e):
    """the class of an exception as the specification names it (RejectExc)"""
    n = type(e).__name__
    if n in ("RestrictedFieldError", "KeyError"):
        return n
    return "TypeError" if isinstance(e, TypeError) else ("ValueError" if isinstance(e, ValueError) else n)


# ---- faults of caller-supplied objects (notes/SIZE_STRESS.md part 5; spec: kind "fault").  The object the caller hands
# over fails at its first / a middle / its last step; the caller's exception must come out and the document must be
# as it was -- the history then goes on with ordinary calls, dumps and parses.
class _CallerFault(Exception):
    """a private exception class of the caller"""


FAULT_EXC = {"OSError": OSError, "ValueError": ValueError, "KeyError": KeyError, "private": _CallerFault}
FAULT_AT = ["first", "middle", "last"]
FAULT_PARSE = ["gen", "iter-obj", "text-file", "bytes-file", "eof-line", "eof-mid"]


def _fault_index(at, n):
    """0-based step (of n) at which the object fails; "last": after everything was delivered"""
    return 0 if at == "first" else (n if at == "last" else n // 2)


def _faulting_iter(items, k, exc):
    for j, x in enumerate(items):
        if j == k:
            raise exc
        yield x
    raise exc


class _FaultyIterable:
    """an iterable (not a generator) of lines / items whose iterator raises at step k"""

    def __init__(self, items, k, exc):
        self.items, self.k, self.exc = items, k, exc

    def __iter__(self):
        return _faulting_iter(self.items, self.k, self.exc)


class _FaultyWriter:
    """a text file object whose k-th write() raises (exc None: it only counts)"""

    def __init__(self, k=None, exc=None):
        self.n, self.k, self.exc, self.parts = 0, k, exc, []

    def write(self, data):
        if self.exc is not None and self.n == self.k:
            raise self.exc
        self.n += 1
        self.parts.append(data)
        return len(data)


class _FaultyRaw(io.RawIOBase):
    """a raw stream that raises once `limit` bytes have been read"""

    def __init__(self, data, limit, exc):
        io.RawIOBase.__init__(self)
        self._d, self._p, self._limit, self._exc = data, 0, limit, exc

    def readable(self):
        return True

    def readinto(self, b):
        if self._p >= self._limit:
            raise self._exc
        n = min(len(b), 512, self._limit - self._p, len(self._d) - self._p)
        b[:n] = self._d[self._p:self._p + n]
        self._p += n
        return n


def do_fault(C, c, p, e, vr, holder):
    """one call whose caller-supplied object fails; `holder` receives the exception object the caller's object raises
    (the call must let exactly that one out); returns None for an input that merely ends early"""
    at = e.setdefault("k", vr.choice(FAULT_AT) if vr is not None else "middle")
    xc = e.setdefault("xc", vr.choice(sorted(FAULT_EXC)) if vr is not None else "OSError")
    exc = FAULT_EXC[xc]("fault of the caller's object (%s, %s)" % (at, xc))
    holder.append(exc)
    f = e["f"]
    if f == "Files" or f in ENT_ATTR:
        items = list(e.get("pats") or (["src/*", "doc/*.txt", "Makefile"] if f == "Files" else ["Jane <j@example.org>", "Joe <k@example.org>"]))
        k = _fault_index(at, len(items))
        obj = _faulting_iter(items, k, exc) if vr is None or vr.random() < 0.6 else _FaultyIterable(items, k, exc)
        setattr(p, "files" if f == "Files" else ENT_ATTR[f], obj)
        return exc
    if f == "dump":
        whole = e.get("i", -1) < 0                 # the document / one paragraph (RestrictedWrapper.dump)
        cnt = _FaultyWriter()
        if whole:
            c.dump(cnt)
        else:
            p.dump(cnt, text_mode=True)
        w = _FaultyWriter(min(_fault_index(at, cnt.n), max(cnt.n - 1, 0)), exc)
        if whole:
            c.dump(f=w)
        else:
            p.dump(w, text_mode=True)
        return exc
    if f == "parse":
        how = e.setdefault("how", vr.choice(FAULT_PARSE) if vr is not None else "gen")
        text = c.dump()
        lines = text.splitlines(True)
        k = _fault_index(at, len(lines))
        if how in ("eof-line", "eof-mid"):
            # an input that ends early is just another input: whatever comes out, the new object is dropped
            cut = "".join(lines[:max(k, 1)])
            cut = cut[:-max(1, len(lines[max(k, 1) - 1]) // 2)] if how == "eof-mid" else cut
            log = logging.getLogger("debian.copyright")
            was = log.disabled
            log.disabled = True              # (what a truncated input makes the reader log is not an observation)
            try:
                C.Copyright(io.StringIO(cut) if at != "last" else io.BytesIO(cut.encode("utf-8")), strict=at != "first")
            except Exception:
                pass
            finally:
                log.disabled = was
            return None
        if how == "gen":
            C.Copyright(_faulting_iter(lines, k, exc), strict=True)
        elif how == "iter-obj":
            C.Copyright(_FaultyIterable([x.encode("utf-8") for x in lines], k, exc), encoding="utf-8")
        else:
            data = text.encode("utf-8")
            limit = 0 if at == "first" else (len(data) if at == "last" else len("".join(lines[:k]).encode("utf-8")) + 1)
            raw = io.BufferedReader(_FaultyRaw(data, limit, exc), 64)
            C.Copyright(io.TextIOWrapper(raw, encoding="utf-8", newline="\n") if how == "text-file" else raw, strict=True)
        return exc
    raise core.MachineryError("unknown fault %r" % (e,))


def do_call(C, c, p, e, vr=None):
    """ONE call of the public API on paragraph / header `p` of document `c` (spec: EditRec / ApplyCall).  The
    outcome is stored in the call: raised (an exception came out: the specification says which calls are
    refused, and that a refused call changes nothing) and exc.  `vr` rotates equivalent argument forms."""
    k = e["kind"]
    e["raised"], e["exc"] = False, ""
    holder = []
    try:
        if k == "files":
            v = _mk_pats(e["pats"], vr) if vr is None or vr.random() < 0.6 else (tuple(e["pats"]) if vr.random() < 0.5 else (x for x in list(e["pats"])))
            p.files = v
        elif k == "copy":
            p.copyright = e["copy"]
        elif k == "lic":
            p.license = _mk_lic(C, e["syn"], e["text"], vr)
        elif k == "raw":
            setattr(p, RAW_ATTR[e["f"]], e["copy"])
        elif k == "name":
            p.upstream_name = e["copy"]
        elif k == "entries":
            v = caller_list("entries", e["pats"]) if vr is None or vr.random() < 0.6 else tuple(e["pats"])
            setattr(p, ENT_ATTR[e["f"]], v)
        elif k == "none":
            setattr(p, NONE_ATTR[e["f"]], None)
        elif k == "item":
            # (a restricted field is recognised whatever the case of the key; a custom key is stored as given)
            key = e["f"] if vr is None or e["f"] not in NONE_ATTR or vr.random() < 0.6 else vr.choice([e["f"].lower(), e["f"].upper()])
            p[key] = e["copy"]
        elif k == "delitem":
            key = e["f"] if vr is None or e["f"] not in NONE_ATTR or vr.random() < 0.6 else vr.choice([e["f"].lower(), e["f"].upper()])
            del p[key]
        elif k == "wrongadd":
            wrong = vr.choice(["para", "para", "none", "header", "deb822"]) if vr is not None else "para"
            lp = C.LicenseParagraph.create(C.License("WRONG", "wrong"))
            fp = C.FilesParagraph.create(["wrong/*"], "wrong", C.License("WRONG"))
            if e["f"] == "Files":
                c.add_files_paragraph({"para": lp, "none": None, "header": c.header}.get(wrong, "Files: *"))
            elif e["f"] == "License":
                c.add_license_paragraph({"para": fp, "none": None, "header": c.header}.get(wrong, "License: x"))
            else:
                c.header = {"para": fp, "none": None, "header": lp}.get(wrong, "Format: x")
        elif k == "fault":
            if do_fault(C, c, p, e, vr, holder) is None:         # (an input that ended early: not judged)
                e["raised"], e["exc"] = True, "CallerError"
        elif k == "add":
            # (creating the paragraph is part of the step: create / the setters / the constructor may refuse a value)
            q = _mk_para(C, e["para"], vr if has_look("".join(e["para"]["pats"]) + e["para"]["syn"]) else None)
            if e["para"]["kind"] == "Files":
                c.add_files_paragraph(q)
            else:
                c.add_license_paragraph(q)
            e["at"] = [i for i, x in enumerate(list(c.all_paragraphs())[1:]) if x is q][0]
        else:
            raise core.MachineryError("unknown call %r" % (e,))
    except core.MachineryError:
        raise
    except Exception as exc:           # an exception of the code under test is an observation
        e["raised"], e["exc"], e["msg"] = True, exc_class(exc), ("%s: %s" % (type(exc).__name__, exc))[:160]
        if k == "fault":
            # the caller's own exception object, and nothing else, must come out
            e["exc"] = "CallerError" if holder and exc is holder[0] else "%s instead of the caller's exception" % type(exc).__name__


def apply_edits(C, c, edits, vr=None):
    """change a (re-parsed) document through the public setters / item access / add_* calls (accepted and
    refused ones); for "add" the observed position of the new paragraph is stored in the edit ("at")"""
    for e in edits:
        body = list(c.all_paragraphs())[1:]
        if e["kind"] == "scribble":
            for p in body:
                if isinstance(p, C.FilesParagraph):
                    p.files = ["scribbled/*", "*"]
                    p.copyright = "scribbled by the caller\n 2099 nobody"
                p.license = C.License("SCRIBBLED", "scribbled\n\n .\n  text")
            c.header.upstream_name = "scribbled"
            c.header.upstream_contact = ["scribbled <s@example.org>", "two"]
            c.add_files_paragraph(C.FilesParagraph.create(["scribbled"], "scribbled", C.License("SCRIBBLED")))
            c.add_license_paragraph(C.LicenseParagraph.create(C.License("SCRIBBLED", "x")))
        else:
            do_call(C, c, c.header if e.get("i", -1) < 0 else body[e["i"]], e, vr)


def call_done(e):
    """the call changed the document: it did not raise"""
    return not e.get("raised")


def edited_hdr(hdr, edits):
    """the concrete header after the calls that did not raise (for messages; verdicts come from TLC)"""
    h = dict(hdr)
    h["extra"] = [list(x) for x in hdr.get("extra") or []]
    for e in edits:
        if e.get("i", 0) >= 0 or not call_done(e) or e["kind"] in ("add", "wrongadd"):
            continue
        k = e["kind"]
        if k == "name":
            h["name"] = e["copy"]
        elif k == "lic":
            h["lic"] = [e["syn"], e["text"]]
        elif k == "entries":
            h[{"Upstream-Contact": "uc", "Files-Excluded": "fe", "Files-Included": "fi"}[e["f"]]] = list(e["pats"])
        elif k in ("none", "delitem") and e["f"] == "Upstream-Name":
            h["name"] = None
        elif k in ("none", "delitem") and e["f"] == "License":
            h["lic"] = None
        else:
            _edit_extra(h, e)
    return h


def _edit_extra(d, e):
    x = [list(kv) for kv in d.get("extra") or []]
    if e["kind"] in ("raw", "item"):
        if any(kv[0] == e["f"] for kv in x):
            x = [[kv[0], e["copy"]] if kv[0] == e["f"] else kv for kv in x]
        else:
            x.append([e["f"], e["copy"]])
    else:
        x = [kv for kv in x if kv[0] != e["f"]]
    d["extra"] = x


def edited_doc(doc, edits):
    """the concrete document after the calls that did not raise (plain list surgery on the harness' own
    input data, with the OBSERVED position of an added paragraph; verdicts come from TLC)"""
    doc = [dict(p) for p in doc]
    for e in edits:
        if not call_done(e) or e["kind"] == "wrongadd" or (e["kind"] != "add" and e.get("i", -1) < 0):
            continue
        if e["kind"] == "files":
            doc[e["i"]]["pats"] = list(e["pats"])
        elif e["kind"] == "copy":
            doc[e["i"]]["copy"] = e["copy"]
        elif e["kind"] == "lic":
            doc[e["i"]]["syn"], doc[e["i"]]["text"] = e["syn"], e["text"]
        elif e["kind"] == "add":
            doc.insert(e["at"], dict(e["para"]))
        else:
            _edit_extra(doc[e["i"]], e)
    return doc


def query_names(ops):
    """file names to ask find_files_paragraph about (the answers of the built and of the re-parsed
    document must agree; which answer is right is property C16)"""
    names = ["debian/copyright", "x"]
    for op in ops[:4]:
        for pat in op["pats"][:2]:
            names.append(pat.replace("\\", "").replace("*", "x").replace("?", "y")[:60])
    return names[:8]


def exec_doc(hdr, ops, start="api", form="lines", dumpform="str", edits=None, vseed=None, calls=()):
    """build (the add_* calls `ops`, and in between the other calls `calls`: setters, item access, accepted and
    refused ones -- each carries "after" = the number of add_* calls made before it and "i" = the index of its
    paragraph in ops, -1 = header / document) -> dump -> strict re-parse -> dump; then change the re-parsed
    document (`edits`: a function
    from the observed paragraph order to a list of edits; None or a None result: scribble over
    everything), dump and strictly re-parse it again (only for real edits), and parse the FIRST dump
    once more.  `vseed` rotates the API entry points used for every step (None: the primary ones);
    `form` / `dumpform` are the input form of the first re-parse / the output form of the first dump.
    hdr = {"name": str|None, "uc": [str], "lic": [syn, text]|None, "fe": [str], "fi": [str], "extra": [[key, value]]}
    ops = [{"kind": "Files"|"License", "pats": [...], "copy": str, "syn": str, "text": str, "extra": [[key, value]]}]"""
    from debian import copyright as C
    from debian import deb822
    _shared_reset(C)
    vr = random.Random(vseed) if vseed is not None else None
    o = {"stage": "", "exc": "", "msg": "", "order": None, "dump": None, "warn": [], "format0": None,
         "hdr": None, "paras": None, "dump2": None, "find": None, "law": None, "alias": False,
         "edits": None, "hdr2": None, "paras2": None, "dump3": None, "dump4": None, "hdr3": None, "paras3": None,
         "_live": None, "calls": []}
    log = logging.getLogger("debian.copyright")
    handler = _Catch()
    old_prop = log.propagate
    log.addHandler(handler)
    log.propagate = False
    form2 = vr.choice(PARSE_FORMS) if vr is not None else form
    form3 = vr.choice(PARSE_FORMS) if vr is not None else form
    dumpform3 = vr.choice(DUMP_FORMS) if vr is not None else dumpform
    o["var"] = ["parse:" + form, "parse:" + form2, "parse:" + form3, "dump:" + dumpform, "dump:" + dumpform3,
                "entry points rotated" if vr is not None else "primary entry points"]
    try:
        try:
            o["stage"] = "build"
            c = C.Copyright()
            h = c.header
            o["format0"] = h.format
            if hdr.get("name") is not None:
                h.upstream_name = hdr["name"]
            if hdr.get("uc"):
                h.upstream_contact = caller_list("entries", hdr["uc"])
            if hdr.get("lic") is not None:
                h.license = _mk_lic(C, hdr["lic"][0], hdr["lic"][1], vr)
            if hdr.get("fe"):
                h.files_excluded = caller_list("entries", hdr["fe"])
            if hdr.get("fi"):
                h.files_included = tuple(hdr["fi"]) if vr is not None and vr.random() < 0.5 else caller_list("entries", hdr["fi"])
            _set_extra(h, hdr.get("extra"), header=True)
            if vr is not None and vr.random() < 0.3:     # a Header built over a Deb822 object, installed by the setter
                c.header = C.Header(deb822.Deb822(_para_text(h, vr)))
            objs = [_mk_para(C, op, vr) for op in ops]
            todo = [dict(e) for e in calls]
            o["calls"] = todo

            def run_calls(n, targets, early=False):
                """the pending calls made after <= n add_* calls, in order; early: (rotated) the next calls on
                paragraph n, before it is added to the document"""
                for e in todo:
                    if "raised" in e:
                        continue
                    if early and not (e["after"] == n + 1 and e.get("i", -1) == n and vr is not None and vr.random() < 0.3):
                        break
                    if not early and e["after"] > n:
                        break
                    do_call(C, c, c.header if e.get("i", -1) < 0 else targets[e["i"]], e, vr)
            if start == "api":
                run_calls(0 if objs else 10 ** 9, objs)
                for n, p in enumerate(objs):
                    run_calls(n, objs, early=True)
                    if isinstance(p, C.FilesParagraph):
                        c.add_files_paragraph(p)
                    else:
                        c.add_license_paragraph(p)
                    run_calls(n + 1 if n + 1 < len(objs) else 10 ** 9, objs)
                body = [p for p in c.all_paragraphs()][1:]
                o["order"] = [[i for i, q in enumerate(objs) if q is p][0] for p in body]
            else:
                htext = _para_text(c.header, vr)
                if vr is not None and vr.random() < 0.25 and htext.startswith("Format:") and not any(e.get("i", -1) < 0 for e in todo):
                    htext = "Format-Specification:" + htext[len("Format:"):]     # deprecated field name: warned about, rewritten
                    o["alias"] = True
                text = htext + "".join("\n" + _para_text(p, vr) for p in objs)
                c = parse_doc(C, text, vr.choice(PARSE_FORMS) if vr is not None else "lines")
                o["order"] = list(range(len(objs)))
                # the other calls are made on the parsed document
                run_calls(10 ** 9, list(c.all_paragraphs())[1:])
            o["stage"] = "dump"
            d1 = dump_doc(c, dumpform)
            o["dump"] = d1
            if not isinstance(d1, str):
                raise TypeError("dump() returned %r" % type(d1))
            o["stage"] = "load"
            del handler.msgs[:]
            c2 = parse_doc(C, d1, form)
            o["stage"] = "getters"
            o["hdr"], o["paras"] = observe_doc(C, c2, vr)
            o["warn"] = list(handler.msgs)
            o["stage"] = "dump2"
            o["dump2"] = c2.dump()
            # ---- secondary entry points, same objects: file queries, License <-> string
            o["stage"] = "queries"
            if vr is not None and vr.random() < 0.4:
                names = query_names(ops)
                q1, q2 = query_files(C, c, names), query_files(C, c2, names)
                if q1 != q2:
                    o["find"] = "find_files_paragraph%r answers %r on the document and %r on its re-parsed dump" % (tuple(names), q1, q2)
            seen = 0
            for syn, text in [(op["syn"], op["text"]) for op in ops] + ([tuple(hdr["lic"])] if hdr.get("lic") else []):
                if seen >= 4 or o["law"]:
                    break
                seen += 1
                lic = _mk_lic(C, syn, text, vr)
                back = C.License.from_str(lic.to_str())
                if tuple(back) != (syn, text) or not isinstance(back, C.License) or C.License.from_str(None) is not None:
                    o["law"] = "License.from_str(License(%r, %r).to_str()) = %r" % (syn, text, back)
            # ---- second phase: nothing of the first round trip may leak into later calls
            o["stage"] = "edit"
            chosen = edits(o["order"], o["calls"]) if edits is not None else None
            ed = [dict(e) for e in (SCRIBBLE if chosen is None else chosen)]
            o["edits"] = ed
            apply_edits(C, c2, ed, vr)
            if chosen is not None:
                o["stage"] = "dump3"
                o["dump3"] = dump_doc(c2, dumpform3)
                o["stage"] = "load2"
                c4 = parse_doc(C, o["dump3"], form2)
                o["stage"] = "getters2"
                o["hdr2"], o["paras2"] = observe_doc(C, c4, vr)
                o["stage"] = "dump4"
                o["dump4"] = c4.dump()
            o["stage"] = "load3"
            c3 = parse_doc(C, d1, form3)
            o["stage"] = "getters3"
            o["hdr3"], o["paras3"] = observe_doc(C, c3, vr)
            o["warn"] += list(handler.msgs[len(o["warn"]):])
            o["_live"] = (C, c3)
            o["stage"] = "done"
        except core.MachineryError:
            raise
        except Exception as e:       # an exception of the code under test is an observation
            o["exc"], o["msg"] = exc_name(e), str(e)[:300]
            o["warn"] = list(handler.msgs)
    finally:
        log.removeHandler(handler)
        log.propagate = old_prop
    return o


STAGE = {"build": "building the document", "dump": "dump()",
         "load": "Copyright(<lines / file object / UTF-8 byte lines of dump()>, strict=True)", "getters": "reading the re-parsed paragraphs",
         "dump2": "the second dump()", "queries": "find_files_paragraph / License.from_str(to_str())", "edit": "changing the re-parsed document through its setters / add_*",
         "dump3": "dump() of the changed document", "load2": "the strict re-parse of the changed document",
         "getters2": "reading the paragraphs of the changed and re-parsed document",
         "dump4": "dump() after the second re-parse", "load3": "parsing the first dump a second time",
         "getters3": "reading the paragraphs of the second parse of the first dump"}


def compare_doc(got_hdr, got, hdr, expected, format0, what):
    """one observed (header, paragraphs) against the expected document; None or a message"""
    if [p["kind"] for p in got] != [p["kind"] for p in expected]:
        return "%s: paragraph kinds/order %r, expected %r" % (what, [p["kind"] for p in got], [p["kind"] for p in expected])
    for i, (g, e) in enumerate(zip(got, expected)):
        if e["kind"] == "Files":
            if list(g["pats"]) != list(e["pats"]):
                return "%s: paragraph %d: files %r, expected %r" % (what, i + 1, g["pats"], e["pats"])
            if g["copy"] != e["copy"]:
                return "%s: paragraph %d: copyright %r, expected %r" % (what, i + 1, g["copy"], e["copy"])
        if g["syn"] != e["syn"]:
            return "%s: paragraph %d: license synopsis %r, expected %r" % (what, i + 1, g["syn"], e["syn"])
        if g["text"] != e["text"]:
            return "%s: paragraph %d: license text %r, expected %r" % (what, i + 1, g["text"], e["text"])
        if [list(x) for x in g.get("extra") or []] != [list(x) for x in e.get("extra") or []]:
            return "%s: paragraph %d: other fields (comment ...) %r, expected %r" % (what, i + 1, g.get("extra"), e.get("extra"))
    h = got_hdr
    if h["format"] != format0:
        return "%s: header Format %r, was %r" % (what, h["format"], format0)
    if h["name"] != hdr.get("name"):
        return "%s: header Upstream-Name %r, expected %r" % (what, h["name"], hdr.get("name"))
    if list(h["uc"]) != list(hdr.get("uc") or []):
        return "%s: header Upstream-Contact %r, expected %r" % (what, h["uc"], hdr.get("uc"))
    if (h["lic"] is None) != (hdr.get("lic") is None) or (h["lic"] is not None and list(h["lic"]) != list(hdr["lic"])):
        return "%s: header License %r, expected %r" % (what, h["lic"], hdr.get("lic"))
    for k, label in (("fe", "Files-Excluded"), ("fi", "Files-Included")):
        if list(h.get(k) or []) != list(hdr.get(k) or []):
            return "%s: header %s %r, expected %r" % (what, label, h.get(k), hdr.get(k))
    if [list(x) for x in h.get("extra") or []] != [list(x) for x in hdr.get("extra") or []]:
        return "%s: other header fields %r, expected %r" % (what, h.get("extra"), hdr.get("extra"))
    return None


def judge_doc(o, hdr, expected, expected2=None, hdr2=None):
    """verdict observables of one execution against the expected document (list of paragraphs in
    the expected order, same form as ops) and, when the re-parsed document was edited, against the
    expected edited document; returns None or a message"""
    done = ["build", "dump", "load", "getters", "dump2", "queries", "edit", "dump3", "load2", "getters2", "dump4", "load3",
            "getters3", "done"]
    first_ok = not o["exc"] or done.index(o["stage"]) > done.index("dump2")
    if not first_ok:
        return "%s raised %s: %s" % (STAGE.get(o["stage"], o["stage"]), o["exc"], o["msg"])
    if o["warn"]:
        return "the strict re-parse logged warnings: %r" % (o["warn"][:3],)
    msg = compare_doc(o["hdr"], o["paras"], hdr, expected, o["format0"], "after the strict re-parse of dump()")
    if msg:
        return msg
    if o["dump2"] != o["dump"]:
        return "second dump() differs from the first: %r vs %r" % (o["dump2"][:400], o["dump"][:400])
    if o["find"] or o["law"]:
        return o["find"] or o["law"]
    if o["exc"]:
        return "%s raised %s: %s" % (STAGE.get(o["stage"], o["stage"]), o["exc"], o["msg"])
    if expected2 is not None:
        msg = compare_doc(o["hdr2"], o["paras2"], hdr2 or hdr, expected2, o["format0"],
                          "after calls on the re-parsed document (%s), dump() and a strict re-parse"
                          % "; ".join("%s%s" % (describe_call(e), " [raised %s]" % e["exc"] if e.get("raised") else "")
                                      for e in o["edits"]))
        if msg:
            return msg
        if o["dump4"] != o["dump3"]:
            return "dump() of the re-parsed changed document differs from the text it was parsed from: %r vs %r" % (
                o["dump4"][:400], o["dump3"][:400])
    return compare_doc(o["hdr3"], o["paras3"], hdr, expected, o["format0"],
                       "parsing the first dump again after the first parse result was changed")


class Live:
    """the objects of an earlier case, kept alive and looked at again after an unrelated case"""

    def __init__(self, o):
        self.C, self.c = o["_live"]
        self.obs = (o["hdr3"], o["paras3"], o["dump"])

    def recheck(self):
        try:
            h, ps = observe_doc(self.C, self.c)
            d = self.c.dump()
        except Exception as e:
            return "looking again at the document of an earlier case raised %s: %s" % (exc_name(e), str(e)[:200])
        if (h, ps) != self.obs[:2]:
            return "the parsed document of an earlier case changed while another document was processed: %r, was %r" % (
                ps, self.obs[1])
        if d != self.obs[2]:
            return "dump() of the parsed document of an earlier case changed while another document was processed: %r, was %r" % (
                d[:400], self.obs[2][:400])
        return None


def abs_dump(text, it):
    """independent classification of the physical lines of a dumped document"""
    lines = text.split("\n")
    if lines and lines[-1] == "":
        lines.pop()
    out = []
    for ln in lines:
        if ln == "" or ln[0].isspace() or ":" not in ln:
            out.append({"f": "", "x": abs_line(ln, it)})
        else:
            key, _, rest = ln.partition(":")
            out.append({"f": key, "x": abs_line(rest[1:] if rest.startswith(" ") else rest, it)})
    return out


# ------------------------------------------------------------------ (a) replay of TLC's CASE lines

def stream_cases(path):
    with open(path, errors="replace") as f:
        for line in f:
            if not line.startswith('<<"CASE", "'):
                continue
            line = line.rstrip("\n")
            if not line.endswith('">>'):
                raise core.MachineryError("truncated TLC output line: %r" % line[:120])
            yield line[11:-3].replace('\\"', '"')


def codec_render(encs, inp, lines, conc):
    """concrete strings for a list of abstract lines `encs` that derive from the input list `inp`
    (abstract) / `lines` (concrete): payload by position id, blanks by relation to the source line"""
    out = []
    for idx, e in enumerate(encs):
        ind, b = e[0] // 10, e[0] % 10
        src = None
        if b == 2:
            src = e[1] - 1
        elif idx < len(inp) and inp[idx][0] % 10 == b:
            src = idx
        if src is None or src >= len(inp):
            out.append(" " * ind + ("." if b == 1 else ""))
            continue
        sind = inp[src][0] // 10
        sws, sbody = lines[src][:sind], lines[src][sind:]
        if ind >= sind:
            ws = " " * (ind - sind) + sws
        else:
            ws = sws[sind - ind:]
        out.append(ws + (sbody if b == 2 else ("." if b == 1 else "")))
    return out


def codec_concretize(case, conc):
    lines = []
    for i, e in enumerate(case["inp"]):
        ind, b = e[0] // 10, e[0] % 10
        ws = conc.ws("p%d" % i, ind)
        if b == 2:
            body = conc.get("t%d" % i, lambda: ("line %d" % (i + 1)) if conc.canonical else (
                spice(conc.rng, sized_text(conc.rng, size_len(conc.rng, 70000)) if conc.stress else conc.rng.choice(CODEC_POOL))))
        else:
            body = "." if b == 1 else ""
        lines.append(ws + body)
    return lines


def check_codec_case(case, conc, diag=None):
    """returns (violation message or None, lines)"""
    lines = codec_concretize(case, conc)
    o = exec_codec(lines, None if conc.canonical else conc.rng)
    exp_out = codec_render(case["out"], case["inp"], lines, conc)
    if case["dom"]:
        if case["out"] != case["inp"]:
            raise core.MachineryError("TLC printed a CASE inside the domain whose result is not the input: %r" % (case,))
        if o["exc"]:
            return "format_multiline_lines/parse_multiline_as_lines(%r) raised %s: %s" % (lines, o["exc"], o["msg"]), lines
        if o["out"] != exp_out:
            return "parse_multiline_as_lines(format_multiline_lines(%r)) = %r (encoded %r)" % (lines, o["out"], o["enc"]), lines
        if o["out2"] != exp_out or o["out3"] != exp_out:
            return ("a second parse_multiline_as_lines(format_multiline_lines(%r)), made after the caller changed the list "
                    "returned by the first call, gives %r / %r" % (lines, o["out2"], o["out3"])), lines
        if not o["kept"]:
            return "format_multiline_lines changed its argument %r or gave another text the second time" % (lines,), lines
        if case.get("sdom") and (o["sout"] != "\n".join(lines) or not o["ssame"]):
            return ("parse_multiline(format_multiline(%r)) = %r (string variants; format_multiline agrees with "
                    "format_multiline_lines: %r)" % ("\n".join(lines), o["sout"], o["ssame"])), lines
    elif diag is not None:
        if o["exc"] or o["out"] != exp_out:
            diag.append("codec normal form outside the condition: %r -> %r, specification predicts %r" % (
                lines, o["out"] if not o["exc"] else o["exc"], exp_out))
    if diag is not None and not o["exc"]:
        exp_enc = "\n".join(codec_render(case["enc"], case["inp"], lines, conc))
        if o["enc"] != exp_enc:
            diag.append("encoded form of %r is %r, specification predicts %r" % (lines, o["enc"], exp_enc))
    return None, lines


def doc_concretize(case, conc):
    """(header, ops, expected document, document before the edit or None, edits or None, calls of the build
    phase); edits and calls carry the specification's prediction: rej (the API refuses the call) and exc"""
    def para(p, k):
        return {"kind": p["k"], "pats": conc.pats(p["p"]),
                "copy": conc.text(p["c"], "c%d" % k) if p["k"] == "Files" else None,
                "syn": conc.line(p["l"]["s"], "s%d" % k), "text": conc.text(p["l"]["t"], "t%d" % k),
                "extra": [[f["k"], conc.text(f["v"], "x%d%s" % (k, f["k"]))] for f in p.get("x", [])]}

    def kof(p):
        return p["l"]["s"][1] // 1000
    h = case["hdr"]
    hdr = {"name": conc.text(h["n"][0], "hn") if h["n"] else None,
           "uc": [" ".join(conc.body(c) for c in e) for e in h["u"]],
           "lic": [conc.line(h["l"][0]["s"], "hs"), conc.text(h["l"][0]["t"], "ht")] if h["l"] else None,
           "fe": [" ".join(conc.body(c) for c in e) for e in h.get("fe", [])],
           "fi": [" ".join(conc.body(c) for c in e) for e in h.get("fi", [])],
           "extra": [[f["k"], conc.text(f["v"], "hx" + f["k"])] for f in h.get("x", [])]}
    ops = [para(p, kof(p)) for p in case["ops"]]

    def call(e, ek):
        """one call record printed by EncEdit, with what the specification says about it (rej, exc)"""
        k = e["kind"]
        ce = {"kind": k, "i": e["i"] - 1, "f": e["f"], "rej": bool(e["rej"]), "xexc": e["exc"],
              # may: the format does not settle whether the API takes the call; this CASE is about the outcome acc
              "may": bool(e.get("may")), "acc": bool(e.get("acc"))}
        if k == "files":
            ce["pats"] = conc.pats(e["p"])
        elif k == "entries":
            ce["pats"] = [" ".join(conc.word(c, "entry") for c in ent) if ent else conc.word(0, "entry") for ent in e["p"]]
        elif k in ("copy", "raw", "name", "item"):
            ce["copy"] = conc.text(e["c"], "c%d" % ek)
        elif k == "lic":
            # same synopsis (same payload id as the paragraph's), new text
            ce["syn"], ce["text"] = conc.line(e["l"]["s"], "s%d" % ek), conc.text(e["l"]["t"], "t%d" % ek)
        elif k == "add":
            ce["para"], ce["at"] = para(e["a"], 9), e["at"]
        return ce
    # (the expected document is concretized LAST: the two CASE lines of a call the format does not settle differ
    # in it only, and must draw the same strings)
    calls = [dict(call(c["e"], 8), after=c["at"]) for c in case.get("calls", [])]
    if not case.get("edit"):
        return hdr, ops, [para(p, kof(p)) for p in case["doc"]], None, None, calls
    pre = [para(p, kof(p)) for p in case["pre"]]
    e = case["edit"][0]
    # (the keys of the concretization are those of the edited paragraph: the expected document `doc`
    # printed by TLC is concretized to exactly the values the edit sets)
    ek = kof(case["pre"][e["i"] - 1]) if e["kind"] in ("files", "copy", "lic") and not e["rej"] and not e.get("may") else (9 if e["kind"] == "add" else 8)
    edits = [call(e, ek)]
    return hdr, ops, [para(p, kof(p)) for p in case["doc"]], pre, edits, calls


def describe_call(e):
    k = e["kind"]
    tgt = "the header" if e.get("i", -1) < 0 else "paragraph %d" % (e["i"] + 1)
    if k == "files":
        return "%s.files = %r" % (tgt, e["pats"])
    if k == "copy":
        return "%s.copyright = %r" % (tgt, e["copy"])
    if k == "lic":
        return "%s.license = License(%r, %r)" % (tgt, e["syn"], e["text"])
    if k == "raw":
        return "%s.%s = %r" % (tgt, RAW_ATTR[e["f"]], e["copy"])
    if k == "name":
        return "header.upstream_name = %r" % (e["copy"],)
    if k == "entries":
        return "header.%s = %r" % (ENT_ATTR[e["f"]], e["pats"])
    if k == "none":
        return "%s.%s = None" % (tgt, NONE_ATTR[e["f"]])
    if k == "item":
        return "%s[%r] = %r" % (tgt, e["f"], e["copy"])
    if k == "delitem":
        return "del %s[%r]" % (tgt, e["f"])
    if k == "wrongadd":
        return {"Files": "add_files_paragraph(<not a FilesParagraph>)", "License": "add_license_paragraph(<not a LicenseParagraph>)",
                "Header": "copyright.header = <not a Header>"}[e["f"]]
    if k == "add":
        return "add_%s_paragraph(...)" % e["para"]["kind"].lower()
    if k == "fault":
        what = {"Files": "%s.files = <iterable of patterns that raises>" % tgt, "dump": "%s.dump(<file object whose write() raises>)" % ("document" if e.get("i", -1) < 0 else tgt),
                "parse": "Copyright(<%s of the dumped text that fails>)" % e.get("how", "iterator")}.get(e["f"], "header.%s = <iterable that raises>" % ENT_ATTR.get(e["f"], e["f"]))
        return "%s [fault at the %s step, %s]" % (what, e.get("k", "middle"), e.get("xc", "OSError"))
    return k


def judge_calls(calls, diag=None):
    """the calls of one execution against what the specification (TLC: rej, xexc in the CASE line) says about
    each: (message or None, unspecified).  A call the specification refuses but the code carries out makes the
    execution UNSPECIFIED (the statement does not say which values the API accepts; the document then holds a
    value outside the domain); a call the specification accepts must not raise"""
    for e in calls:
        if "rej" not in e or "raised" not in e:
            continue
        if e.get("may") and e["rej"] != e["raised"]:
            # a call the format does not settle had the OTHER outcome: the twin CASE (same history, same
            # concretization, acc flipped) carries TLC's expected document for it and is judged instead
            return None, "twin"
        if e["rej"] and not e["raised"] and e["kind"] == "fault":
            return "%s did not raise: the exception of the caller's object was swallowed" % describe_call(e), False
        if e["rej"] and not e["raised"]:
            if diag is not None:
                diag.append("%s is refused by the specification but was carried out" % describe_call(e))
            return None, True
        if not e["rej"] and e["raised"]:
            return "%s raised %s" % (describe_call(e), e.get("msg") or e["exc"]), False
        if e["rej"] and e["exc"] != e["xexc"] and diag is not None:
            diag.append("%s raised %s, the specification names %s" % (describe_call(e), e["exc"], e["xexc"]))
    return None, False


def check_doc_case(case, conc, form="lines", dumpform="str", diag=None, vseed=None):
    """returns (message or None, observation)"""
    hdr, ops, doc, pre, edits, calls = doc_concretize(case, conc)
    first = doc if pre is None else pre

    def choose(order, _calls):
        # TLC's edit refers to TLC's paragraph order
        return edits if edits is not None and [ops[i] for i in order] == first else None
    o = exec_doc(hdr, ops, "api", form, dumpform, choose, vseed, calls)
    real_edits = edits is not None and o["edits"] is not None and o["edits"] != SCRIBBLE
    msg, unspecified = judge_calls(o["calls"] + (o["edits"] if real_edits else []), diag)
    mays = [e for e in o["calls"] + (o["edits"] if real_edits else []) if e.get("may") and "raised" in e]
    if mays:
        o["may"] = "judged by the twin case" if unspecified == "twin" else ("refused" if mays[0]["raised"] else "carried out")
    if unspecified:
        return None, o
    expected2 = None
    if real_edits:
        expected2 = doc
        if o["edits"][0]["kind"] == "add" and o["edits"][0].get("at", edits[0]["at"]) != edits[0]["at"]:
            expected2 = edited_doc(pre, o["edits"])
            if diag is not None:
                diag.append("add_*_paragraph on the re-parsed document put the paragraph at %d, the specification at %d"
                            % (o["edits"][0]["at"], edits[0]["at"]))
    # (a refused call changes nothing: TLC's expected documents `first` / `doc` are those of ApplyCall)
    msg = msg or judge_doc(o, hdr, first, expected2)
    if msg and o["calls"]:
        msg += " -- calls made while the document was built: " + "; ".join(
            "%s%s" % (describe_call(e), " [raised %s]" % e["exc"] if e.get("raised") else "") for e in o["calls"])
    if diag is not None and o["dump"] is not None and o["order"] is not None:
        # diagnostic: insertion order of add_* and the layout of dump() as the specification has them
        if [edited_doc(ops, o["calls"])[i] for i in o["order"]] != first:
            diag.append("order after add_*_paragraph calls %r differs from the specification's" % (o["order"],))
        elif pre is None:
            it = Interner(o["format0"])
            got = [(d["f"], d["x"]["ind"], d["x"]["b"]) for d in abs_dump(o["dump"], it)]
            exp = [(d["f"], d["x"][0] // 10, ("none", "dot", "txt")[d["x"][0] % 10]) for d in case["dump"]]
            if got != exp:
                diag.append("layout of dump() %r differs from the specification's %r" % (got[:12], exp[:12]))
    return msg, o


def pack(obj):
    import base64
    return base64.b64encode(zlib.compress(json.dumps(obj).encode(), 9)).decode()


def unpack(s):
    import base64
    return json.loads(zlib.decompress(base64.b64decode(s)).decode()) if s else []


def ks_for(crc, nconc, kind="codec"):
    """concretizations of one CASE: 0 canonical, 1..nconc-1 sampled (documents: for every second case),
    and for every STRESS_EVERY-th case one size-stressed concretization (number nconc)"""
    ks = [k for k in range(nconc) if k == 0 or kind != "doc" or (crc // 7 + k) % 2 == 0]
    return ks + ([nconc] if crc % STRESS_EVERY == 0 else [])


def case_crc(kind, case, body):
    """the number that seeds the concretizations of a CASE line.  The two CASE lines of a call the format does not
    settle (acc = carried out / refused) get the SAME number: both are executed alike, the observed outcome
    decides which of the two is judged (judge_calls)"""
    if kind == "doc":
        es = [c["e"] for c in case.get("calls", [])] + list(case.get("edit", []))
        if any(e.get("may") for e in es):
            strip = [{k: v for k, v in e.items() if k not in ("acc", "rej")} for e in es]
            return zlib.crc32(json.dumps([case["hk"], case["ops"], case["pre"], strip], sort_keys=True).encode())
    return zlib.crc32(body.encode())


def _doc_run(case, crc, seed, k, diag=None, nconc=None):
    """one execution of a document CASE: concretization k of the run's seed"""
    rng = random.Random("%s-%d-%d" % (seed, crc, k))
    conc = Conc(rng, canonical=(k == 0), stress=(nconc is not None and k == nconc))
    form = "lines" if k == 0 else rng.choice(PARSE_FORMS)
    dumpform = "str" if k == 0 else rng.choice(DUMP_FORMS)
    vseed = None if k == 0 else rng.getrandbits(30)
    msg, o = check_doc_case(case, conc, form, dumpform, diag, vseed)
    return msg, o, {"kind": "doc", "case": case, "conc": conc.c, "form": form, "dumpform": dumpform, "vseed": vseed,
                    "crc": crc, "k": k}


_PROC_HIST = []       # [kind, nconc, CASE line] of everything this (pool) process has executed, in order
HIST_MAX = 3000


def _codec_run(case, crc, seed, k, diag=None, nconc=None):
    rng = random.Random("%s-%d-%d" % (seed, crc, k))
    conc = Conc(rng, canonical=(k == 0), stress=(nconc is not None and k == nconc))
    msg, lines = check_codec_case(case, conc, diag)
    return msg, conc


def _worker(args):
    """replay a chunk of CASE lines (runs in a pool process forked before anything of the code under
    test was imported); returns (n, violations, drift, stats).  A filed document violation carries the
    CASE lines this process executed before it (`history`): state that leaks between calls or
    documents needs them to be reproduced"""
    kind, bodies, seed, nconc, repo = args
    if repo:
        core_lib = os.path.join(repo, "lib")
        import sys
        if core_lib not in sys.path:
            sys.path.insert(0, core_lib)
    viol, drift = [], []
    stats = {}
    n = 0
    prev = None          # Live objects of the previous document execution
    for bi, body in enumerate(bodies):
        case = json.loads(body)
        crc = case_crc(kind, case, body)
        for k in ks_for(crc, nconc, kind):
            diag = [] if len(drift) < 5 else None
            n += 1
            if kind == "codec":
                msg, conc = _codec_run(case, crc, seed, k, diag, nconc)
                if msg:
                    viol.append(({"kind": "codec", "case": case, "conc": conc.c}, msg))
                for s in case["l"]:
                    stats[s] = stats.get(s, 0) + 1
                if k == nconc:
                    stats["size_stressed_lists"] = stats.get("size_stressed_lists", 0) + 1
            else:
                msg, o, me = _doc_run(case, crc, seed, k, diag, nconc)
                if msg or prev is not None:
                    msg2 = prev.recheck() if prev is not None else None    # the previous objects must not have changed
                    if msg or msg2:
                        me.update(seed=seed, nconc=nconc, history=pack(_PROC_HIST[-HIST_MAX:]),
                                  history_truncated=len(_PROC_HIST) > HIST_MAX)
                        if msg:
                            viol.append((me, msg))
                        else:
                            viol.append((dict(me, kind="doc-pair"), msg2))
                prev = Live(o) if o["_live"] is not None else None
                for p in case["ops"]:
                    stats["add_" + p["k"]] = stats.get("add_" + p["k"], 0) + 1
                if k == nconc:
                    stats["size_stressed_documents"] = stats.get("size_stressed_documents", 0) + 1
                for v in o["var"]:
                    stats[v] = stats.get(v, 0) + 1
                if o.get("may"):
                    ek = "call not settled by the format (MayReject): " + o["may"]
                    stats[ek] = stats.get(ek, 0) + 1
                if case.get("edit"):
                    ek = ("edit_refused_" if case["edit"][0]["rej"] else "edit_") + case["edit"][0]["kind"]
                    stats[ek] = stats.get(ek, 0) + 1
                for cl in case.get("calls", []):
                    ek = ("build_call_refused_" if cl["e"]["rej"] else "build_call_carried_out_") + cl["e"]["kind"]
                    stats[ek] = stats.get(ek, 0) + 1
            if diag:
                drift += diag
            if len(viol) >= 5:
                return n, viol, drift[:5], stats
        _PROC_HIST.append([kind, nconc, body])
    return n, viol, drift[:5], stats


def replay_cases(ctx, kind, raw_path, nconc, mp_pool, procs):
    """spec -> code: every CASE line of one TLC run; returns the number of CASE lines"""
    bodies = list(stream_cases(raw_path))
    ncase = len(bodies)
    if not ncase:
        raise core.MachineryError("TLC printed no CASE line (%s)" % kind)
    # the first CASE lines of the output are the smallest structures: interleave them over the chunks
    nchunks = max(1, min(procs * 4, ncase // 50 or 1))
    chunks = [bodies[i::nchunks] for i in range(nchunks)]
    jobs = [(kind, ch, ctx.seed, nconc, ctx.repo) for ch in chunks]
    if mp_pool is not None and ncase > 200:
        results = mp_pool.map(_worker, jobs, 1)
    else:
        results = [_worker(j) for j in jobs]
    total = 0
    stats = {}
    allviol = []
    for n, viol, drift, st in results:
        total += n
        allviol += viol
        for d in drift:
            ctx.drift(d)
        for k, v in st.items():
            stats[k] = stats.get(k, 0) + v
    # file the smallest failing case(s): a failure is attributable to structure before payload
    allviol.sort(key=lambda cm: len(json.dumps(cm[0]["case"])))
    for case, msg in allviol[:1 if kind == "codec" else 2]:
        ctx.violation(case, msg)
    if allviol:
        ctx.extra["%s_cases_failed_at_least" % kind] = len(allviol)
    if kind == "codec":
        for body in bodies:
            ctx.distinct.add("codec:" + ",".join(json.loads(body)["l"]))
    if kind == "doc":
        for body in bodies:
            ctx.distinct.add("doc:%d" % zlib.crc32(body.encode()))
    ctx.evaluations += total
    ctx.extra.setdefault("per_action_counts", {}).update({("codec_line_" + k if kind == "codec" else k): v for k, v in stats.items()})
    ctx.extra["%s_cases" % kind] = ncase
    ctx.extra["%s_executions" % kind] = total
    # evidence samples: one mid-size case with its concretization
    mid = json.loads(bodies[(ncase * 2) // 3])
    conc = Conc(random.Random("%s-sample" % ctx.seed))
    if kind == "codec":
        lines = codec_concretize(mid, conc)
        ctx.sample("codec case %s: %r -> %r" % (",".join(mid["l"]), lines, exec_codec(lines)["out"]))
    else:
        hdr, ops = doc_concretize(mid, conc)[:2]
        ctx.sample("doc case hdr=%s ops=%s edit=%s: %s" % (mid["hk"], [p["k"] for p in mid["ops"]],
                                                            [e["kind"] for e in mid["edit"]],
                                                            json.dumps(exec_doc(hdr, ops)["dump"], ensure_ascii=False)[:600]))
    return ncase


# ------------------------------------------------------------------ negative controls of the specification

def _neg_base(mode):
    return open(os.path.join(core.SPEC, "CopyrightDoc_neg.cfg")).read().replace('Mode = "codec"', 'Mode = "%s"' % mode)


def spec_negative_control(ctx, mode, const, inv):
    """the invariants are not vacuous: the switch to the buggy design must make TLC report `inv`"""
    base = _neg_base(mode)
    cfg = base.replace("%s = FALSE" % const, "%s = TRUE" % const)
    if cfg == base:
        raise core.MachineryError("negative control constant %s not found in CopyrightDoc_neg.cfg" % const)
    cfg = "\n".join(l for l in cfg.splitlines() if not l.startswith("INVARIANT") or l == "INVARIANT " + inv) + "\n"
    r = ctx.tlc("CopyrightDoc", cfg, workers=1, count=False)
    if r.violated != inv:
        raise core.MachineryError("negative control %s/%s: expected TLC to report %s, got %r" % (mode, const, inv, r.violated))
    return "%s: %s -> %s" % (mode, const, inv)


def spec_controls_off(ctx):
    """the same small spaces satisfy every invariant with all switches off"""
    for mode in ("codec", "doc"):
        ctx.tlc_must_hold("CopyrightDoc", _neg_base(mode), workers=1, count=False)
    return "all switches off: every invariant holds (codec, doc)"


# ------------------------------------------------------------------ (b) recorded executions -> TLC

SYMS_IN = ["E", "I", "I2", "ID", "P", "P", "P"]
SYMS_OUT = ["W", "W2", "D"]


def random_line(rng, sym, pool):
    if sym == "E":
        return ""
    if sym == "W":           # white-space-only for the codec (str.strip): blanks, tabs, and NBSP & co
        return rng.choice(WS1 + ["\u00a0", "\u3000"])
    if sym == "W2":
        return rng.choice(WS2 + ["   ", " \u00a0", "\u2003\u00a0"])
    if sym == "D":
        return "."
    if sym == "ID":
        return rng.choice(WS1 + WS2) + "."
    body = spice(rng, rng.choice(pool))
    if sym == "I":
        return rng.choice(WS1) + body
    if sym == "I2":
        return rng.choice(WS2 + ["    ", "\t  "]) + body
    return body


def random_text(rng, maxlines, pool=TEXT_EDGE_POOL):
    """a license text inside the domain: no white-space-only / lone-dot line, last line not empty"""
    n = rng.choice([0, 0, 1, 1, 2, 3, 4, 5, 6, 7, 8][:maxlines + 3])
    if maxlines >= 8 and rng.random() < 0.03:
        n = rng.randrange(9, 30)
    syms = [rng.choice(SYMS_IN) for _ in range(n)]
    if rng.random() < 0.3 and n >= 3:                      # runs of empty lines
        i = rng.randrange(1, n - 1)
        syms[i] = "E"
        syms[i - 1 if rng.random() < 0.5 else i] = "E"
    while syms and syms[-1] == "E":
        syms[-1] = rng.choice(["P", "I", "ID"])
    return "\n".join(random_line(rng, s, pool) for s in syms)


def random_copy(rng):
    n = rng.choice([1, 1, 1, 2, 2, 3, 4])
    lines = [spice(rng, rng.choice(COPY_POOL))]
    for _ in range(n - 1):
        lines.append(rng.choice(WS1 + WS2) + spice(rng, rng.choice(COPY_POOL + ["."])))
    return "\n".join(lines)


def random_doc(rng):
    hdr = {"name": spice(rng, rng.choice(NAME_POOL)) if rng.random() < 0.4 else None,
           "uc": [spice(rng, rng.choice(CONTACT_POOL)) for _ in range(rng.choice([0, 0, 1, 1, 2, 3, 4]))],
           "lic": [spice(rng, rng.choice(SYN_POOL)), random_text(rng, 5)] if rng.random() < 0.35 else None}
    ops = []
    for _ in range(rng.choice([0, 1, 1, 2, 2, 3, 3, 4, 5, 6])):
        if rng.random() < 0.6:
            np = rng.choice([1, 1, 2, 2, 3, 4, 5, 8])
            pats = [spice(rng, rng.choice(PAT_POOL)) for _ in range(np)]
            if np >= 2 and rng.random() < 0.15:                # a text and its normalisation twin in one list
                pats[:2] = [x + "/*" for x in rng.choice(TWINS)]
            ops.append({"kind": "Files", "pats": pats, "copy": random_copy(rng),
                        "syn": spice(rng, rng.choice(SYN_POOL)), "text": random_text(rng, 8)})
        else:
            ops.append({"kind": "License", "pats": [], "copy": None,
                        "syn": spice(rng, rng.choice(SYN_POOL)), "text": random_text(rng, 8)})
    if len(ops) >= 2 and rng.random() < 0.15:              # twin synopses, different texts
        a, b = rng.sample(range(len(ops)), 2)
        ops[a]["syn"], ops[b]["syn"] = ["LIC-" + x for x in rng.choice(TWINS)]
    for op in ops:                                         # a text line equal to the synopsis
        if op["text"] and rng.random() < 0.1:
            tl = op["text"].split("\n")
            tl[rng.randrange(len(tl))] = op["syn"]
            op["text"] = "\n".join(tl)
    # other fields: comment of a paragraph; Source / Disclaimer / Comment / Copyright / custom fields and the
    # line-based Files-Excluded / Files-Included of the header
    for op in ops:
        if rng.random() < 0.2:
            op["extra"] = [["Comment", random_copy(rng)]] + ([["X-Origin", spice(rng, rng.choice(SOURCE_POOL))]] if rng.random() < 0.3 else [])
    if rng.random() < 0.3:
        hdr["fe"] = [spice(rng, rng.choice(PAT_POOL)) for _ in range(rng.choice([1, 2, 3]))]
    if rng.random() < 0.2:
        hdr["fi"] = [spice(rng, rng.choice(PAT_POOL)) for _ in range(rng.choice([1, 2]))]
    if rng.random() < 0.4:
        pick = [k for k in ("Source", "Disclaimer", "Comment", "Copyright", "X-Custom") if rng.random() < 0.5]
        hdr["extra"] = [[k, spice(rng, rng.choice(SOURCE_POOL)) if k in ("Source", "X-Custom") else random_copy(rng)] for k in pick]
    start = "api" if rng.random() < 0.6 else "parsed"
    return hdr, ops, start, rng.choice(PARSE_FORMS), rng.choice(DUMP_FORMS)


# ---- size-stressed documents and line lists (notes/SIZE_STRESS.md)

def sized_lines(rng, n, maxlen=80, pool=None):
    """an in-domain text of n lines (classes E I I2 ID P, last line not empty), line lengths heavy-tailed"""
    out = []
    for j in range(n):
        sym = rng.choice(SYMS_IN)
        if sym == "E" and j == n - 1:
            sym = "P"
        if sym == "E":
            out.append("")
        elif sym == "ID":
            out.append(rng.choice(WS1 + WS2) + ".")
        else:
            body = sized_text(rng, size_len(rng, maxlen))
            out.append({"P": "", "I": rng.choice(WS1), "I2": rng.choice(WS2)}[sym] + body)
    return out


def sized_copy(rng, n, maxlen=80):
    return "\n".join([sized_text(rng, size_len(rng, maxlen))]
                     + [rng.choice(WS1 + WS2) + sized_text(rng, size_len(rng, maxlen)) for _ in range(n - 1)])


def small_para(rng, kind):
    if kind == "Files":
        return {"kind": "Files", "pats": [rng.choice(PAT_POOL)], "copy": rng.choice(COPY_POOL),
                "syn": rng.choice(SYN_POOL), "text": random_text(rng, 2)}
    return {"kind": "License", "pats": [], "copy": None, "syn": rng.choice(SYN_POOL), "text": random_text(rng, 2)}


def files_para(rng, pats, copy=None, syn=None, text=""):
    return {"kind": "Files", "pats": pats, "copy": copy if copy is not None else rng.choice(COPY_POOL),
            "syn": syn if syn is not None else rng.choice(SYN_POOL), "text": text}


def size_suite(rng, thorough):
    """the extreme documents executed in EVERY run (payload characters seeded)"""
    H0 = {"name": None, "uc": [], "lic": None}
    docs = []

    def add(hdr, ops, start="api", reqs=()):
        docs.append((hdr, ops, start, rng.choice(PARSE_FORMS), rng.choice(DUMP_FORMS), list(reqs)))
    # many patterns; joined length of the list at 72 / 80 / 256 / 4096
    add(H0, [files_para(rng, [sized_pattern(rng, rng.choice([3, 8, 17])) for _ in range(200)]),
             files_para(rng, [sized_pattern(rng, rng.choice([2, 9])) for _ in range(101)])],
        reqs=[{"kind": "files", "r": 0.1, "pats": [sized_pattern(rng, 7) for _ in range(257)]}])
    add(H0, [files_para(rng, [sized_pattern(rng, n) for n in split_total(rng, t, rng.choice([2, 3, 5, 9]))])
             for t in (71, 72, 73, 74, 79, 80, 81, 255, 256, 257, 4095, 4096, 4097)], start="parsed")
    # single long patterns with hyphens
    add(H0, [files_para(rng, [sized_pattern(rng, n)]) for n in (71, 72, 73, 80, 81, 255, 256, 257, 1025, 4097)]
        + [files_para(rng, [sized_pattern(rng, 40), sized_pattern(rng, 45), sized_pattern(rng, 90)])])
    # long texts: number of lines
    add(H0, [{"kind": "License", "pats": [], "copy": None, "syn": "GPL-2+", "text": "\n".join(sized_lines(rng, 1000, 40))},
             files_para(rng, ["*"], copy=sized_copy(rng, 1000, 30), text="\n".join(sized_lines(rng, 257, 33)))],
        reqs=[{"kind": "lic", "r": 0.9, "keep_syn": True, "syn": "x", "text": "\n".join(sized_lines(rng, 513, 20))}])
    add(H0, [files_para(rng, ["a-b/*"], copy=sized_copy(rng, n, 20), text="\n".join(sized_lines(rng, n, 20)))
             for n in (9, 10, 11, 16, 17, 31, 32, 33, 99, 100, 101, 255, 256)], start="parsed")
    # long lines / synopsis
    add({"name": sized_text(rng, 257), "uc": [sized_text(rng, 80), sized_text(rng, 256)],
         "lic": [sized_text(rng, 256), "\n".join(sized_lines(rng, 3, 4097))]},
        [files_para(rng, ["*"], copy=sized_copy(rng, 3, 8193), syn=sized_text(rng, n), text="\n".join(sized_lines(rng, 4, m)))
         for n, m in ((71, 72), (72, 73), (73, 80), (80, 81), (81, 256), (256, 1024), (1024, 4096), (4097, 8192))])
    # many paragraphs, many header entries
    kinds = ["Files" if rng.random() < 0.6 else "License" for _ in range(200)]
    add({"name": None, "uc": [sized_text(rng, size_len(rng, 80)) for _ in range(100)], "lic": None},
        [small_para(rng, k) for k in kinds],
        reqs=[{"kind": "add", "para": small_para(rng, "Files")}, {"kind": "add", "para": small_para(rng, "License")}])
    add(H0, [small_para(rng, rng.choice(["Files", "License"])) for _ in range(101)], start="parsed")
    # every UTF-8 trailing byte at the END and every lead byte at the START of license lines, copyright
    # lines, patterns, synopses and header values
    def tr(i, w):
        return TRAIL[i % 64][w % 4]

    def ld(i):
        return LEADS[i % len(LEADS)]
    add({"name": "name " + tr(5, 0), "uc": [ld(i) + " contact %d " % i + tr(i, 3) for i in range(64)],
         "lic": [ld(7) + "HDR-" + tr(5, 1), "\n".join("hdr line %d %s" % (i, tr(i, 1)) for i in range(64))]},
        [{"kind": "License", "pats": [], "copy": None, "syn": "ALL-" + tr(5, 2),
          "text": "\n".join((rng.choice(["", " ", "\t"]) + ld(j) + " line %d " % j + tr(j, j // 64)) for j in range(256))},
         files_para(rng, [ld(i) + "p-%d/" % i + tr(i, i) for i in range(64)],
                    copy="\n".join([ld(3) + "2014 " + tr(5, 1)] + [" " + ld(i) + " %d holder " % i + tr(i, i + 1) for i in range(64)]),
                    syn=ld(11) + "FILES " + tr(37, 2), text="x" + tr(5, 3))]
        + [{"kind": "License", "pats": [], "copy": None, "syn": ld(i) + "L-%d" % i + tr(i, i + 2), "text": "t" + tr(i, i)} for i in range(64)],
        reqs=[{"kind": "files", "r": 0.5, "pats": [tr(i, 1) for i in range(64)]},
              {"kind": "lic", "r": 0.0, "keep_syn": True, "syn": "x", "text": "\n".join(tr(i, 0) + " again " + tr(i, 2) for i in range(64))}])
    # texts and their normalisation twins as different values of one document
    add({"name": TWINS[0][1], "uc": [t[0] for t in TWINS] + [t[1] for t in TWINS], "lic": None},
        [files_para(rng, [x + "/*" for t in TWINS for x in t], copy="2014 " + TWINS[1][0] + "\n 2015 " + TWINS[1][1],
                    syn="T-" + TWINS[0][0], text="\n".join(x for t in TWINS for x in t)),
         files_para(rng, [x + "/*" for t in TWINS for x in reversed(t)], syn="T-" + TWINS[0][1], text="\n".join(x for t in TWINS for x in reversed(t)))]
        + [{"kind": "License", "pats": [], "copy": None, "syn": "N-" + x, "text": x + "\n\n " + y} for t in TWINS for x, y in (t, t[::-1])],
        start="parsed", reqs=[{"kind": "lic", "r": 0.3, "keep_syn": True, "syn": "x", "text": TWINS[2][1] + "\n" + TWINS[2][0]},
                              {"kind": "files", "r": 0.9, "pats": [TWINS[3][1], TWINS[3][0]]}])
    if thorough:
        add(H0, [small_para(rng, rng.choice(["Files", "License"])) for _ in range(1000)])
        add(H0, [files_para(rng, [sized_pattern(rng, 5) for _ in range(1001)], text="\n".join(sized_lines(rng, 3, 65537)))])
    return docs


# ---- block-boundary alignment (notes/SIZE_STRESS.md part 4): documents whose line ends / field ends / paragraph
# separators / last byte fall exactly at, one before and one after the offsets 2^k of the dumped text (a block-wise
# reader sees a block that ends right there), and multi-byte characters that straddle such an offset.  The header
# value Upstream-Name is padded to steer the offset (everything in front of the target is ASCII: byte offset =
# character offset, so the text forms and the binary forms are aligned alike).  The expected result is that of any
# other document (the abstract case does not know about offsets); every document goes through a file-object form.
ALIGN_MAIN = [4096, 8192, 65536, 131072]
ALIGN_REST = [512, 1024, 2048, 16384, 32768]
ALIGN_WHERE = ["value", "field", "sep", "end", "mbchar"]
SLOW_FORMS = ("disk-unbuf", "short-reads", "short-text")


def _align_template(pad, mb="\U0001f600"):
    hdr = {"name": "p" * pad, "uc": ["A <a@example.org>", "B <b@example.org>"], "lic": None}
    ops = [{"kind": "Files", "pats": ["ALIGN-FIELD/*", "src/*.c"], "copy": "2014 X\n 2015 Y", "syn": "MIT",
            "text": "line one\n\nALIGN-VALUE line\nlast line"},
           {"kind": "License", "pats": [], "copy": None, "syn": "GPL-2+", "text": "gpl line 1\n ALIGN-MB" + mb + " tail\n\nend"},
           {"kind": "Files", "pats": ["debian/*"], "copy": "2015 Z", "syn": "GPL-2+", "text": ""}]
    return hdr, ops


def _align_offset(dump, where):
    """byte offset (in the UTF-8 encoding) of the target: the newline that ends a line inside a value / a field / the
    empty separator line / the text; for "mbchar" the first byte of the multi-byte character"""
    data = dump.encode("utf-8")
    try:
        if where == "value":
            return data.index(b"\n", data.index(b"ALIGN-VALUE"))
        if where == "field":
            return data.index(b"\n", data.index(b"Files: ALIGN-FIELD"))
        if where == "sep":
            return data.index(b"\n\n") + 1
        if where == "end":
            return len(data) - 1
        return data.index(b"ALIGN-MB") + len(b"ALIGN-MB")
    except ValueError:
        return None              # (a tree that lays the text out differently: nothing to align)


def aligned_suite(rng, thorough):
    """[(hdr, ops, "api", form, dumpform, reqs, {"target", "delta", "where", "offset"})]"""
    base = exec_doc(*_align_template(1))["dump"]
    if not isinstance(base, str):
        return []                       # (the tree cannot even dump the template: the ordinary legs report that)
    combos = [(t, d, w) for t in ALIGN_MAIN for d in (-1, 0, 1) for w in ALIGN_WHERE]
    rest = [(t, d, w) for t in ALIGN_REST for d in (-1, 0, 1) for w in ALIGN_WHERE]
    combos += rest if thorough else rng.sample(rest, 6)
    out = []
    for n, (t, d, w) in enumerate(combos):
        mb = rng.choice(["\u00e9", "\u4e2d", "\U0001f600"]) if w == "mbchar" else "\U0001f600"
        # target newline at offset t-1+d (d = 0: the block ends with it); multi-byte character: first byte at t-1-|d| ... t-1
        want = t - 1 + d if w != "mbchar" else t - 1 - (d + 1) % len(mb.encode("utf-8"))
        off = _align_offset(base.replace("\U0001f600", mb), w)
        if off is None or 1 + want - off < 1:
            continue
        pad = 1 + want - off
        hdr, ops = _align_template(pad, mb)
        form = FILE_FORMS[n % len(FILE_FORMS)]
        if form in SLOW_FORMS and t > 16384 and not thorough and n % 4:
            form = FILE_FORMS[(n // 2) % len(FILE_FORMS)] if FILE_FORMS[(n // 2) % len(FILE_FORMS)] not in SLOW_FORMS else "bytesio"
        out.append((hdr, ops, "api", form, rng.choice(DUMP_FORMS), [], {"target": t, "delta": d, "where": w, "offset": want}))
    return out


def stressed_doc(rng, thorough):
    """a random document with one size dimension pushed to a boundary value"""
    hdr, ops, start, form, dumpform = random_doc(rng)
    mode = rng.choice(["npats", "patlen", "joined", "nlines", "linelen", "synlen", "nparas", "ncopy"])
    cap_n = 257 if thorough else 101
    cap_l = 4097 if thorough else 1025
    count = rng.choice([c for c in COUNTS if 1 <= c <= cap_n])
    if not ops or mode == "nparas":
        ops = ops + [small_para(rng, rng.choice(["Files", "License"])) for _ in range(count)]
    files = [p for p in ops if p["kind"] == "Files"]
    tgt = rng.choice(ops)
    if mode == "npats" and files:
        rng.choice(files)["pats"] = [sized_pattern(rng, size_len(rng, 17)) for _ in range(count)]
    elif mode == "patlen" and files:
        rng.choice(files)["pats"] = [sized_pattern(rng, size_len(rng, cap_l)) for _ in range(rng.choice([1, 2, 3]))]
    elif mode == "joined" and files:
        rng.choice(files)["pats"] = [sized_pattern(rng, n) for n in split_total(rng, rng.choice(JOINED), rng.choice([1, 2, 3, 5, 9, 17]))]
    elif mode == "nlines":
        tgt["text"] = "\n".join(sized_lines(rng, count, 33))
    elif mode == "linelen":
        tgt["text"] = "\n".join(sized_lines(rng, rng.choice([1, 2, 3, 5]), cap_l))
    elif mode == "synlen":
        tgt["syn"] = sized_text(rng, size_len(rng, cap_l))
    elif mode == "ncopy" and files:
        rng.choice(files)["copy"] = sized_copy(rng, count, 33)
    return hdr, ops, start, form, dumpform


def codec_suite(rng, thorough):
    lists = [sized_lines(rng, 1000, 30), sized_lines(rng, 257, 20), sized_lines(rng, 3, 4097), sized_lines(rng, 2, 8193),
             [sized_text(rng, n) for n in (71, 72, 73, 79, 80, 81, 255, 256, 257, 1023, 1024, 1025)],
             ["x", " " + sized_text(rng, 65536), "", "\t" + sized_text(rng, 65537)],
             [LEADS[j % len(LEADS)] + " line %d " % j + TRAIL[j % 64][j // 64] for j in range(256)],
             [x for t in TWINS for x in t] + LOOKALIKE_TEXT + HAZARDS]
    if thorough:
        lists.append(sized_lines(rng, 10000, 10))
    return lists


def abs_lic(syn, text, it):
    return {"syn": abs_line(syn, it), "text": abs_str(text, it)}


def abs_pat(p, it):
    return -1 if p == "." else it(p)


def abs_extra(extra, it):
    return [{"k": k, "v": abs_str(v, it)} for k, v in (extra or [])]


def abs_para(p, it):
    return {"kind": p["kind"], "pats": [abs_pat(x, it) for x in p["pats"]],
            "copy": abs_str(p["copy"], it) if p["kind"] == "Files" and p["copy"] is not None else [],
            "lic": abs_lic(p["syn"], p["text"], it), "extra": abs_extra(p.get("extra"), it)}


def abs_hdr(h, it):
    return {"name": [abs_str(h["name"], it)] if h.get("name") is not None else [],
            "uc": [abs_words(abs_line(e, it)) for e in (h.get("uc") or [])],
            "lic": [abs_lic(h["lic"][0], h["lic"][1], it)] if h.get("lic") is not None else [],
            "fe": [abs_words(abs_line(e, it)) for e in (h.get("fe") or [])],
            "fi": [abs_words(abs_line(e, it)) for e in (h.get("fi") or [])],
            "extra": abs_extra(h.get("extra"), it)}


FAILED_HDR = {"name": [], "uc": [], "lic": [], "fe": [], "fi": [], "extra": []}


NO_LIC = {"syn": {"ind": 0, "b": "none", "id": []}, "text": [{"ind": 0, "b": "none", "id": []}]}
NO_PARA = {"kind": "none", "pats": [], "copy": [], "lic": NO_LIC, "extra": []}


def bad_text(rng):
    """a raw field value Deb822.validate_input refuses (spec: ~Accepts): a continuation line that is not indented,
    an empty line inside, a final newline -- never a white-space-only line (accepted, outside the domain)"""
    good = random_copy(rng)
    w = spice(rng, rng.choice(COPY_POOL))
    r = rng.random()
    if r < 0.4:
        return good + "\n" + w + ("\n " + spice(rng, rng.choice(COPY_POOL)) if rng.random() < 0.3 else "")
    if r < 0.65:
        return good + "\n\n " + w
    if r < 0.8:
        return good + "\n"
    if r < 0.9:
        return good + "\n\n"
    return good + "\n " + w + "\n"


def bad_pats(rng):
    """a pattern list _SpaceSeparated.to_str refuses (spec: BadList)"""
    good = [rng.choice(PAT_POOL) for _ in range(rng.choice([0, 1, 1, 2, 3]))]
    r = rng.random()
    if r < 0.25:
        return []
    bad = "" if r < 0.45 else rng.choice(["a b", "tab\there", "x\ny", " lead", "trail ", "a\u00a0b", "two  blanks", "\t"])
    good.insert(rng.randrange(len(good) + 1), bad)
    return good


def bad_entries(rng):
    """a list _LineBased.to_str refuses: an entry that is empty / white space only / contains a newline"""
    good = [rng.choice(CONTACT_POOL) for _ in range(rng.choice([0, 1, 1, 2]))]
    good.insert(rng.randrange(len(good) + 1), rng.choice(["", " ", "a\nb", "Jane <j@example.org>\n John <k@example.org>", "\t"]))
    return good


MAY_RATE = 0.22
FAULT_RATE = 0.15


def random_call(rng, kind, present, hdr=None):
    """one call on a paragraph of `kind` ("Files" / "License") or on the header / document ("Header"), accepted or
    refused (which: the specification decides, TLC); `present`: the names of the extra fields the target has, in
    order (kept up to date here so that del p[key] is also made for existing keys).  Header calls never ADD one
    of the fields the specification writes at a fixed place, and an existing extra field is only re-assigned when
    it is the last one: whether a re-assigned field keeps its place is not this property's business (C09)"""

    def settable(names):
        return [f for f in names if f not in present or present[-1] == f]

    def note(f):
        if f not in present:
            present.append(f)
    if rng.random() < FAULT_RATE:
        # a call whose caller-supplied object fails at its first / a middle / its last step (spec: kind "fault")
        if kind == "Header":
            f = rng.choice(["dump", "parse", "parse", "parse", "Upstream-Contact", "Files-Excluded", "Files-Included"])
        else:
            f = rng.choice((["Files", "Files", "Files"] if kind == "Files" else []) + ["dump"])
        e = {"kind": "fault", "f": f, "k": rng.choice(FAULT_AT), "xc": rng.choice(sorted(FAULT_EXC))}
        if f == "parse":
            e["how"] = rng.choice(FAULT_PARSE)
        elif f == "Files":
            e["pats"] = [spice(rng, rng.choice(PAT_POOL)) for _ in range(rng.choice([1, 2, 3, 3, 8, 33]))]
        elif f != "dump":
            e["pats"] = [spice(rng, rng.choice(CONTACT_POOL if f == "Upstream-Contact" else PAT_POOL)) for _ in range(rng.choice([1, 2, 3, 9]))]
        return e
    if rng.random() < MAY_RATE:
        # a call the format does not settle (spec: MayReject): refused and nothing changed, or carried out and the
        # value is part of the document from then on -- whichever this tree does
        opts = ["item", "raw"]
        if kind == "Header":
            opts += (["name", "name"] if hdr.get("name") is not None else []) + (["uc", "uc"] if hdr.get("uc") else []) \
                + (["lic"] if hdr.get("lic") is not None else []) + (["fe"] if hdr.get("fe") else [])
        else:
            opts += ["lic"] + (["files", "files", "files", "copy"] if kind == "Files" else [])
        k = rng.choice(opts)
        if k == "raw":
            f = rng.choice(settable(sorted(RAW_ATTR) if kind == "Header" else ["Comment"]) or ["X-Custom"])
            k = "item" if f == "X-Custom" else k
        if k == "item":
            f = rng.choice(settable(["X-Custom", "X-Other", "X-Third"]) or ["X-%d" % len(present)])
        if k in ("raw", "item"):
            note(f)
            if k == "item" or f == "Source":
                return {"kind": k, "f": f, "copy": may_inject(rng, rng.choice(SOURCE_POOL))}
            lines = random_copy(rng).split("\n")
            j = rng.randrange(len(lines))
            lines[j] = lines[j][:1] + may_inject(rng, lines[j][1:])
            return {"kind": "raw", "f": f, "copy": "\n".join(lines)}
        if k == "name":
            return {"kind": "name", "copy": may_inject(rng, rng.choice(NAME_POOL))}
        if k in ("uc", "fe"):
            ents = [spice(rng, rng.choice(CONTACT_POOL if k == "uc" else PAT_POOL)) for _ in range(rng.choice([0, 1, 1, 2, 3]))]
            ents.insert(rng.randrange(len(ents) + 1), may_inject(rng, rng.choice(CONTACT_POOL if k == "uc" else PAT_POOL)))
            return {"kind": "entries", "f": "Upstream-Contact" if k == "uc" else "Files-Excluded", "pats": ents}
        if k == "lic":
            return {"kind": "lic", "syn": may_inject(rng, rng.choice(SYN_POOL)), "text": random_text(rng, 4)}
        if k == "copy":
            lines = random_copy(rng).split("\n")
            j = rng.randrange(len(lines))
            lines[j] = lines[j][:1] + may_inject(rng, lines[j][1:])
            return {"kind": "copy", "copy": "\n".join(lines)}
        pats = [spice(rng, rng.choice(PAT_POOL)) for _ in range(rng.choice([0, 1, 1, 2, 3, 8]))]
        for _ in range(rng.choice([1, 1, 1, 2])):
            w = sized_pattern(rng, size_len(rng, 257)) if rng.random() < 0.15 else rng.choice(PAT_POOL)
            pats.insert(rng.randrange(len(pats) + 1), may_inject(rng, w))
        return {"kind": "files", "pats": pats}
    bad = rng.random() < 0.55
    if kind == "Header":
        if bad:
            k = rng.choice(["name", "entries", "raw", "none", "wrongadd", "wrongadd", "item", "delitem", "custom"])
            if k == "custom":
                return {"kind": "item", "f": rng.choice(["X-Custom", "X-Custom", "X-Other"]), "copy": bad_text(rng)}
            if k == "name":
                return {"kind": "name", "copy": rng.choice(NAME_POOL) + rng.choice(["\n", "\nx", "\n x", "\n\n"])}
            if k == "entries":
                return {"kind": "entries", "f": rng.choice(sorted(ENT_ATTR)), "pats": bad_entries(rng)}
            if k == "raw":
                return {"kind": "raw", "f": rng.choice(sorted(RAW_ATTR)), "copy": bad_text(rng)}
            if k == "none":
                return {"kind": "none", "f": "Format"}
            if k == "wrongadd":
                return {"kind": "wrongadd", "f": rng.choice(["Files", "License", "Header"])}
            if k == "item":
                return {"kind": "item", "f": rng.choice(["Format", "Upstream-Name", "License", "Files-Excluded", "Comment"]), "copy": "x"}
            return {"kind": "delitem", "f": rng.choice(["Format", "Upstream-Contact", "Source", "X-Missing"])}
        opts = ["raw", "item"]
        if hdr.get("name") is not None:
            opts += ["name", "name-none"]
        if hdr.get("uc"):
            opts.append("uc")
        if hdr.get("lic") is not None:
            opts.append("lic")
        if present:
            opts += ["del", "raw-none"]
        k = rng.choice(opts)
        if k == "raw":
            f = rng.choice(settable(sorted(RAW_ATTR)) or ["X-Custom"])
            k = "item" if f == "X-Custom" else k
        if k == "item":
            f = rng.choice(settable(["X-Custom", "X-Other", "X-Third"]) or ["X-%d" % len(present)])
        if k in ("raw", "item"):
            note(f)
            return {"kind": k, "f": f, "copy": random_copy(rng) if k == "raw" else spice(rng, rng.choice(SOURCE_POOL))}
        if k == "name":
            return {"kind": "name", "copy": spice(rng, rng.choice(NAME_POOL))}
        if k == "name-none":
            hdr["name"] = None
            return {"kind": "none", "f": "Upstream-Name"}
        if k == "uc":
            return {"kind": "entries", "f": "Upstream-Contact", "pats": [spice(rng, rng.choice(CONTACT_POOL)) for _ in range(rng.choice([1, 1, 2, 3]))]}
        if k == "lic":
            return {"kind": "lic", "syn": spice(rng, rng.choice(SYN_POOL)), "text": random_text(rng, 4)}
        f = rng.choice(sorted(present))
        present.remove(f)
        if f in RAW_ATTR:                    # (restricted: removed through the property; del h[f] is refused)
            return {"kind": "none", "f": f}
        return {"kind": "delitem", "f": f}
    if bad:
        opts = ["raw", "custom", "none", "item", "delitem", "delmissing"] + (["files", "files", "copy", "copy", "copy", "none-f"] if kind == "Files" else [])
        k = rng.choice(opts)
        if k == "raw":
            return {"kind": "raw", "f": "Comment", "copy": bad_text(rng)}
        if k == "custom":
            return {"kind": "item", "f": "X-Custom", "copy": bad_text(rng)}
        if k == "none":
            return {"kind": "none", "f": "License"}
        if k == "none-f":
            return {"kind": "none", "f": rng.choice(["Files", "Copyright"])}
        if k == "item":
            return {"kind": "item", "f": rng.choice(["License", "Comment"] + (["Files", "Copyright"] if kind == "Files" else ["Files"])), "copy": "x"}
        if k == "delitem":
            return {"kind": "delitem", "f": rng.choice(["License", "Comment"] + (["Files", "Copyright"] if kind == "Files" else []))}
        if k == "delmissing":
            return {"kind": "delitem", "f": "X-Missing"}
        if k == "files":
            return {"kind": "files", "pats": bad_pats(rng)}
        return {"kind": "copy", "copy": bad_text(rng)}
    opts = ["lic", "raw", "item"] + (["files", "copy"] if kind == "Files" else []) + (["del", "raw-none"] if present else [])
    k = rng.choice(opts)
    if k == "files":
        return {"kind": "files", "pats": [spice(rng, rng.choice(PAT_POOL)) for _ in range(rng.choice([1, 2, 3]))]}
    if k == "copy":
        return {"kind": "copy", "copy": random_copy(rng)}
    if k == "lic":
        return {"kind": "lic", "syn": None, "text": random_text(rng, 5)}          # (syn: filled in by the caller)
    if k == "raw" and not settable(["Comment"]):
        k = "item"
    if k == "raw":
        note("Comment")
        return {"kind": "raw", "f": "Comment", "copy": random_copy(rng)}
    if k == "item":
        f = rng.choice(settable(["X-Custom", "X-Origin", "X-Other"]) or ["X-%d" % len(present)])
        note(f)
        return {"kind": "item", "f": f, "copy": spice(rng, rng.choice(SOURCE_POOL))}
    f = rng.choice(sorted(present))
    present.remove(f)
    if f == "Comment":                       # (restricted: removed through the property; del p['Comment'] is refused)
        return {"kind": "none", "f": "Comment"}
    return {"kind": "delitem", "f": f}


def random_calls(rng, hdr, ops):
    """the other calls of a build history (accepted and refused setter calls, item access, add_* of the wrong
    class), each after `after` add_* calls on paragraph `i` of ops (-1: header / document)"""
    if rng.random() < 0.45:
        return []
    hdr = dict(hdr)
    present = {-1: [kv[0] for kv in hdr.get("extra") or []]}
    for i, op in enumerate(ops):
        present[i] = [kv[0] for kv in op.get("extra") or []]
    syn = {i: op["syn"] for i, op in enumerate(ops)}
    out = []
    for after in sorted(rng.randrange(len(ops) + 1) for _ in range(rng.choice([1, 1, 2, 2, 3, 5]))):
        i = rng.randrange(-1, after) if after else -1
        if i >= 0 and rng.random() < 0.5:
            i = after - 1                    # mostly the paragraph added last
        e = random_call(rng, "Header" if i < 0 else ops[i]["kind"], present[i], hdr)
        if e["kind"] == "lic" and i >= 0:
            if e["syn"] is None:
                e["syn"] = syn[i] if rng.random() < 0.7 else rng.choice(SYN_POOL)
            syn[i] = e["syn"]
        out.append(dict(e, i=i, after=after))
    return out


def random_edit_requests(rng):
    """what to change in the re-parsed document: setter edits first, add_* calls last; the paragraph a
    setter edit applies to is chosen (by `r`) among the eligible paragraphs once the order is known;
    "call" requests: any other call (accepted or refused) on a paragraph / the header, made in between"""
    reqs = []
    for _ in range(rng.choice([0, 1, 1, 2, 3])):
        k = rng.choice(["files", "copy", "lic", "lic", "call", "call"])
        if k == "files":
            reqs.append({"kind": "files", "r": rng.random(), "pats": [rng.choice(PAT_POOL) for _ in range(rng.choice([1, 2, 3]))]})
        elif k == "copy":
            reqs.append({"kind": "copy", "r": rng.random(), "copy": random_copy(rng)})
        elif k == "call":
            reqs.append({"kind": "call", "r": rng.random(), "on": rng.choice(["Files", "Files", "License", "Header"]), "seed": rng.getrandbits(30)})
        else:   # mostly: same synopsis, another text
            reqs.append({"kind": "lic", "r": rng.random(), "keep_syn": rng.random() < 0.7,
                         "syn": rng.choice(SYN_POOL), "text": random_text(rng, 5)})
    for _ in range(rng.choice([0, 0, 1, 1, 2])):
        if rng.random() < 0.5:
            para = {"kind": "Files", "pats": [rng.choice(PAT_POOL)], "copy": random_copy(rng),
                    "syn": rng.choice(SYN_POOL), "text": random_text(rng, 4)}
        else:
            para = {"kind": "License", "pats": [], "copy": None, "syn": rng.choice(SYN_POOL), "text": random_text(rng, 4)}
        if rng.random() < MAY_RATE:
            # a paragraph whose creation the format does not settle: a look-alike inside a pattern / the synopsis
            if para["kind"] == "Files" and rng.random() < 0.7:
                para["pats"].insert(rng.randrange(len(para["pats"]) + 1), may_inject(rng, rng.choice(PAT_POOL)))
            else:
                para["syn"] = may_inject(rng, para["syn"])
        reqs.append({"kind": "add", "para": para})
    return reqs


def resolve_edits(reqs, ops, order, hdr=None, calls=()):
    """edit requests -> edits on the document whose paragraphs are ops in `order` (after the calls of the
    build phase that did not raise)"""
    cur = edited_doc(ops, calls)
    cur = [cur[j] for j in order]
    hdr = edited_hdr(hdr or {}, calls)
    syn = [p["syn"] for p in cur]
    present = {-1: [kv[0] for kv in hdr.get("extra") or []]}
    for i, p in enumerate(cur):
        present[i] = [kv[0] for kv in p.get("extra") or []]
    out = []
    for q in reqs:
        if q["kind"] == "add":
            out.append({"kind": "add", "para": q["para"]})
            continue
        if q["kind"] == "call":
            elig = [-1] if q["on"] == "Header" else [i for i, p in enumerate(cur) if p["kind"] == q["on"]]
            if not elig:
                continue
            i = elig[int(q["r"] * len(elig)) % len(elig)]
            e = random_call(random.Random(q["seed"]), q["on"], present[i], hdr)
            if e["kind"] == "lic" and i >= 0:
                e["syn"] = syn[i] if e["syn"] is None else e["syn"]
                syn[i] = e["syn"]
            out.append(dict(e, i=i))
            continue
        elig = [i for i, p in enumerate(cur) if q["kind"] == "lic" or p["kind"] == "Files"]
        if not elig:
            continue
        i = elig[int(q["r"] * len(elig)) % len(elig)]
        if q["kind"] == "files":
            out.append({"kind": "files", "i": i, "pats": list(q["pats"])})
        elif q["kind"] == "copy":
            out.append({"kind": "copy", "i": i, "copy": q["copy"]})
        else:
            if not q["keep_syn"]:
                syn[i] = q["syn"]
            out.append({"kind": "lic", "i": i, "syn": syn[i], "text": q["text"]})
    return out


def abs_word(p, it, ctx="pat"):
    """a word of a list as the specification has it: 0 = '', -2 = contains a separator of the list syntax,
    -1 = '.', otherwise an interned payload id"""
    if p == "":
        return 0
    if (any(ch.isspace() and ch not in LOOK for ch in p) or p[0] in LOOK_SPACE or p[-1] in LOOK_SPACE) if ctx == "pat" else "\n" in p:
        return -2
    return -1 if p == "." else it(p)


def abs_entry(e, it):
    if "\n" in e:
        return [-2]
    return abs_words(abs_line(e.strip(), it)) if e.strip() else []


def abs_edit(e, it):
    """a call as the EditRec of the specification plus what was observed (raised, exc)"""
    k = e["kind"]
    return {"kind": k, "i": e.get("i", -1) + 1 if k != "add" else 0, "at": e.get("at", 0) if k == "add" else 0, "f": e.get("f", ""),
            "pats": ([abs_word(x, it) for x in e["pats"]] if k == "files" else [abs_entry(x, it) for x in e["pats"]] if k == "entries" else []),
            "copy": abs_str(e["copy"], it) if k in ("copy", "raw", "name", "item") else [],
            "lic": abs_lic(e["syn"], e["text"], it) if k == "lic" else NO_LIC,
            "para": abs_para(e["para"], it) if k == "add" else NO_PARA,
            # acc: the outcome of a call the format does not settle (MayReject); means nothing for the other calls
            "raised": bool(e.get("raised")), "exc": e.get("exc", ""), "acc": not e.get("raised")}


def may_edit(a):
    """(statistics only) an abstract call record carries a value with a separator look-alike where MayReject looks"""
    k = a["kind"]
    ids = (a["pats"] if k == "files" else [w for ent in a["pats"] for w in ent] if k == "entries"
           else [w for ln in a["copy"] for w in ln["id"]] if k in ("copy", "raw", "name", "item") else a["lic"]["syn"]["id"] if k == "lic"
           else a["para"]["pats"] + a["para"]["lic"]["syn"]["id"] if k == "add" else [])
    return any(w >= MAY for w in ids)


def abs_load(o, hkey, pkey, it, ok):
    if not ok:
        return {"err": "%s in %s" % (o["exc"] or "error", o["stage"]), "hdr": FAILED_HDR, "paras": []}
    h = o[hkey]
    bad = [p for p in o[pkey] if p["kind"] not in ("Files", "License")]
    if bad or not isinstance(h["format"], str) or h["format"] != o["format0"]:
        return {"err": "bad-paragraph-or-format", "hdr": FAILED_HDR, "paras": []}
    return {"err": "none", "hdr": abs_hdr(h, it),
            "paras": [abs_para(p, it) for p in o[pkey]]}


def record_doc(hdr, ops, start, form, dumpform, reqs=(), vseed=None, calls=()):
    """execute and abstract one document execution; returns (trace, observation)"""
    from debian import copyright as C
    o = exec_doc(hdr, ops, start, form, dumpform, lambda order, done: resolve_edits(reqs, ops, order, hdr, done), vseed, calls)
    it = Interner(o["format0"] if isinstance(o["format0"], str) else getattr(C, "_CURRENT_FORMAT", "format"))
    tr = {"kind": "doc", "start": start, "hdr": abs_hdr(hdr, it), "ops": [abs_para(p, it) for p in ops],
          # the other calls of the build phase, each with what was observed (raised, exc); calls that were not
          # reached (the build failed before) are left out
          "calls": [abs_edit(e, it) for e in o["calls"] if "raised" in e],
          "order": [i + 1 for i in (o["order"] if o["order"] is not None else range(len(ops)))],
          "dump": abs_dump(o["dump"], it) if isinstance(o["dump"], str) else [],
          "warn": len(o["warn"]), "fmtlast": bool(o["alias"]),
          # Stable: the second dump is the first one; the re-parsed document also answers file queries like the
          # document it came from and its licenses survive License.from_str(to_str())
          "same": bool(o["dump2"] is not None and o["dump2"] == o["dump"] and not o["find"] and not o["law"])}
    if o["exc"] and o["stage"] in ("load", "getters"):
        tr["load"] = {"err": o["exc"], "hdr": FAILED_HDR, "paras": []}
    else:
        tr["load"] = abs_load(o, "hdr", "paras", it, o["paras"] is not None)
    done_edit = o["edits"] is not None and o["edits"] != SCRIBBLE and all("raised" in e and (e["kind"] != "add" or e["raised"] or "at" in e) for e in o["edits"])
    tr["edits"] = [abs_edit(e, it) for e in o["edits"]] if done_edit else []
    tr["load2"] = abs_load(o, "hdr2", "paras2", it, o["paras2"] is not None)
    tr["same2"] = bool(o["dump4"] is not None and o["dump4"] == o["dump3"])
    tr["load3"] = abs_load(o, "hdr3", "paras3", it, o["paras3"] is not None)
    return tr, o


def record_codec(lines, vr=None):
    o = exec_codec(lines, vr)
    it = Interner("format")

    def al(x):
        return [abs_line(y, it) for y in x] if (x is not None and not o["exc"]) else []
    tr = {"kind": "codec", "ls": [abs_line(x, it) for x in lines],
          "enc": abs_str(o["enc"], it) if isinstance(o["enc"], str) else [],
          "out": al(o["out"]), "out2": al(o["out2"]), "out3": al(o["out3"]), "kept": bool(o["kept"]),
          "sout": abs_str(o["sout"], it) if isinstance(o["sout"], str) else [], "ssame": bool(o["ssame"]),
          "exc": o["exc"]}
    return tr, o


REJECT_FORMS = [f for f in PARSE_FORMS if f not in ("nonstrict", "latin1")]


def record_reject(rng, text):
    """a text that is not a valid machine-readable copyright file, through EVERY strict input form of
    Copyright(): all forms must raise the same exception (TLC: the one Load gives for the text)"""
    from debian import copyright as C
    errs = {}
    for form in REJECT_FORMS:
        try:
            parse_doc(C, text, form)
            errs[form] = "none"
        except Exception as e:
            errs[form] = exc_name(e)
    kinds = sorted(set(errs.values()))
    it = Interner(getattr(C.Copyright().header, "format", "format"))
    tr = {"kind": "reject", "dump": abs_dump(text, it),
          "err": kinds[0] if len(kinds) == 1 else "input forms disagree: %r" % (errs,)}
    return tr, errs


def reject_texts(rng):
    from debian import copyright as C
    hdr, ops, _, _, _ = random_doc(rng)
    o = exec_doc(hdr, ops or [small_para(rng, "Files")], "api")
    d = o["dump"] or "Format: x\n"
    body = d.split("\n\n", 1)[1] if "\n\n" in d else "License: MIT\n"
    return ["", "\n", "\n\n \n", body,                                  # nothing / no header paragraph with Format
            "Upstream-Name: x\n\n" + body,
            d + "\nComment: neither Files nor License\n",               # a paragraph that is neither kind
            d + "\nFiles: *\nLicense: MIT\n",                           # Files paragraph without Copyright
            d + "\nFiles: *\nCopyright: 2014 X\n",                      # ... without License
            d + "\nFiles:\nCopyright: 2014 X\nLicense: MIT\n"]          # ... with an empty list


def random_lines(rng, in_domain):
    n = rng.choice([0, 1, 1, 2, 3, 4, 5, 6, 7, 8, 10, 12, 20, 40])
    syms = [rng.choice(SYMS_IN if in_domain else SYMS_IN + SYMS_OUT) for _ in range(n)]
    lines = [random_line(rng, s, CODEC_POOL) for s in syms]
    if n >= 2 and rng.random() < 0.1:
        lines[rng.randrange(1, n)] = lines[0]          # a later line equal to the first one
    if in_domain and lines == [""]:
        lines = []
    return lines


def control_traces(traces):
    """corrupted copies of real traces: TLC must reject every one of them"""
    import copy
    out = []
    want = {"swap", "same", "indent", "err", "codec-indent", "codec-drop", "warn", "stale-edit", "leak-again",
            "codec-aliased", "refused-call-silent", "accepted-call-raised", "refused-edit-applied", "may-call-lost", "may-call-split"}
    for t in traces:
        if not want:
            break
        if (t["kind"] == "doc" and len(t["dump"]) > 80) or (t["kind"] == "codec" and len(t["ls"]) > 50):
            continue                 # (controls are made from ordinary traces, not from the size suite)
        if t["kind"] == "doc" and t["load"]["err"] == "none":
            ps = t["load"]["paras"]
            if "swap" in want and len(ps) >= 2 and ps[0] != ps[1]:
                c = copy.deepcopy(t)
                c["load"]["paras"][0], c["load"]["paras"][1] = c["load"]["paras"][1], c["load"]["paras"][0]
                out.append(c)
                want.discard("swap")
            if "same" in want:
                c = copy.deepcopy(t)
                c["same"] = False
                out.append(c)
                want.discard("same")
            if "warn" in want:
                c = copy.deepcopy(t)
                c["warn"] = 1
                out.append(c)
                want.discard("warn")
            if "err" in want:
                c = copy.deepcopy(t)
                c["load"] = {"err": "MachineReadableFormatError", "hdr": FAILED_HDR, "paras": []}
                out.append(c)
                want.discard("err")
            if "stale-edit" in want and t["edits"] and t["load2"]["err"] == "none" and t["load2"] != t["load"]:
                c = copy.deepcopy(t)            # the second round trip shows the document before the edit
                c["load2"] = copy.deepcopy(t["load"])
                out.append(c)
                want.discard("stale-edit")
            if "leak-again" in want and t["edits"] and t["load2"]["err"] == "none" and t["load2"] != t["load"]:
                c = copy.deepcopy(t)            # the second parse of the first dump shows the edit
                c["load3"] = copy.deepcopy(t["load2"])
                out.append(c)
                want.discard("leak-again")
            hit = [j for j, e in enumerate(t["calls"]) if e["raised"]]
            if "refused-call-silent" in want and hit:
                c = copy.deepcopy(t)            # a call the specification refuses did not raise
                c["calls"][hit[0]]["raised"] = False
                out.append(c)
                want.discard("refused-call-silent")
            hit = [j for j, e in enumerate(t["calls"]) if not e["raised"]]
            if "accepted-call-raised" in want and hit:
                c = copy.deepcopy(t)            # a call the specification accepts raised
                c["calls"][hit[0]]["raised"] = True
                out.append(c)
                want.discard("accepted-call-raised")
            hit = [j for j, p in enumerate(t["load2"]["paras"]) if p["kind"] == "Files"] if t["load2"]["err"] == "none" else []
            for name, got in (("may-call-lost", [[9993]]), ("may-call-split", [[1509993], [2509993]])):
                if name in want and hit and not t["edits"]:
                    c = copy.deepcopy(t)        # one more call, one the format does not settle: p.files = [<word with a look-alike>]
                    old = c["load2"]["paras"][hit[0]]["pats"]
                    c["edits"].append({"kind": "files", "i": hit[0] + 1, "at": 0, "f": "", "pats": [MAY + 9993], "copy": [], "lic": NO_LIC,
                                       "para": NO_PARA, "raised": False, "exc": "", "acc": True})
                    # carried out, but the second round trip shows the old list / the word split in two
                    c["load2"]["paras"][hit[0]]["pats"] = old if name == "may-call-lost" else [MAY + 1000000 + 9993, MAY + 2000000 + 9993]
                    out.append(c)
                    want.discard(name)
            if "refused-edit-applied" in want and hit:
                c = copy.deepcopy(t)            # one more (refused) call at the end, whose value shows up after the second round trip
                badv = [{"ind": 0, "b": "txt", "id": [9991]}, {"ind": 0, "b": "txt", "id": [9992]}]
                c["edits"].append({"kind": "copy", "i": hit[0] + 1, "at": 0, "f": "", "pats": [], "copy": badv, "lic": NO_LIC, "para": NO_PARA,
                                   "raised": True, "exc": "ValueError", "acc": False})
                c["load2"]["paras"][hit[0]]["copy"] = badv
                out.append(c)
                want.discard("refused-edit-applied")
            if "indent" in want:
                for i, p in enumerate(ps):
                    hit = [j for j, x in enumerate(p["lic"]["text"]) if x["ind"] > 0]
                    if hit:
                        c = copy.deepcopy(t)
                        c["load"]["paras"][i]["lic"]["text"][hit[0]]["ind"] = 0
                        out.append(c)
                        want.discard("indent")
                        break
        if t["kind"] == "codec" and not t["exc"] and t.get("_dom"):
            hit = [j for j, x in enumerate(t["out"]) if x["ind"] > 0 and j > 0]
            if "codec-indent" in want and hit:
                c = copy.deepcopy(t)
                c["out"][hit[0]]["ind"] -= 1
                out.append(c)
                want.discard("codec-indent")
            if "codec-aliased" in want and t["out"]:
                c = copy.deepcopy(t)            # the second call returns the list the caller scribbled on
                c["out2"] = c["out2"] + [{"ind": 0, "b": "txt", "id": [999]}]
                out.append(c)
                want.discard("codec-aliased")
            hit = [j for j, x in enumerate(t["out"]) if x["b"] == "none" and j > 0]
            if "codec-drop" in want and hit:
                c = copy.deepcopy(t)
                del c["out"][hit[0]]
                out.append(c)
                want.discard("codec-drop")
    return out, sorted(want)


def _validate_traces(ctx, traces, diag, controls=()):
    """core.validate_traces with a fast serialisation (json.dump to a file object takes the slow pure
    Python encoder: 8 s for the size-stressed batch; json.dumps takes the C encoder): same contract"""
    path = os.path.join(ctx.work, "c17-traces-%d-%d.json" % (len(ctx.tlc_runs), random.getrandbits(30)))
    nreal = len(traces)
    with open(path, "w") as f:
        f.write(json.dumps(list(traces) + list(controls)))
    r = ctx.tlc("TraceCopyrightDoc", "TraceCopyrightDoc.cfg", workers=4, env={"TRACE_FILE": path, "TRACE_DIAG": diag},
                want_tags={"ACCEPTED", "AT", "REJECT"}, java_opts=["-Xss16m"])
    os.unlink(path)
    if r.violated:
        raise core.MachineryError("trace module TraceCopyrightDoc reported %s\n%s" % (r.violated, r.tail))
    acc = set(v if isinstance(v, int) else v[0] for v in r.printed.get("ACCEPTED", []))
    bad = [i for i in acc if i > nreal]
    if bad:
        raise core.MachineryError("trace module TraceCopyrightDoc accepted %d corrupted control trace(s): binding is vacuous" % len(bad))
    ctx.extra["negative_controls_rejected"] = ctx.extra.get("negative_controls_rejected", 0) + len(controls)
    prog = {}
    for v in r.printed.get("AT", []):
        if v[1] > prog.get(v[0], 0):
            prog[v[0]] = v[1]
    return acc, prog, r


def validate(ctx, traces, with_controls=True):
    """returns (rejected ids (1-based), {id: matched steps}, {id: [diagnostic notes]}, controls info)"""
    controls, missing = control_traces(traces) if with_controls else ([], [])
    clean = [{k: v for k, v in t.items() if not k.startswith("_")} for t in traces]
    cclean = [{k: v for k, v in t.items() if not k.startswith("_")} for t in controls]
    acc, _, r = _validate_traces(ctx, clean, "0", cclean)
    notes = {}
    for v in r.printed.get("REJECT", []):
        if v[0] <= len(traces):
            notes.setdefault(v[0], []).append(v[1])
    rejected = [i for i in range(1, len(traces) + 1) if i not in acc]
    info = {}
    if rejected:
        pick = [i for i in rejected if traces[i - 1]["kind"] == "doc"][:10] + [i for i in rejected if traces[i - 1]["kind"] == "codec"][:5]
        sub = [clean[i - 1] for i in pick]
        _, prog, _ = _validate_traces(ctx, sub, "1")
        for j, i in enumerate(pick):
            info[i] = prog.get(j + 1, 0)
    return rejected, info, notes, (len(controls), missing)


HISTORY = 300      # documents executed before a failing one that are kept in its replay file


DOC_STEP = {0: "order after the add_* calls (diagnostic)", 1: "layout of dump() (diagnostic)", 2: "reader (diagnostic)",
            3: "RoundTrip: the strict re-parse does not give back the document that was built (a call the API refuses changes nothing), or a call the specification accepts raised",
            4: "Stable: the second dump() differs from the first",
            5: "second round trip: after changing the re-parsed document, dump() + strict re-parse do not describe the changed document",
            6: "parsing the first dump again (after the first parse result was changed) does not give the document that was built"}


def explain_doc(hdr, ops, o, at):
    """a concrete description of a trace TLC rejected (the verdict is TLC's)"""
    hdr1, ops1 = edited_hdr(hdr, o["calls"]), edited_doc(ops, o["calls"])
    exp = [ops1[i] for i in o["order"]] if o["order"] is not None else ops1
    exp2 = hdr2 = None
    if o["edits"] is not None and o["edits"] != SCRIBBLE and all("raised" in e and (e["kind"] != "add" or e["raised"] or "at" in e) for e in o["edits"]):
        exp2, hdr2 = edited_doc(exp, o["edits"]), edited_hdr(hdr1, o["edits"])
    msg = judge_doc(o, hdr1, exp, exp2, hdr2)
    calls = "; ".join("%s%s" % (describe_call(e), " [raised %s]" % e.get("msg", e["exc"]) if e.get("raised") else "")
                      for e in o["calls"] if "raised" in e)
    return "%s; %s%s" % (DOC_STEP.get(at, "step %d" % at), msg or "(the concrete comparison sees no difference: a call raised / did not raise against the specification?)",
                         (" -- calls made while the document was built: " + calls) if calls else "")


def run_traces(ctx, quick, pool=None):
    """records the executions, has them validated by TLC (in a thread of `pool` when given) and returns
    the function that judges the result (to be called after the replay leg, which runs meanwhile)"""
    rng = ctx.rng
    ndoc, ncodec = (350, 700) if quick else (4000, 12000)
    traces, metas = [], []
    kinds = {"Files": 0, "License": 0, "api": 0, "parsed": 0}
    nedits = {}
    prev = None
    leaks = []
    suite = size_suite(rng, not quick)
    nsize = len(suite)
    suite += aligned_suite(rng, not quick)
    ndoc += len(suite) - nsize
    aligned_done, misaligned = {}, 0
    csuite = codec_suite(rng, not quick)
    nstress = 0
    for n in range(ndoc):
        if n < len(suite):
            hdr, ops, start, form, dumpform, reqs = suite[n][:6]
            # (the size suite: refused calls on every third document, on its largest paragraph and on the header)
            calls = []
            if n % 3 == 0 and ops:
                big_i = max(range(len(ops)), key=lambda j: len(ops[j]["pats"]) + len(ops[j]["text"]))
                calls = [{"kind": "copy" if ops[big_i]["kind"] == "Files" else "raw", "f": "Comment", "copy": "2014 X\n\n 2015 Y", "i": big_i, "after": len(ops)},
                         {"kind": "raw", "f": "Comment", "copy": "a\nb", "i": -1, "after": len(ops)},
                         {"kind": "none", "f": "License", "i": big_i, "after": len(ops)},
                         {"kind": "item", "f": "License", "copy": "x", "i": big_i, "after": len(ops)}]
                if ops[big_i]["kind"] == "Files":
                    # ... and one the format does not settle: the same (long) list with a look-alike inside one pattern
                    bp = list(ops[big_i]["pats"])
                    j = len(bp) // 2
                    bp[j] = may_inject(rng, bp[j] if len(bp[j]) > 1 else "a-b")
                    calls.append({"kind": "files", "pats": bp, "i": big_i, "after": len(ops)})
        elif rng.random() < 0.06:
            hdr, ops, start, form, dumpform = stressed_doc(rng, not quick)
            reqs = random_edit_requests(rng)
            calls = random_calls(rng, hdr, ops)
            nstress += 1
        else:
            hdr, ops, start, form, dumpform = random_doc(rng)
            reqs = random_edit_requests(rng)
            calls = random_calls(rng, hdr, ops)
        vseed = rng.getrandbits(30) if rng.random() < 0.75 else None
        if n < len(suite) and len(suite[n]) > 6:          # an aligned document: slow file objects only for the first parse
            vseed = None if form in SLOW_FORMS or suite[n][6]["target"] > 16384 and quick else vseed
        tr, o = record_doc(hdr, ops, start, form, dumpform, reqs, vseed, calls)
        if n < len(suite) and len(suite[n]) > 6:
            al = suite[n][6]
            if isinstance(o["dump"], str) and _align_offset(o["dump"], al["where"]) == al["offset"]:
                key = "%s@2^k%+d" % (al["where"], al["delta"])
                aligned_done[key] = aligned_done.get(key, 0) + 1
            else:
                misaligned += 1           # (a tree that lays the text out differently: the case is an ordinary one then)
        traces.append(tr)
        me = {"kind": "trace-doc", "hdr": hdr, "ops": ops, "start": start, "form": form, "dumpform": dumpform, "reqs": reqs,
              "vseed": vseed, "calls": calls}
        if n < len(suite) and len(suite[n]) > 6:
            me["aligned"] = suite[n][6]
        metas.append(("doc", hdr, ops, start, form, dumpform, o, me))
        if prev is not None:
            msg = prev.recheck()            # the objects of the previous document must not have changed
            if msg and len(leaks) < 2:
                leaks.append((n, msg))
        prev = Live(o) if o["_live"] is not None else None
        o["_live"] = None
        kinds[start] += 1
        for v in o["var"]:
            nedits["(api) " + v] = nedits.get("(api) " + v, 0) + 1
        for p in ops:
            kinds[p["kind"]] += 1
        for e in tr["edits"]:
            k = ("refused " if e["raised"] else "") + e["kind"]
            nedits[k] = nedits.get(k, 0) + 1
        for e in tr["calls"]:
            k = "build call: " + ("refused " if e["raised"] else "") + e["kind"]
            nedits[k] = nedits.get(k, 0) + 1
        for e in tr["calls"] + tr["edits"]:
            if may_edit(e):
                k = "not settled by the format (MayReject) %s: %s" % (e["kind"], "refused" if e["raised"] else "carried out")
                nedits[k] = nedits.get(k, 0) + 1
            if e["kind"] == "fault":
                k = "fault of the caller's object: %s" % e["f"]
                nedits[k] = nedits.get(k, 0) + 1
    prev = None
    nreject = 0
    for text in reject_texts(rng):
        tr, errs = record_reject(rng, text)
        traces.append(tr)
        metas.append(("reject", text, errs))
        nreject += 1
    for i in range(ncodec):
        dom = i % 5 != 0
        lines = csuite[i] if i < len(csuite) else random_lines(rng, dom)
        dom = dom or i < len(csuite)
        tr, o = record_codec(lines, rng)
        tr["_dom"] = dom
        traces.append(tr)
        metas.append(("codec", lines, o))
    ctx.extra["aligned_cases"] = dict(aligned_done, documents=sum(aligned_done.values()), not_aligned_on_this_tree=misaligned,
                                      offsets=sorted({x[6]["target"] for x in suite if len(x) > 6}))
    fut = pool.submit(validate, ctx, traces) if pool is not None else None
    ctx.extra.setdefault("per_action_counts", {})["trace_rejected_inputs_x_forms"] = nreject * len(REJECT_FORMS)

    def finish():
        _finish_traces(ctx, traces, metas, ndoc + nreject, ncodec, kinds, nedits, leaks, suite, csuite, nstress,
                       fut.result() if fut is not None else validate(ctx, traces))
    return finish


def _finish_traces(ctx, traces, metas, ndoc, ncodec, kinds, nedits, leaks, suite, csuite, nstress, result):
    rejected, info, notes, (ncontrols, missing) = result
    if missing:
        ctx.drift("control traces not generated this run: %s" % ", ".join(missing))
    ctx.traces += len(traces)
    ctx.evaluations += len(traces)
    for i, t in enumerate(traces):
        ctx.distinct.add("trace:%d" % zlib.crc32(json.dumps(t, sort_keys=True).encode()))
    ctx.extra["traces_recorded"] = {"doc": ndoc, "codec": ncodec, "paragraphs": kinds["Files"] + kinds["License"],
                                    "edits_of_reparsed_documents": sum(nedits.values())}
    ctx.extra.setdefault("per_action_counts", {}).update(
        {"trace_add_Files": kinds["Files"], "trace_add_License": kinds["License"],
         "trace_start_api": kinds["api"], "trace_start_parsed": kinds["parsed"]})
    ctx.extra["per_action_counts"].update({"trace_edit_" + k: v for k, v in nedits.items()})
    ctx.extra["traces_rejected"] = len(rejected)
    ctx.extra["control_traces"] = ncontrols
    m = metas[len(suite) + 3]
    ctx.sample("recorded document trace: %s" % json.dumps({"start": m[3], "ops": [p["kind"] for p in m[2]],
                                                           "edits": [e["kind"] for e in (m[6]["edits"] or [])],
                                                           "dump": (m[6]["dump"] or "")[:300]}, ensure_ascii=False))
    m = metas[ndoc + len(csuite) + 7]
    ctx.sample("recorded codec trace: %r -> %r -> %r" % (m[1], m[2]["enc"], m[2]["out"]))
    seen = set()
    for tid, what in sorted(notes.items()):
        for w in what:
            if w not in seen and len(seen) < 8:
                seen.add(w)
                m = metas[tid - 1]
                ctx.drift("trace %d: specification's '%s' prediction differs (%s)" % (
                    tid, w, repr(m[1])[:200] if m[0] == "codec" else repr(m[6]["dump"])[:300]))
    ctx.extra["diagnostic_notes"] = sum(len(v) for v in notes.values())
    # a call the specification refuses was carried out by the code: the document holds a value outside the
    # domain from then on -- unspecified (TLC's note), never a verdict
    unspec = {tid for tid, what in notes.items() if "refused call carried out" in what}
    ctx.extra["traces_unspecified_refused_call_carried_out"] = len(unspec)
    rejected = [i for i in rejected if i not in unspec]
    # one document trace and one codec trace are filed (the replay leg files its own cases)
    filed = ([i for i in rejected if metas[i - 1][0] == "doc"][:1] + [i for i in rejected if metas[i - 1][0] == "codec"][:1]
             + [i for i in rejected if metas[i - 1][0] == "reject"][:1])
    for i in filed:
        m = metas[i - 1]
        at = info.get(i, 0)
        if m[0] == "reject":
            ctx.violation({"kind": "trace-reject", "text": m[1]},
                          "Copyright(<%r>, strict=True) through its input forms: %r -- not what the specification's Load gives for this text"
                          % (m[1][:300], m[2]))
        elif m[0] == "codec":
            ctx.violation({"kind": "trace-codec", "lines": m[1]},
                          "parse_multiline_as_lines(format_multiline_lines(%r)) = %r, second call %r / %r%s, not explained by the specification (CodecLaw: the original lines, every time)"
                          % (m[1], m[2]["out"], m[2]["out2"], m[2]["out3"], (" raised " + m[2]["exc"]) if m[2]["exc"] else ""))
        else:
            ctx.violation(dict(m[7], history=pack([x[7] for x in metas[max(0, i - 1 - HISTORY):i - 1]])),
                          "recorded execution not explained by the specification at step %d: %s" % (at + 1, explain_doc(m[1], m[2], m[6], at)))
    if not [i for i in filed if metas[i - 1][0] == "doc"]:
        for n, msg in leaks[:1]:
            ctx.violation(dict(metas[n][7], kind="trace-pair", history=pack([x[7] for x in metas[max(0, n - HISTORY):n]])), msg)
    ctx.extra["earlier_documents_rechecked"] = ndoc - 1
    ctx.extra["size_stress"] = {"suite_documents": len(suite), "suite_line_lists": len(csuite), "random_stressed_documents": nstress,
                                "max_paragraphs": max(len(m[2]) for m in metas if m[0] == "doc"),
                                "max_patterns": max([len(p["pats"]) for m in metas if m[0] == "doc" for p in m[2]] or [0]),
                                "max_text_lines": max([p["text"].count("\n") + 1 for m in metas if m[0] == "doc" for p in m[2]] or [0]),
                                "max_line_length": max([len(x) for m in metas if m[0] == "codec" for x in m[1]] or [0])}


def unspecified_zone(ctx):
    """inputs the statement leaves open (DESIGN D3): executed, any outcome accepted; an exception type
    other than the documented ones is noted as drift"""
    rng = ctx.rng
    n = 0
    ok_exc = {"", "ValueError", "MachineReadableFormatError", "TypeError", "NotMachineReadableError"}
    shapes = [("", "text"), ("GPL", "a\n"), ("GPL", "a\n\n"), ("GPL", "a\n \nb"), ("GPL", "a\n.\nb"), ("GPL", "\n"),
              ("GPL ", "x"), (" GPL", "x"), ("", ""), ("GPL", " \n."), ("GPL", "a\n\t\nb\n")]
    for syn, text in shapes:
        for kind in ("Files", "License"):
            op = {"kind": kind, "pats": ["*"], "copy": "2014 X", "syn": syn, "text": text}
            o = exec_doc({"name": None, "uc": [], "lic": None}, [op, dict(op, syn="MIT", text="")], rng.choice(["api", "parsed"]))
            n += 1
            if o["exc"] not in ok_exc:
                ctx.drift("unspecified input License(%r, %r): %s %s" % (syn, text, o["exc"], o["msg"]))
    for cp in ["a\n \n b", "a ", " a", "a\n b ", "", "a\nb", "a\n\n b"]:
        o = exec_doc({"name": None, "uc": [], "lic": None}, [{"kind": "Files", "pats": ["*"], "copy": cp, "syn": "G", "text": ""}])
        n += 1
        if o["exc"] not in ok_exc:
            ctx.drift("unspecified copyright text %r: %s %s" % (cp, o["exc"], o["msg"]))
    obs = []
    for lines in ([""], [" "], ["", ""], ["a", " ", "."], [".", "."], ["a", "\u00a0", "b"], ["a", "\u2003\u3000", "b"]):
        o = exec_codec(lines)
        n += 1
        if o["exc"] not in ok_exc:
            ctx.drift("unspecified line list %r: %s %s" % (lines, o["exc"], o["msg"]))
        elif "\u00a0" in lines and o["out"] != lines:
            obs.append("a line consisting of NBSP only is white space for the codec (str.strip): %r -> %r" % (lines, o["out"]))
    # look-alike white space (NBSP, EM SPACE, IDEOGRAPHIC SPACE) is not white space for the format but is for
    # str.strip / str.split / \\s: at the edges of a first line and inside patterns the outcome is unspecified
    for kw in ({"syn": "GPL\u00a0"}, {"syn": "\u3000GPL"}, {"pats": ["nb\u00a0sp"]}, {"pats": ["em\u2003sp", "*"]},
               {"copy": "2014 X\u00a0"}, {"text": "a\n\u00a0\nb"}):
        op = dict({"kind": "Files", "pats": ["*"], "copy": "2014 X", "syn": "G", "text": "t"}, **kw)
        o = exec_doc({"name": None, "uc": [], "lic": None}, [op])
        n += 1
        if o["exc"] not in ok_exc:
            ctx.drift("unspecified input %r: %s %s" % (kw, o["exc"], o["msg"]))
        elif o["exc"] or judge_doc(o, {"name": None, "uc": [], "lic": None}, [op]):
            obs.append("%r does not round-trip (%s)" % (kw, o["exc"] or "value changed"))
    ctx.extra["observations_outside_the_domain"] = obs
    ctx.extra["unspecified_inputs_executed"] = n


# ------------------------------------------------------------------ the check

def cfg_constants(name):
    import re
    out = {}
    for line in open(os.path.join(core.SPEC, name)):
        m = re.match(r"^\s+(\w+) = (.+)$", line)
        if m:
            out[m.group(1)] = m.group(2).strip()
    return out


def run(ctx):
    quick = ctx.tier == "quick"
    cfg_codec = "CopyrightDoc_codec_quick.cfg" if quick else "CopyrightDoc_codec.cfg"
    cfg_doc = "CopyrightDoc_doc_quick.cfg" if quick else "CopyrightDoc_doc.cfg"
    cc, cd = cfg_constants(cfg_codec), cfg_constants(cfg_doc)
    ctx.extra["model_constants"] = {"codec": {k: cc[k] for k in ("Alphabet", "MaxLen")},
                                    "doc": {k: cd[k] for k in ("MaxParas", "HdrKinds", "BigPats", "CopyMax", "CopyAlpha",
                                                                "BigTextMax", "BigTextAlpha")}}
    ctx.assumptions += [
        "codec closed over every list of <= %s lines over the symbols %s (E empty, W/W2 white-space-only, D lone dot, I/I2 indented, ID the line ' .', P plain)" % (cc["MaxLen"], cc["Alphabet"]),
        "documents closed over header kinds %s x every history of <= %s add_*_paragraph calls over four fixed context paragraphs and at most one focus paragraph (%s patterns, copyright texts of <= %s lines, license texts of <= %s lines over %s)" % (
            cd["HdrKinds"], cd["MaxParas"], cd["BigPats"], cd["CopyMax"], cd["BigTextMax"], cd["BigTextAlpha"]),
        "characters inside a line are sampled (seeded), not enumerated; no str.splitlines boundary inside a line (DESIGN D1); no trailing white space; patterns contain no white space",
        "DESIGN D3: license texts do not end in an empty line, the codec is not given [''], copyright continuation lines start with a blank and are not blank; empty synopsis and white-space-only / lone-dot lines inside documents are unspecified (executed, any outcome accepted)",
        "diagnostic only (spec drift, never an alarm): encoded form, normal form outside the statement's condition, layout of dump(), insertion position of add_files_paragraph, the specification's reader on the dumped lines",
        "trusted: TLC, the concretizer, the independent line classifier (abs_line), the projections files/copyright/license/dump()",
    ]
    procs = 6 if quick else 8
    # quick: one control per switch; thorough: all five and the all-off runs
    negs = [NEG_CONTROLS[1], NEG_CONTROLS[2], NEG_CONTROLS[5], NEG_CONTROLS[6], NEG_CONTROLS[7], NEG_CONTROLS[8], NEG_CONTROLS[9], NEG_CONTROLS[10], NEG_CONTROLS[11]] if quick else NEG_CONTROLS
    import multiprocessing
    # the replay processes are forked before any thread exists
    _SCRATCH["dir"] = ctx.work               # (before the fork: the pool processes use it too)
    mp_pool = multiprocessing.get_context("fork").Pool(procs)
    try:
        _run(ctx, quick, cfg_codec, cfg_doc, negs, mp_pool, procs)
    finally:
        mp_pool.terminate()
        mp_pool.join()


def _run(ctx, quick, cfg_codec, cfg_doc, negs, mp_pool, procs):
    with ThreadPoolExecutor(max_workers=8) as pool:
        f_doc = pool.submit(core.run_tlc, "CopyrightDoc", cfg_doc, ctx.work, workers=6 if quick else 8, keep_raw=True,
                            want_tags=set(), timeout=900 if quick else 7200)
        f_codec = pool.submit(core.run_tlc, "CopyrightDoc", cfg_codec, ctx.work, workers=2, keep_raw=True,
                              want_tags=set(), timeout=900 if quick else 7200)
        f_negs = [pool.submit(spec_negative_control, ctx, *n) for n in negs]
        if not quick:
            f_negs.append(pool.submit(spec_controls_off, ctx))
        # code -> spec while TLC explores
        unspecified_zone(ctx)
        finish_traces = run_traces(ctx, quick, pool)
        # spec -> code
        for name, fut, kind, nconc in (("codec", f_codec, "codec", 2 if quick else 6), ("doc", f_doc, "doc", 2)):
            r = fut.result()
            if r.violated:
                raise core.MachineryError("specification CopyrightDoc (%s) violates %s\n%s" % (name, r.violated, r.tail))
            ncase = replay_cases(ctx, kind, r.raw_path, nconc, mp_pool, procs)
            shutil.rmtree(os.path.dirname(r.raw_path), ignore_errors=True)
            if ncase != r.distinct:
                raise core.MachineryError("TLC found %d states but %d CASE lines were read (%s)" % (r.distinct, ncase, name))
            ctx.traces += ncase
            ctx.tlc_runs.append({"module": "CopyrightDoc/" + name, "generated": r.generated, "distinct": r.distinct,
                                 "depth": r.depth, "wall_s": round(r.wall, 2), "violated": r.violated})
            ctx.states += r.distinct
            ctx.transitions += r.generated
        finish_traces()
        ctx.extra["spec_negative_controls"] = [f.result() for f in f_negs]
        # (the trace leg of this process; the pool processes of the replay leg do the same with their own objects)
        ctx.extra["caller_objects_trace_leg"] = {"calls_given_the_callers_own_list": _CALLER["n"], "changed_in_place_before_the_call": _CALLER["mut"]}
        pac = ctx.extra.get("per_action_counts", {})
        ctx.extra["file_object_kinds"] = {
            desc: pac.get(form if form.startswith("dump:") else "parse:" + form, 0)
            + pac.get("trace_edit_(api) " + (form if form.startswith("dump:") else "parse:" + form), 0)
            for form, desc in FILE_KINDS.items()}


def _rerun_trace_doc(case):
    return record_doc(case["hdr"], case["ops"], case["start"], case.get("form", "lines"), case.get("dumpform", "str"),
                      case.get("reqs", ()), case.get("vseed"), case.get("calls", ()))


def _replay_doc_sequence(case):
    """re-execute, in a fresh process, the CASE lines that preceded the failing execution in its pool
    process and then the failing one (state leaking between documents is only visible that way)"""
    seed, nconc = case.get("seed", 0), case.get("nconc", 1)
    seq = []
    for kind, nc, body in unpack(case.get("history", "")):
        crc = case_crc(kind, json.loads(body), body)
        seq += [(kind, json.loads(body), crc, k, nc) for k in ks_for(crc, nc, kind)]
    seq += [("doc", case["case"], case["crc"], k, nconc) for k in ks_for(case["crc"], nconc, "doc") if k <= case["k"]]
    prev = None
    for j, (kind, c, crc, k, nc) in enumerate(seq):
        if kind == "codec":
            _codec_run(c, crc, seed, k, None, nc)
            continue
        msg, o, _ = _doc_run(c, crc, seed, k, None, nc)
        if j == len(seq) - 1:
            return msg, (prev.recheck() if prev is not None else None)
        prev = Live(o) if o["_live"] is not None else None


def replay(ctx, case):
    k = case["kind"]
    _SCRATCH["dir"] = ctx.work
    if k == "codec":
        msg, _ = check_codec_case(case["case"], Conc(random.Random(0), choices=case["conc"]))
        return msg
    if k == "doc":
        return _replay_doc_sequence(case)[0]
    if k == "doc-pair":
        return _replay_doc_sequence(case)[1]
    if k == "trace-reject":
        tr, errs = record_reject(random.Random(0), case["text"])
        rejected, _, _, _ = validate(ctx, [tr], with_controls=False)
        return ("Copyright(<%r>, strict=True) through its input forms: %r" % (case["text"][:300], errs)) if rejected else None
    if k == "trace-codec":
        tr, o = record_codec(case["lines"])
        rejected, _, _, _ = validate(ctx, [tr], with_controls=False)
        if rejected:
            return "parse_multiline_as_lines(format_multiline_lines(%r)) = %r, second call %r / %r%s: still not explained by the specification" % (
                case["lines"], o["out"], o["out2"], o["out3"], (" raised " + o["exc"]) if o["exc"] else "")
        return None
    if k in ("trace-doc", "trace-pair"):
        prev = None
        for h in unpack(case.get("history", "")):
            _, o = _rerun_trace_doc(h)
            prev = Live(o) if o["_live"] is not None else None
        tr, o = _rerun_trace_doc(case)
        if k == "trace-pair":
            return prev.recheck() if prev is not None else None
        rejected, info, notes, _ = validate(ctx, [tr], with_controls=False)
        if rejected and "refused call carried out" not in notes.get(1, []):
            return "execution still not explained by the specification: " + explain_doc(case["hdr"], case["ops"], o, info.get(1, 0))
        return None
    return "unknown case kind"
