"""X10 (extra) -- the configured dict views of a format-preserving paragraph: the flag matrix.

C05 covers the DEFAULT dict interface of debian._deb822_repro (locality of edits, read-back); X10 covers what each of
the five flags of Deb822ParagraphElement.configured_view() changes on reads and writes, the raw setters behind the
views and the key-value-pair setters, over all 32 flag combinations.

spec:      spec/ReproView.tla     EXTENDS ReproDoc (read-only: document, key resolution, GoodKeys); the field instance is
                                  refined to [name, spelling, comment, value TEXT], text = sequence of pieces (blanks after
                                  the colon / first-line content / blanks behind it / newline / block of continuation lines /
                                  block of comment lines / blank-only line); view = record of five booleans (View(0..31)).
                                  Outcome operators transcribed from the code, one per public call: GetOut (view[key]),
                                  HasOut (key in view), KvOut (get_kvpair_element), VSetOut (view[key] = x: StoreRaw +
                                  RawSetOut), RawSetOut / SimpleSetOut (set_field_from_raw_string / _to_simple_value with
                                  the comment modes default/keep/drop/list/conflict), DelOut, CmtOut / ValOut (the
                                  comment_element / value_element setters).  The STATEMENT is declarative and checked by
                                  TLC against these: ReadAgree (ReadImpl = NlMap . WsMap . DcMap), ReadShape, RoundTrip,
                                  Supplies, Rejects, CommentKept, ArResolves, ArRefuses, ViewsShare, Frame, XErrAtomic,
                                  StoredValid, and the ASSUMEd algebra over a universe of texts (ReadAgreeU,
                                  SymmetricGetSet, RoundTripU, FlagsIndependent).
           spec/MC_ReproView.tla  start documents (unique fields between context paragraphs; duplicated fields; the file
                                  ending without newline) and the offered texts; MC_ReproView_{N,D,E}.cfg: every call x
                                  (17 write views | 32 read views) x 15 texts, one write deep; _H.cfg: histories of 2 (3)
                                  writes through 4 views.  TLC FINDS the two open findings (MC_ReproView_find_blank.cfg:
                                  RoundTrip/Rejects, _find_cont.cfg: ArResolves); negative controls _neg_strict (StrictNl:
                                  final newline of a single-line value hidden iff nl -> ReadAgree), _neg_stale (a view
                                  answering from a copy -> ViewsShare), _neg_keeps (comment always kept -> CommentKept),
                                  _neg_readc (dc ignored without ws -> ReadAgree).
           spec/TraceReproView.tla  validation of recorded histories against the outcome operators; calls outside the
                                  domain (SetDomain/DelDomain/RawDomain) are accepted with any outcome; KNOWN_* switches
                                  accept the outcome of an open finding and report it (REJECT note).
binding:   (a) the complete LTS of every configuration (EDGE lines with expected result, expected document and, where a
               finding changes it, the alternative outcome) is replayed on real documents: every write along a shortest
               path from its start document, then the observations the model offers in the state reached: one key through
               ALL 32 views (+ the interpreted views), membership, get_kvpair_element.  After every call dump() must be
               byte for byte the model's text (context paragraphs, free comments, other fields included).
           (b) random histories on random documents (1-3 paragraphs, duplicated fields, comments, inner comments, file
               ending without newline) through random views are recorded -- outcome + returned text lexed back to pieces +
               projection of the whole document after every call -- and validated by TLC with ten kinds of corrupted
               control traces.
leaks:     several views per flag combination are alive on every paragraph BEFORE the first edit (created through
           different entry points) and more are created on the way; after a write the value is read back through OTHER old
           and new views; observations of the untouched context paragraphs are repeated in every state; .get() falling back
           to [] repeats calls; all documents of a worker process stay in one process (module level state would show).
size:      notes/SIZE_STRESS.md -- piece texts of 1..8193 characters (first-line content, continuation lines, comment lines,
           blank runs), blocks of 2..257 continuation / comment lines behind ONE abstract piece (TLC sees a block as one
           piece: reads and writes are length-independent by construction), field names up to 257 characters, documents of
           10 paragraphs x 25 fields with many duplicates, IDENTICAL texts in several fields.  Characters: not-NFC-stable
           text, case hazards, BOM / ZWJ / soft hyphen / NBSP / U+3000 inside content, non-BMP, every UTF-8 trailing byte at
           line ends and starts, tab vs blank separation.

API surface (entry point -> leg):
  paragraph.configured_view(all five keywords)                        replay + trace (Session.make_view)
  paragraph.configured_view(only the non-default keywords), ()         replay + trace
  Deb822DictishParagraphWrapper(paragraph, **kw) (its own defaults)    replay + trace
  the paragraph itself (= the all-True view): p[k], p[k] = x, del p[k]  replay + trace (view number 31)
  view[key], view.get(key, default), view.__getitem__                   replay + trace
  key forms: str in any case, (name, i), the Deb822FieldNameToken       replay + trace (Session.key)
  key in view, key in view.keys()                                       replay + trace
  len(view), iter(view), view.keys(), paragraph.dump()                  replay (check_state)
  view[key] = x, view.update({key: x}), view.update([(key, x)])         replay + trace
  del view[key], view.pop(key), view.__delitem__                        replay + trace
  as_interpreted_dict_view(interp[, auto_resolve_ambiguous_fields])     replay (key resolution, words of the value)
  set_field_from_raw_string(key, text[, preserve_..., field_comment])   replay + trace (modes default/keep/drop/list/conflict)
  set_field_to_simple_value(key, text[, ...])                           replay + trace
  get_kvpair_element(key[, use_get] / use_get=)                         replay + trace
  kvpair.comment_element = None / element / element without newline     replay + trace (cmt: none/new/bad/move)
  kvpair.value_element = element parsed elsewhere                       replay + trace (val)
  parse input forms (list of str/bytes, iterator, text/binary file)     replay + trace (repro_common.parse)
  Deb822InterpretingParagraphWrapper(...) directly, view.items()/values()/setdefault(), negative indices, sort/order_*:
                                                                        out of domain (not part of the statement; C10/C11)

Verdict observables: outcome class of every call; the returned text (exact); the position of the returned key-value pair;
dump()/dump(fd)/convert_to_text() of the whole document after every call (exact); keys and len of a random view.
Unspecified (executed, any outcome): see ctx.assumptions (SetDomain/DelDomain/RawDomain of the spec).
"""
import json
import os
import random
import re
import threading
import time

import core
import repro_common as rc

MANIFEST = None     # an EXTRA: not one of the twenty registered property checks
EXTRA = dict(
    title="configured dict views of a format-preserving paragraph: the flag matrix of configured_view()",
    statement=(
        "For every paragraph held by the format-preserving parser (unique or duplicated fields, field comments, inner comments, "
        "any first-line whitespace, with or without final newline) and every one of the 32 flag combinations of configured_view: "
        "(1) view[key] returns the field's raw value text with the comment lines removed iff discard_comments_on_read (else "
        "included verbatim), with the whitespace around the first line's content removed iff auto_map_initial_line_whitespace "
        "(a single-line value then loses its newline too, a multi-line value keeps the first line's newline) and with the final "
        "newline of a multi-line value removed iff auto_map_final_newline_in_multiline_values; each flag changes exactly its own "
        "aspect, with all three off the raw text is returned. "
        "(2) view[key] = x stores x exactly, except that the first line becomes one blank + its stripped content iff "
        "auto_map_initial_line_whitespace and a missing final newline is supplied iff auto_map_final_newline_in_multiline_values "
        "(or x is a single line written with auto_map_initial_line_whitespace); text the raw format cannot hold (missing final "
        "newline that is not supplied, a last line that is a comment, a blank-only continuation line) is rejected with ValueError "
        "and changes nothing; a successful write re-reads through the same view as that view shows the raw text x, and whatever a "
        "view shows can be written back through it and is shown again. The field's own comment is kept iff "
        "preserve_field_comments_on_field_updates, spelling and position are kept, a new field is appended; "
        "set_field_from_raw_string / set_field_to_simple_value keep, drop or replace the comment as "
        "preserve_original_field_comment / field_comment say (both: ValueError; list items normalised to '#...' lines). "
        "(3) A plain name that occurs several times resolves to the first occurrence iff auto_resolve_ambiguous_fields (item "
        "access, `in`, interpreted views) and raises AmbiguousDeb822FieldKeyError otherwise (a write through a non-resolving view "
        "raises it when the comment is to be preserved); (name, i) and the name token address exactly one occurrence; "
        "get_kvpair_element never resolves. "
        "(4) Views never copy: whichever view, the paragraph, a raw setter or a key-value-pair setter (comment_element, "
        "value_element) wrote last, every live view -- created before or after -- shows the current document; every call leaves "
        "all other fields, paragraphs and comments byte-identical and a failing call changes nothing. "
        "Domain: first-line content without non-blank str.isspace() characters at its ends; writes/deletes of an ambiguous plain "
        "name through a non-resolving view without comment preservation, and calls with two causes of failure, are unspecified."),
    technique=(
        "TLA+ spec ReproView (EXTENDS the C05/C10 module ReproDoc read-only): outcome operators transcribed from the code, the "
        "statement as invariants / action properties / ASSUMEd algebra over all 32 views, model-checked by TLC over closed "
        "configurations (two code defects and four negative controls switchable); the complete LTS with expected outcomes replayed "
        "into real paragraphs through every entry point with seeded, size- and character-stressed concretizations; recorded random "
        "histories validated by TLC (TraceReproView) with corrupted control traces"))
KNOWN = [
    dict(id="X10-trailing-blank-line-cut",
         signature="a value whose LAST line(s) consist of blanks only (e.g. view['F'] = 'a\\n ' or set_field_from_raw_string('F', ' a\\n \\n')) "
                   "is accepted and silently cut down to the lines in front of them (the scratch parse sees the blank line as the end of "
                   "the paragraph and find_first_error_element() finds nothing) instead of raising ValueError like a blank-only line in "
                   "the middle does; the value read back differs from the value written"),
    dict(id="X10-contains-ambiguous",
         signature="`name in view` raises AmbiguousDeb822FieldKeyError for a duplicated field also on views that resolve ambiguous "
                   "names (auto_resolve_ambiguous_fields=True, including the paragraph itself and configured_view()), where view[name] "
                   "returns the first occurrence: __contains__ goes to contains_kvpair_element without the (name, 0) fudge of __getitem__"),
]
KNOWN_IDS = {k["id"] for k in KNOWN}

BOUNDS = [1, 2, 7, 8, 9, 15, 16, 17, 31, 32, 33, 63, 64, 65, 71, 72, 73, 79, 80, 81, 127, 128, 129, 255, 256, 257,
          1023, 1024, 1025, 4095, 4096, 4097, 8191, 8192, 8193]
COUNTS = [2, 3, 9, 10, 11, 16, 17, 31, 32, 33, 99, 100, 101, 255, 256, 257]
FLAGS = ["discard_comments_on_read", "auto_map_initial_line_whitespace", "auto_resolve_ambiguous_fields",
         "preserve_field_comments_on_field_updates", "auto_map_final_newline_in_multiline_values"]
FLAG_BITS = [16, 8, 4, 2, 1]           # View(k) of spec/ReproView.tla: dc ws ar pc nl
SENT = "<x10-sentinel>"


def flags_of(k):
    return {name: bool(k & bit) for name, bit in zip(FLAGS, FLAG_BITS)}


def heavy_len(rng):
    return rng.choice(BOUNDS[:26]) if rng.random() < 0.8 else rng.choice(BOUNDS[26:])


WS_POOL = ["\t", "  ", " \t", "   ", "\t\t", "\t ", "    ", "  \t "]
F_FORMS = ["f%d", "f%d", "f%d x:y #z", "#f%d", "f%d é中", "f%d café Å", "f%d b", "﻿f%d‍z",
           "\U0001f600 f%d", "f%d (>= 1.0), g | h", "-f%d-", "f%d\tz", "ßİf%dſ", "f%d 　 x", "f%d café",
           "́f%d", "f%d類ﬁＡ", "f%d­‎", "f%d:", ":f%d", "f%d\U0010ffff", "f%d σς"]
V_FORMS = ["v%s", "v%s", "v%s,", "v%s x:y #z", "#v%s", "v%s é中", "v%s café", "$ run --v%s", "v%s b", "﻿v%s",
           "v%s \U0001f600", "v%sÅΩ", "v%s: like a field", "v%s café", "v%s​　"]
C_FORMS = ["# c%s", "#c%s", "#  c%s  two  words", "# é中 c%s", "#c%s: like a field", "# c%s café Å", "##c%s", "#\tc%s",
           "# c%s \U0001f600", "# c%s "]
B_FORMS = ["b%d note", "b%d", "b%d two  words", "b%d é中", "b%d: x", "b%d café"]


class Conc:
    """One concretization: a text for every piece <<kind, id>> of the model (generated on first use from a
    seeded generator, every text embeds its id: texts of different pieces differ and blocks of lines are
    recognisable by their first line), field names, separators.  canonical = the minimal forms."""

    def __init__(self, seed, canonical=False, stress=False):
        self.seed = seed
        self.rng = random.Random(seed)
        self.canonical = canonical
        self.stress = stress
        self.t = {"L": {1: " "}, "T": {1: " "}, "B": {}, "F": {}, "V": {}, "C": {}, "H": {}, "S": {}, "E": {0: "#"}, "N": {0: "\n"}}
        self.body = {}
        self.cx = {}            # comment-list items: blanks behind '#', blanks in front / behind
        self.base = {}
        self.sep = {}
        self._lex = None

    # ---- generators
    def _gen(self, kind, i):
        rng = self.rng
        self._lex = None
        big = self.stress and rng.random() < 0.3
        if kind in "LTB":
            used = set(self.t[kind].values())
            cands = [w for w in WS_POOL + ([" "] if kind == "B" else []) if w not in used]
            if self.canonical:
                return cands[0]
            if big:
                w = rng.choice([" ", "\t"]) * heavy_len(rng)
                if w not in used and w != " ":
                    return w
            return rng.choice(cands) if cands else " " * (len(used) + 9)
        if kind == "F":
            if self.canonical:
                return "f%d" % i
            s = rng.choice(F_FORMS) % i
            r = rng.random()
            if r < 0.15:
                s = s + chr(0x400 + rng.randrange(64))          # every UTF-8 trailing byte at the end of the line
            elif r < 0.25:
                s = chr(0x400 + rng.randrange(64)) + s
            if big:
                s = s + "-" + "y" * heavy_len(rng)
            return s
        if kind == "V":
            n = 1
            if not self.canonical:
                r = rng.random()
                n = 1 if r < 0.65 else rng.choice([2, 3])
                if big:
                    n = rng.choice(COUNTS[:13])
            lines = []
            for j in range(n):
                tag = "%d" % i if j == 0 else "%d.%d" % (i, j)
                if self.canonical:
                    lines.append(" v" + tag)
                    continue
                cont = rng.choice([" ", " ", "\t"])
                ind = rng.choice(["", "", " ", "\t", "   "])
                core_ = rng.choice(V_FORMS) % tag
                if j > 0 and rng.random() < 0.2:
                    core_ = "."
                    ind = ""
                if rng.random() < 0.15:
                    core_ += chr(0x400 + rng.randrange(64))
                if big and rng.random() < 0.3:
                    core_ += "w" * heavy_len(rng)
                lines.append(cont + ind + core_ + rng.choice(["", "", "", " ", "\t", "  "]))
            return "\n".join(lines)
        if kind == "C":
            n = 1
            single = 20 <= i < 30 or i >= 500          # comment-list items are single lines
            if not self.canonical and not single:
                n = 1 if rng.random() < 0.7 else rng.choice([2, 3])
                if big:
                    n = rng.choice(COUNTS[:10])
            lines = []
            for j in range(n):
                tag = "%d" % i if j == 0 else "%d.%d" % (i, j)
                if self.canonical:
                    lines.append("# c" + tag)
                    continue
                s = rng.choice(C_FORMS) % tag
                if j > 0 and rng.random() < 0.15:
                    s = "#"
                if rng.random() < 0.15:
                    s += chr(0x400 + rng.randrange(64))
                if big and rng.random() < 0.3:
                    s += "k" * heavy_len(rng)
                lines.append(s + rng.choice(["", "", "", " ", "\t"]))
            return "\n".join(lines)
        if kind == "H":
            return "#" + self._cx(i)[0] + self._body(i)
        if kind == "S":
            return "# " + self._body(i)
        raise core.MachineryError("no text for piece %r" % ((kind, i),))

    def _body(self, i):
        if i not in self.body:
            self.body[i] = ("b%d" % i) if self.canonical else self.rng.choice(B_FORMS) % i
            self._lex = None
        return self.body[i]

    def _cx(self, i):
        if i not in self.cx:
            rng = self.rng
            self.cx[i] = [rng.choice(["", " ", "  ", "\t"]), rng.choice(["", " ", "\t  "]), rng.choice([" ", "  ", "\t", " \t "])]
        return self.cx[i]

    def piece(self, k, i):
        tab = self.t[k]
        if i not in tab:
            tab[i] = self._gen(k, i)
        return tab[i]

    def text(self, pieces):
        return "".join(self.piece(k, i) for k, i in pieces)

    def comment(self, c):
        return "".join(self.piece(k, i) + "\n" for k, i in c)

    def name(self, n):
        if n not in self.base:
            used = set(v.lower() for v in self.base.values())
            pool = [w for w in rc.WORDS if not any(u == w.lower() or u.startswith(w.lower() + "-") for u in used)]
            if not pool:
                pool = ["%s-%03d" % (rc.WORDS[n % len(rc.WORDS)], n)]
            b = pool[0] if self.canonical else self.rng.choice(pool)
            if not self.canonical and self.rng.random() < (0.4 if self.stress else 0.06):
                L = self.rng.choice([16, 17, 31, 32, 33, 63, 64, 65, 72, 73, 127, 128, 129, 255, 256, 257])
                if L > len(b) + 1:
                    b = b + "-" + "x" * (L - len(b) - 1)
            self.base[n] = b
        return self.base[n]

    def septext(self, sid):
        if sid not in self.sep:
            k = sid
            opts = ["\t" * k + "\n", " " * k + "\n", "# free comment %d\n\n" % k, "\n# free comment %d\n#  second\n\n" % k]
            if sid == 1:
                opts = opts[:3]           # a leading separator must not start with a blank line followed by text
            self.sep[sid] = opts[0] if self.canonical else self.rng.choice(opts)
        return self.sep[sid]

    def inst_text(self, f):
        return self.comment(f["c"]) + rc.spelled(self.name(f["n"]), f["s"]) + ":" + self.text(f["v"])

    def doc_text(self, doc):
        out = []
        for part in doc:
            if part["t"] == "p":
                out.extend(self.inst_text(f) for f in part["fs"])
            else:
                out.append(self.septext(part["id"]))
        return "".join(out)

    # ---- comment list items handed to field_comment=[...]
    def list_item(self, form, b):
        x, x0, y = self._cx(b)
        if form in "hsp":
            self.piece("H" if form == "h" else "S", b)       # the normalised line, known to the lexer
        if form == "x":
            return self.piece("C", b) + "\n"
        if form == "h":
            return "#" + x + self._body(b) + y
        if form == "s":
            return x0 + self._body(b) + "\n"
        if form == "p":
            return x0 + self._body(b) + y
        if form == "e":
            return ""
        return self._body(b) + "\nzz"        # "bad": embedded newline

    # ---- lexer: real text -> pieces
    def _tables(self):
        if self._lex is None:
            first = {}
            for kind in ("V", "C", "H", "S", "E", "B"):
                for i, s in self.t[kind].items():
                    lines = s.split("\n")
                    first.setdefault(lines[0], []).append((len(lines), kind, i, lines))
            for v in first.values():
                v.sort(reverse=True)
            ws = {kind: {s: i for i, s in self.t[kind].items()} for kind in "LT"}
            fx = {s: i for i, s in self.t["F"].items()}
            self._lex = (first, ws, fx)
        return self._lex

    def _lex_lines(self, lines, kinds):
        """lines (without newlines) -> list of pieces, one per recognised block"""
        first, _, _ = self._tables()
        out = []
        i = 0
        while i < len(lines):
            hit = None
            for n, kind, pid, blk in first.get(lines[i], ()):
                if kind in kinds and lines[i:i + n] == blk:
                    hit = (n, kind, pid)
                    break
            if hit is None:
                ln = lines[i]
                kind = "C" if ln.startswith("#") else ("B" if ln.strip(" \t") == "" else "V")
                hit = (1, kind, 999)
            out.append([hit[1], hit[2]])
            i += hit[0]
        return out

    def lex_value(self, s):
        _, ws, fx = self._tables()
        head, nl, tail = s.partition("\n")
        m = re.match(r"^([ \t]*)(.*?)([ \t]*)$", head, re.S)
        lw, fc, tw = m.group(1), m.group(2), m.group(3)
        if fc == "":
            lw, tw = lw + tw, ""
        out = []
        if lw:
            out.append(["L", ws["L"].get(lw, 999)])
        if fc:
            out.append(["F", fx.get(fc, 999)])
        if tw:
            out.append(["T", ws["T"].get(tw, 999)])
        if not nl:
            return out
        out.append(["N", 0])
        if tail == "":
            return out
        final = tail.endswith("\n")
        lines = (tail[:-1] if final else tail).split("\n")
        for pc in self._lex_lines(lines, "VCB"):
            out.append(pc)
            out.append(["N", 0])
        if not final:
            out.pop()
        return out

    def lex_comment(self, s):
        if not s:
            return []
        lines = (s[:-1] if s.endswith("\n") else s + "\u0000").split("\n")
        return self._lex_lines(lines, "CHSE")

    def to_json(self):
        return {"seed": self.seed, "canonical": self.canonical, "stress": self.stress,
                "t": {k: {str(i): s for i, s in tab.items()} for k, tab in self.t.items()},
                "body": {str(i): s for i, s in self.body.items()}, "cx": {str(i): v for i, v in self.cx.items()},
                "base": {str(i): s for i, s in self.base.items()}, "sep": {str(i): s for i, s in self.sep.items()}}

    @classmethod
    def from_json(cls, j):
        c = cls(j["seed"], j["canonical"], j["stress"])
        c.rng = random.Random("%s-replay" % j["seed"])
        c.t = {k: {int(i): s for i, s in tab.items()} for k, tab in j["t"].items()}
        c.body = {int(i): s for i, s in j["body"].items()}
        c.cx = {int(i): v for i, v in j["cx"].items()}
        c.base = {int(i): s for i, s in j["base"].items()}
        c.sep = {int(i): s for i, s in j["sep"].items()}
        return c


def project(f, conc):
    """real document -> model form (ids looked up by text; unknown text gets id 999)"""
    rank = {b.lower(): n for n, b in conc.base.items()}
    st = {t: sid for sid, t in conc.sep.items()}
    doc = []
    pending = ""
    for part in f.iter_parts():
        if hasattr(part, "kvpair_count"):
            if pending:
                doc.append({"t": "s", "dup": False, "fs": [], "id": st.get(pending, 999)})
                pending = ""
            fs = []
            for kv in part.iter_parts():
                name = str(kv.field_name)
                n = rank.get(name.lower(), 0)
                base = conc.base.get(n, "")
                s = "U" if name == base else ("L" if name == base.lower() else "?")
                c = kv.comment_element.convert_to_text() if kv.comment_element is not None else ""
                fs.append({"n": n, "s": s, "c": conc.lex_comment(c), "v": conc.lex_value(kv.value_element.convert_to_text())})
            doc.append({"t": "p", "dup": type(part).__name__ == "Deb822DuplicateFieldsParagraphElement", "fs": fs, "id": 0})
        else:
            pending += part.convert_to_text()
    if pending:
        doc.append({"t": "s", "dup": False, "fs": [], "id": st.get(pending, 999)})
    return doc


# ------------------------------------------------------------------ driving the real objects

def _classify(ex):
    from debian._deb822_repro import AmbiguousDeb822FieldKeyError
    if isinstance(ex, AmbiguousDeb822FieldKeyError):
        return "Ambiguous"
    for cls, name in ((KeyError, "KeyError"), (IndexError, "IndexError"), (ValueError, "ValueError")):
        if isinstance(ex, cls):
            return name
    return "EXC:" + type(ex).__name__


class Session:
    """a parsed document with the views that are alive on its paragraphs (several per flag combination,
    created through different entry points, before and after edits)"""

    def __init__(self, f, conc, rng):
        self.f = f
        self.conc = conc
        self.rng = rng
        self.paras = list(f)
        self.views = {}          # (p, k) -> list of live views
        self.iviews = {}         # (p, ar) -> interpreted views
        self.made = {}

    def para(self, p):
        return self.paras[p - 1]

    def make_view(self, p, k):
        from debian._deb822_repro.parsing import Deb822DictishParagraphWrapper
        par = self.para(p)
        fl = flags_of(k)
        how = self.rng.randrange(5)
        if how == 0 and k == 31:
            self.made["paragraph"] = self.made.get("paragraph", 0) + 1
            return par                                              # the paragraph is the all-defaults view
        if how == 1:
            kw = {n: v for n, v in fl.items() if not v}             # configured_view: every default is True
            self.made["configured_view(non-defaults)"] = self.made.get("configured_view(non-defaults)", 0) + 1
            return par.configured_view(**kw)
        if how == 2:
            self.made["Deb822DictishParagraphWrapper"] = self.made.get("Deb822DictishParagraphWrapper", 0) + 1
            kw = dict(fl)
            if not kw["auto_resolve_ambiguous_fields"] and self.rng.random() < 0.5:
                del kw["auto_resolve_ambiguous_fields"]             # the class's own default is False
            for n in FLAGS:
                if n in kw and kw[n] and n != "auto_resolve_ambiguous_fields" and self.rng.random() < 0.3:
                    del kw[n]                                       # the others default to True
            return Deb822DictishParagraphWrapper(par, **kw)
        self.made["configured_view(all)"] = self.made.get("configured_view(all)", 0) + 1
        return par.configured_view(**fl)

    def view(self, p, k, fresh=0.4):
        lst = self.views.setdefault((p, k), [])
        if not lst or self.rng.random() < fresh:
            lst.append(self.make_view(p, k))
            return lst[-1]
        return self.rng.choice(lst)

    def iview(self, p, ar):
        from debian._deb822_repro import LIST_SPACE_SEPARATED_INTERPRETATION as LS
        lst = self.iviews.setdefault((p, ar), [])
        if not lst or self.rng.random() < 0.4:
            par = self.para(p)
            if ar and self.rng.random() < 0.5:
                lst.append(par.as_interpreted_dict_view(LS))       # default: resolves
            else:
                lst.append(par.as_interpreted_dict_view(LS, auto_resolve_ambiguous_fields=ar))
        return self.rng.choice(lst)

    def kvpairs(self, p):
        return list(self.para(p).iter_parts())

    def key(self, p, karg, allow_token=True):
        n, i = karg
        base = self.conc.name(n)
        name = self.rng.choice([base, base, base.lower(), base.upper()])
        if i < 0:
            return name
        if allow_token and self.rng.random() < 0.25:
            occ = [kv for kv in self.kvpairs(p) if str(kv.field_name).lower() == base.lower()]
            dup = type(self.para(p)).__name__ == "Deb822DuplicateFieldsParagraphElement"
            if i < len(occ) and (dup or i == 0):
                return occ[i].field_token                           # the name token addresses exactly that occurrence
        return (name, i)


def kw_for(mode, cl, conc, rng):
    if mode == "default":
        return {}
    if mode == "keep":
        return {"preserve_original_field_comment": True}
    if mode == "drop":
        return {"preserve_original_field_comment": False}
    lst = [conc.list_item(form, b) for form, b in cl]
    if mode == "list":
        return {"field_comment": lst}
    return {"preserve_original_field_comment": rng.choice([True, False]), "field_comment": lst}      # conflict


def perform(sess, ev, rng):
    """perform one call on the real objects; returns (class, payload): ("val", text) ("ok", None) ("true"/"false", None)
    ("kv", position) ("none", None) or (exception class name, None)"""
    from debian._deb822_repro.parsing import Deb822CommentElement
    from debian._deb822_repro.tokens import Deb822CommentToken
    conc = sess.conc
    op, p = ev["op"], ev["p"]
    par = sess.para(p)
    try:
        if op == "get":
            v = sess.view(p, ev["w"])
            key = sess.key(p, ev["k"])
            how = rng.randrange(3)
            if how == 1:
                r = v.get(key, SENT)
                if r is SENT:
                    r = v[key]                   # the mapping protocol turns every KeyError into the default: ask again
            elif how == 2:
                r = v.__getitem__(key)
            else:
                r = v[key]
            return ("val", r) if isinstance(r, str) else ("EXC:returned-" + type(r).__name__, None)
        if op == "words":                        # interpreted view: the words of the value, comments never shown
            v = sess.iview(p, ev["ar"])
            return ("val", list(v[sess.key(p, ev["k"])]))
        if op == "has":
            v = sess.view(p, ev["w"])
            key = sess.key(p, [ev["k"][0], -1])
            r = (key in v) if rng.random() < 0.7 else (key in v.keys())
            return ("true" if r else "false", None)
        if op == "kv":
            key = sess.key(p, ev["k"])
            kv = par.get_kvpair_element(key, ev["ug"]) if rng.random() < 0.5 else par.get_kvpair_element(key, use_get=ev["ug"])
            if kv is None:
                return ("none", None)
            pos = [j + 1 for j, x in enumerate(sess.kvpairs(p)) if x is kv]
            return ("kv", pos[0] if pos else 999)
        if op == "set":
            v = sess.view(p, ev["w"])
            n, i = ev["k"]
            name = rc.spelled(conc.name(n), ev["s"])
            if any(str(k).lower() == name.lower() for k in par.keys()):
                key = sess.key(p, ev["k"])
            else:
                key = name if i < 0 else (name, i)       # a new field gets the model's spelling
            text = conc.text(ev["x"])
            how = rng.randrange(3)
            if how == 1:
                v.update({key: text})
            elif how == 2 and not isinstance(key, tuple):
                v.update([(key, text)])
            else:
                v[key] = text
            return ("ok", None)
        if op == "del":
            v = sess.view(p, ev["w"])
            key = sess.key(p, ev["k"])
            how = rng.randrange(3)
            if how == 1:
                v.pop(key)
            elif how == 2:
                v.__delitem__(key)
            else:
                del v[key]
            return ("ok", None)
        if op in ("raw", "simple"):
            n, i = ev["k"]
            name = rc.spelled(conc.name(n), ev["s"])
            if any(str(k).lower() == name.lower() for k in par.keys()):
                key = sess.key(p, ev["k"])
            else:
                key = name if i < 0 else (name, i)
            kw = kw_for(ev["mode"], ev["cl"], conc, rng)
            text = conc.text(ev["x"])
            if op == "raw":
                par.set_field_from_raw_string(key, text, **kw)
            else:
                par.set_field_to_simple_value(key, text, **kw)
            return ("ok", None)
        if op == "cmt":
            kvs = sess.kvpairs(p)
            kv = kvs[ev["j"] - 1]
            if ev["src"] == "none":
                kv.comment_element = None
            elif ev["src"] in ("new", "bad"):
                lines = [ln + "\n" for ln in conc.piece("C", 90).split("\n")]
                if ev["src"] == "bad":
                    lines[-1] = lines[-1][:-1]
                kv.comment_element = Deb822CommentElement([Deb822CommentToken(ln) for ln in lines])
            else:
                kv2 = kvs[ev["j2"] - 1]
                c = kv2.comment_element
                kv2.comment_element = None
                kv.comment_element = c
            return ("ok", None)
        if op == "val":
            kv = sess.kvpairs(p)[ev["j"] - 1]
            scratch = rc.parse("Zz-Scratch:" + conc.text(ev["x"]))
            kv.value_element = next(iter(scratch)).get_kvpair_element("Zz-Scratch").value_element
            return ("ok", None)
        raise core.MachineryError("unknown op %r" % op)
    except core.MachineryError:
        raise
    except Exception as ex:      # an observation, never a harness crash
        if not isinstance(ex, (KeyError, ValueError, IndexError, AssertionError)) and not core.raised_by_code_under_test(ex):
            raise
        return (_classify(ex), None)


def edge_event(e):
    """EDGE line of the model -> the event form used by perform() and by the trace module"""
    op, a = e["op"], e["args"]
    ev = {"op": op, "p": a[0], "k": [0, -1], "w": 31, "s": "U", "x": [], "mode": "default", "cl": [], "j": 1, "j2": 1,
          "src": "none", "ug": False}
    if op == "get":
        ev.update(w=a[1], k=a[2])
    elif op == "reads":
        ev.update(k=a[1])
    elif op == "has":
        ev.update(w=a[1], k=[a[2], -1])
    elif op == "kv":
        ev.update(k=a[1], ug=a[2])
    elif op == "set":
        ev.update(w=a[1], k=a[2], s=a[3], x=a[4])
    elif op == "del":
        ev.update(w=a[1], k=a[2])
    elif op in ("raw", "simple"):
        ev.update(k=a[1], s=a[2], x=a[3], mode=a[4], cl=a[5])
    elif op == "cmt":
        ev.update(j=a[1], src=a[2], j2=a[3])
    elif op == "val":
        ev.update(j=a[1], x=a[2])
    return ev


def res_matches(exp, obs, conc):
    """model result [e, t] vs observed outcome"""
    e = exp["e"]
    if e == "val":
        return obs[0] == "val" and obs[1] == conc.text(exp["t"])
    if e == "kv":
        return obs[0] == "kv" and obs[1] == exp["t"][0][1]
    if e == "IndexError":            # index out of range: exception type unspecified (as in C05)
        return obs[0] in ("KeyError", "IndexError")
    return obs[0] == e


def show(obs):
    return "%s%s" % (obs[0], "" if obs[1] is None else " %r" % (obs[1],))


# ------------------------------------------------------------------ spec -> code: replay of the TLC-emitted LTS
OBS_OPS = ("reads", "get", "has", "kv")
K_BLANK, K_CONT = "X10-trailing-blank-line-cut", "X10-contains-ambiguous"


def check_state(sess, model_doc, deep, rng):
    """verdict observables after a step: the document is byte for byte the model's text"""
    import io
    conc, f = sess.conc, sess.f
    exp = conc.doc_text(model_doc)
    got = f.dump()
    if got != exp:
        return "dump() is %r; the model gives %r" % (got, exp)
    if not deep:
        return None
    buf = io.BytesIO()
    f.dump(buf)
    if buf.getvalue() != exp.encode("utf-8"):
        return "dump(fd) writes %r, dump() returns %r" % (buf.getvalue(), got)
    if f.convert_to_text() != exp:
        return "convert_to_text() gives %r, dump() %r" % (f.convert_to_text(), got)
    mparas = [part for part in model_doc if part["t"] == "p"]
    if len(mparas) != len(sess.paras):
        return "model bug: %d paragraphs vs %d" % (len(mparas), len(sess.paras))
    for pi, mp in enumerate(mparas):
        v = sess.view(pi + 1, rng.randrange(32))
        expk = [rc.spelled(conc.name(x["n"]), x["s"]) for x in mp["fs"]]
        if [str(k) for k in v] != expk or [str(k) for k in v.keys()] != expk:
            return "paragraph %d: a view iterates %r, model %r" % (pi + 1, [str(k) for k in v], expk)
        if len(v) != len(expk):
            return "paragraph %d: len(view) = %d, model %d" % (pi + 1, len(v), len(expk))
        ptext = "".join(conc.inst_text(x) for x in mp["fs"])
        if sess.para(pi + 1).dump() != ptext:
            return "paragraph %d: paragraph.dump() is %r, model %r" % (pi + 1, sess.para(pi + 1).dump(), ptext)
    return None


def probe(sess, e, rng, state):
    """one observation edge on the current state; None or a message"""
    conc = sess.conc
    ev = edge_event(e)
    if e["op"] == "reads":
        ks = list(range(32))
        rng.shuffle(ks)
        for k in ks:
            exp = e["res"]["t"][k]
            obs = perform(sess, dict(ev, op="get", w=k), rng)
            if not res_matches(exp, obs, conc):
                return "view%s[%s]: %s; the model says %s" % (flagstr(k), ev["k"], show(obs), show_exp(exp, conc))
        for ar in (False, True):
            exp = e["res"]["t"][16 + (4 if ar else 0) + 2]
            obs = perform(sess, dict(ev, op="words", ar=ar), rng)
            want = ("val", conc.text(exp["t"]).split()) if exp["e"] == "val" else (exp["e"], None)
            if exp["e"] == "val" and not want[1]:
                continue        # list views of empty values: the subject of C11 / X04 (unspecified there), not judged here
            if not (obs == want or (exp["e"] == "IndexError" and obs[0] in ("KeyError", "IndexError"))):
                return "as_interpreted_dict_view(auto_resolve_ambiguous_fields=%s)[%s]: %s; the model says %s" % (ar, ev["k"], show(obs), show(want))
        return None
    obs = perform(sess, ev, rng)
    if res_matches(e["res"], obs, conc):
        return None
    alt = e.get("alt")
    if alt and alt["r"]["e"] != "same" and res_matches(alt["r"], obs, conc):
        return ("KNOWN", K_CONT if e["op"] == "has" else K_BLANK)
    return "%s%s: %s; the model says %s" % (e["op"], json.dumps(e["args"]), show(obs), show_exp(e["res"], conc))


def flagstr(k):
    return "(" + ",".join("%s=%d" % (n, bool(k & b)) for n, b in zip(("dc", "ws", "ar", "pc", "nl"), FLAG_BITS)) + ")"


def show_exp(exp, conc):
    if exp["e"] == "val":
        return "val %r" % conc.text(exp["t"])
    if exp["e"] == "kv":
        return "the key/value pair at position %d" % exp["t"][0][1]
    return exp["e"]


def describe(e, conc):
    ev = edge_event(e)
    op = e["op"]
    if op == "set":
        return "view%s[%s] = %r" % (flagstr(ev["w"]), ev["k"], conc.text(ev["x"]))
    if op == "del":
        return "del view%s[%s]" % (flagstr(ev["w"]), ev["k"])
    if op in ("raw", "simple"):
        return "%s(%s, %r, mode=%s, field_comment=%r)" % ({"raw": "set_field_from_raw_string", "simple": "set_field_to_simple_value"}[op],
                                                          ev["k"], conc.text(ev["x"]), ev["mode"], [conc.list_item(f, b) for f, b in ev["cl"]])
    return "%s%s" % (op, json.dumps(e["args"]))


def run_path(init, path, probes, seed, canonical, stress):
    """replay one model behaviour on a fresh document; returns (message or None, known ids, conc json or None)"""
    rng = random.Random(seed)
    conc = Conc(seed, canonical, stress)
    text = conc.doc_text(init)
    f = rc.parse(text, None if canonical else rng)
    sess = Session(f, conc, rng)
    known = []
    # leak probe: views of every kind exist BEFORE any edit and stay alive
    nparas = len(sess.paras)
    for p in range(1, nparas + 1):
        for k in rng.sample(range(32), 6) + [31, 0]:
            sess.view(p, k, fresh=1.0)
    m = check_state(sess, init, True, rng)
    if m:
        return "parse of %r: %s" % (text, m), known, conc.to_json()
    state = init
    for i, e in enumerate(path):
        where = "step %d %s" % (i + 1, describe(e, conc))
        if e["op"] in OBS_OPS:
            m = probe(sess, e, rng, state)
            if isinstance(m, tuple):
                known.append(m[1])
                m = None
            if m is None:
                m = check_state(sess, state, False, rng)
            if m:
                return "%s: %s" % (where, m), known, conc.to_json()
            continue
        obs = perform(sess, edge_event(e), rng)
        last = i == len(path) - 1
        if res_matches(e["res"], obs, conc):
            m = check_state(sess, e["to"], last, rng)
            if m is None:
                state = e["to"]
                continue
        alt = e.get("alt")
        if alt and alt["r"]["e"] != "same" and res_matches(alt["r"], obs, conc) and check_state(sess, alt["d"], False, rng) is None:
            known.append(K_BLANK)
            return None, known, None        # the state of the finding is not a state of the model: stop here
        m = check_state(sess, e["to"], False, rng)
        return "%s on %r: outcome %s, document %s; the model says %s and %r" % (
            where, conc.doc_text(state), show(obs), "as the model says" if m is None else repr(sess.f.dump()),
            show_exp(e["res"], conc), conc.doc_text(e["to"])), known, conc.to_json()
    for e in probes:
        m = probe(sess, e, rng, state)
        if isinstance(m, tuple):
            known.append(m[1])
            continue
        if m:
            return "after %d step(s) on %r, now %r: %s" % (len(path), text, conc.doc_text(state), m), known, conc.to_json()
    m = check_state(sess, state, True, rng)
    if m:
        return "after the reads: %s" % m, known, conc.to_json()
    return None, known, None


_TASKS = []


def _task(i):
    init, path, probes, seed, canonical, stress = _TASKS[i]
    try:
        return run_path(init, path, probes, seed, canonical, stress)
    except core.MachineryError:
        raise
    except Exception as ex:
        import traceback
        if not core.raised_by_code_under_test(ex):
            raise
        return ("unexpected %s from the library while observing the document: %s"
                % (type(ex).__name__, traceback.format_exc().strip().splitlines()[-3:]), [], Conc(seed, canonical, stress).to_json())


def read_edges(raw_path):
    """EDGE lines of a TLC run (fast path: the payload is a JSON string in a TLA+ string literal)"""
    edges = []
    with open(raw_path, errors="replace") as fh:
        for line in fh:
            if line.startswith('<<"EDGE", "'):
                edges.append(json.loads(json.loads(line[10:line.rindex('"') + 1])))
    return edges


def slim(e, keep_to):
    d = {"op": e["op"], "args": e["args"], "res": e["res"]}
    if keep_to:
        d["to"] = e["to"]
        if e["alt"]["r"]["e"] != "same":
            d["alt"] = e["alt"]
    elif e["op"] == "has" and e["alt"]["r"]["e"] != "same":
        d["alt"] = {"r": e["alt"]["r"]}
    return d


def build_tasks(rng, edges, budget, nconc, stress_every, nprobes=10 ** 9):
    """tasks from the complete LTS of one configuration: every (or a seeded sample of the) mutating call, replayed
    from its start document along a shortest path, followed by the observations the model offers in the state reached"""
    from lts import LTS, skey
    inits, seen = [], set()
    for e in edges:          # start documents: the states TLC left with no call made yet
        if e["nw"] == 0 and e["op"] not in OBS_OPS:
            k = skey(e["from"])
            if k not in seen:
                seen.add(k)
                inits.append(e["from"])
    if not inits:
        raise core.MachineryError("no start document among %d edges" % len(edges))
    tasks, meta = [], []
    stats = {"edges": 0, "states": 0, "mutating": 0}
    for init in inits:
        g = LTS(edges, init)
        paths = g.paths()
        stats["states"] += len(paths)
        obs = {s: [slim(e, False) for e in g.out.get(s, []) if e["op"] in OBS_OPS] for s in paths}
        # the context paragraphs (id 1) never change: the model offers their observations in the start document
        # only (Frame, checked by TLC); they are repeated in every state reached
        pids = [part["id"] for part in init if part["t"] == "p"]
        ctx_obs = [e for e in obs[g.init] if pids[e["args"][0] - 1] == 1]
        mut = [e for e in g.edges if e["op"] not in OBS_OPS and e["_f"] in paths]
        stats["edges"] += len(g.edges)
        stats["mutating"] += len(mut)
        chosen = mut
        b = max(1, budget // len(inits))
        if len(mut) > b:
            # cover every state once, then a seeded sample
            first = {}
            for e in mut:
                first.setdefault(e["_t"], e)
            cover = list(first.values())
            rng.shuffle(cover)
            cover = cover[:b]
            ids = set(id(e) for e in cover)
            rest = [e for e in mut if id(e) not in ids]
            chosen = cover + rng.sample(rest, max(0, min(len(rest), b - len(cover))))
        tasks.append((init, [], obs[g.init], rng.getrandbits(40), True, False))
        meta.append(("init", g.init))
        for e in chosen:
            path = [slim(x, True) for x in paths[e["_f"]] + [e]]
            for c in range(nconc):
                n = len(tasks)
                pr = obs.get(e["_t"], []) + (ctx_obs if e["_t"] != g.init else [])
                if len(pr) > nprobes:
                    pr = rng.sample(pr, nprobes)
                tasks.append((init, path, pr, rng.getrandbits(40), c == 0 and n % 3 == 0,
                              stress_every and n % stress_every == 1))
                meta.append(("edge", e["_f"], e["op"], skey(e["args"])))
    return tasks, meta, stats


def replay_leg(ctx, runs, budget, nconc, stress_every, hits, nprobes=10 ** 9):
    """runs: list of (cfg name, EDGE lines)"""
    from multiprocessing import get_context
    global _TASKS
    alltasks, allmeta = [], []
    per = ctx.extra.setdefault("edges_per_action", {})
    for cfg, edges in runs:
        if len(edges) < 50:
            raise core.MachineryError("%s printed only %d EDGE lines" % (cfg, len(edges)))
        for e in edges:
            per[e["op"]] = per.get(e["op"], 0) + 1
        tasks, meta, stats = build_tasks(ctx.rng, edges, budget, 1 if cfg.startswith("H") else nconc, stress_every, nprobes)
        ctx.extra.setdefault("lts", {})[cfg] = stats
        alltasks += tasks
        allmeta += [(cfg,) + m for m in meta]
        e = [x for x in edges if x["op"] == "set" and x["res"]["e"] == "ok"]
        if e:
            x = e[len(e) // 3]
            ctx.sample("%s edge: set%s -> %s" % (cfg, json.dumps(x["args"], separators=(",", ":")), x["res"]["e"]))
    _TASKS = alltasks
    nproc = min(core.NCPU, 12)
    with get_context("fork").Pool(nproc) as pool:
        out = pool.map(_task, range(len(alltasks)), chunksize=16)
    for t, key, (msg, known, cj) in zip(alltasks, allmeta, out):
        ctx.case_seen(key, True)
        for kid in known:
            hits[kid] = hits.get(kid, 0) + 1
        if msg and len(ctx.violations) < 4:
            ctx.violation({"kind": "path", "start": t[0], "path": t[1], "probes": t[2], "seed": t[3], "canonical": t[4],
                           "stress": t[5], "conc": cj}, msg)
    ctx.traces += len(alltasks)
    ctx.extra["behaviours_replayed"] = ctx.extra.get("behaviours_replayed", 0) + len(alltasks)
    _TASKS = []


# ------------------------------------------------------------------ code -> spec: recorded histories
class Alloc:
    def __init__(self):
        self.n = {"F": 0, "V": 0, "C": 0, "L": 1, "T": 1, "B": 0, "b": 499}
        self.used = {"F": [], "V": [], "C": []}

    def new(self, kind, rng, reuse=0.0):
        if kind in self.used and self.used[kind] and rng.random() < reuse:
            return rng.choice(self.used[kind])        # IDENTICAL text in two places
        if kind in "LT":
            return rng.choice([1, 1, 2, 3])
        if kind == "B":
            return rng.choice([1, 2])
        self.n[kind] += 1
        if kind in self.used:
            self.used[kind].append(self.n[kind])
        return self.n[kind]


def gen_text(rng, al, reuse=0.1, maxblocks=3):
    """a random well-formed value text (with its final newline)"""
    t = []
    if rng.random() < 0.8:
        t.append(["L", al.new("L", rng)])
    if rng.random() < 0.9:
        t.append(["F", al.new("F", rng, reuse)])
        if rng.random() < 0.2:
            t.append(["T", al.new("T", rng)])
    t.append(["N", 0])
    n = rng.choice([0, 0, 0, 1, 1, 2, maxblocks])
    for j in range(n):
        kind = "C" if j < n - 1 and rng.random() < 0.35 else "V"
        t.append([kind, al.new(kind, rng, reuse)])
        t.append(["N", 0])
    return t


def gen_input(rng, al):
    """a text handed to a setter: mostly fine, sometimes without final newline / without any newline, sometimes
    something the raw format cannot hold"""
    t = gen_text(rng, al, reuse=0.15)
    r = rng.random()
    if r < 0.3:
        t = [q for q in t if q[0] in "LFT"]              # no newline at all
    elif r < 0.5:
        t = t[:-1]                                        # no final newline
    elif r < 0.56:
        t = t + [["B", al.new("B", rng)]] + ([["N", 0]] if rng.random() < 0.5 else [])     # trailing blank-only line
    elif r < 0.60 and sum(1 for q in t if q == ["N", 0]) >= 2:
        j = rng.choice([k for k, q in enumerate(t[:-1]) if q == ["N", 0]]) + 1
        t = t[:j] + [["B", al.new("B", rng)], ["N", 0]] + t[j:]                              # blank-only line in the middle
    elif r < 0.64:
        t = t + [["C", al.new("C", rng)]] + ([["N", 0]] if rng.random() < 0.5 else [])     # ends in a comment
    elif r < 0.67:
        t = rng.choice([[], [["N", 0]], [["L", 2]], [["L", 3], ["N", 0]]])
    return t


def drop_blank(t):
    out = []
    skip = False
    for q in t:
        if skip and q == ["N", 0]:
            skip = False
            continue
        skip = q[0] == "B"
        if not skip:
            out.append(q)
    return out


def random_doc(rng, al, nnames, big):
    doc = []
    sid = [0]

    def sep():
        sid[0] += 1
        return {"t": "s", "dup": False, "fs": [], "id": sid[0]}

    if rng.random() < 0.3:
        doc.append(sep())
    npar = rng.randint(1, 3) if not big else rng.choice([1, 2, 9, 10])
    for pi in range(npar):
        dup = rng.random() < 0.55
        k = rng.randint(2 if dup else 1, 4) if not big else rng.choice([9, 10, 11, 16, 17, 25])
        if not dup:
            k = min(k, nnames)
            names = rng.sample(range(1, nnames + 1), k)
        else:
            names = [rng.randint(1, min(nnames, 4)) for _ in range(k)]
            if len(set(names)) == len(names):
                names[-1] = names[0]
        fs = []
        for n in names:
            c = []
            if rng.random() < 0.4:
                c = [["C", al.new("C", rng)] for _ in range(rng.choice([1, 1, 2]))]
            fs.append({"n": n, "s": rng.choice("UL"), "c": c, "v": gen_text(rng, al)})
        doc.append({"t": "p", "dup": dup, "fs": fs, "id": 0})
        if pi < npar - 1 or rng.random() < 0.3:
            doc.append(sep())
    if doc[-1]["t"] == "p" and rng.random() < 0.4:
        doc[-1]["fs"][-1]["v"].pop()          # the file ends without a newline
    return doc


OPW = [("get", 6), ("has", 2), ("kv", 1), ("set", 6), ("del", 1), ("raw", 2), ("simple", 1), ("cmt", 1), ("val", 1)]
MODES = ["default", "default", "keep", "drop", "list", "list", "conflict"]


def gen_event(rng, al, sess, palette, nnames):
    paras = sess.paras
    p = rng.randint(1, len(paras))
    par = paras[p - 1]
    rank = {b.lower(): n for n, b in sess.conc.base.items()}
    present = [rank.get(str(k).lower(), 0) for k in par.keys()]
    n = rng.choice(present) if present and rng.random() < 0.75 else rng.randint(1, nnames)
    cnt = present.count(n)
    i = rng.choice([-1, -1, -1, 0, 0, 1, cnt - 1 if cnt else 0, cnt, rng.randint(0, max(0, cnt - 1))])
    op = rng.choices([o for o, _ in OPW], weights=[w for _, w in OPW])[0]
    w = rng.choice(palette) if rng.random() < 0.8 else rng.randrange(32)
    ev = {"op": op, "p": p, "k": [n, max(i, -1)], "w": w, "s": rng.choice("UL"), "x": [], "mode": "default", "cl": [],
          "j": 1, "j2": 1, "src": "none", "ug": rng.random() < 0.5}
    if op == "has":
        ev["k"][1] = -1
    if op == "set":
        ev["x"] = gen_input(rng, al)
    elif op == "del":
        hit = cnt if i == -1 else (1 if 0 <= i < cnt else 0)
        if hit and hit >= len(present):
            return None                      # never empty a paragraph
    elif op in ("raw", "simple"):
        ev["mode"] = rng.choice(MODES)
        if ev["mode"] in ("list", "conflict") and not (ev["mode"] == "conflict" and rng.random() < 0.3):
            k = rng.choice([0, 1, 1, 2, 3, 5])
            ev["cl"] = [[rng.choice("xhspe" if rng.random() < 0.95 else ["bad"]), al.new("b", rng)] for _ in range(k)]
            for it in ev["cl"]:
                if it[0] == "e":
                    it[1] = 0
        if ev["mode"] == "conflict":
            pass
        if op == "raw":
            t = gen_input(rng, al)
            if rng.random() < 0.7:
                t = drop_blank(t)
                if not t or t[-1] != ["N", 0]:
                    t = t + [["N", 0]]
            ev["x"] = t
        else:
            t = gen_input(rng, al)
            ev["x"] = [q for q in t if q[0] in "LFT"] if rng.random() < 0.8 else t
    elif op in ("cmt", "val"):
        kvs = sess.kvpairs(p)
        ev["j"] = rng.randint(1, len(kvs))
        ev["j2"] = ev["j"]
        if op == "cmt":
            ev["src"] = rng.choice(["none", "new", "new", "bad", "move", "move"])
            if ev["src"] == "move":
                cand = [j + 1 for j, kv in enumerate(kvs) if kv.comment_element is not None and j + 1 != ev["j"]]
                if not cand:
                    ev["src"] = "new"
                else:
                    ev["j2"] = rng.choice(cand)
        else:
            t = drop_blank(gen_input(rng, al))
            while t and t[-1][0] == "C":
                t.pop()
            while len(t) >= 2 and t[-1] == ["N", 0] and t[-2][0] == "C":
                t = t[:-2]
            if not t or t[-1] != ["N", 0]:
                t = t + [["N", 0]]
            ev["x"] = t
    return ev


def to_res(obs, conc):
    if obs[0] == "val":
        return {"e": "val", "t": conc.lex_value(obs[1])}
    if obs[0] == "kv":
        return {"e": "kv", "t": [["P", obs[1]]]}
    return {"e": obs[0], "t": []}


def record_trace(seed, nops, big=False, stress=False, script=None, conc_json=None, start=None):
    """one recorded history: random document, views alive from the start and created on the way, random calls;
    every event carries the outcome and the projection of the whole document after the call"""
    rng = random.Random(seed)
    al = Alloc()
    nnames = 5 if not big else 30
    if script is None:
        start = random_doc(rng, al, nnames, big)
        conc = Conc(seed, canonical=False, stress=stress or big)
    else:
        conc = Conc.from_json(conc_json)
    text = conc.doc_text(start)
    f = rc.parse(text, rng)
    sess = Session(f, conc, rng)
    init = project(f, conc)
    palette = rng.sample(range(32), 5) + [31, 0]
    for p in range(1, len(sess.paras) + 1):          # leak probe: views alive before the first edit
        for k in palette:
            sess.view(p, k, fresh=1.0)
    events = []
    calls = []
    todo = list(script) if script is not None else None
    step = 0
    while (todo if script is not None else step < nops):
        step += 1
        if script is not None:
            ev = todo.pop(0)
        else:
            ev = gen_event(rng, al, sess, palette, nnames)
            if ev is None:
                continue
        calls.append(dict(ev))
        obs = perform(sess, ev, rng)
        e = dict(ev)
        e["res"] = to_res(obs, conc)
        e["obs"] = project(f, conc)
        events.append(e)
        if script is None and ev["op"] in ("set", "raw", "val") and obs[0] == "ok" and rng.random() < 0.6:
            # leak probe: what was just written is read through OTHER views (older and new ones) right away
            for k in rng.sample(palette, 2):
                ev2 = dict(ev, op="get", w=k, x=[], cl=[], mode="default")
                if ev["op"] == "val":
                    continue
                calls.append(dict(ev2))
                obs2 = perform(sess, ev2, rng)
                e2 = dict(ev2)
                e2["res"] = to_res(obs2, conc)
                e2["obs"] = project(f, conc)
                events.append(e2)
    return {"init": init, "events": events, "start_text": text, "start": start, "conc": conc.to_json(), "seed": seed,
            "calls": calls, "dumped": f.dump(), "init_ok": init == start}


def _rec_task(a):
    seed, nops, big, stress = a
    try:
        return record_trace(seed, nops, big=big, stress=stress)
    except core.MachineryError as ex:
        return ("machinery", str(ex))
    except Exception as ex:
        import traceback
        if not core.raised_by_code_under_test(ex):
            return ("machinery", traceback.format_exc()[-1500:])
        return ("crash", "%s: %s" % (type(ex).__name__, traceback.format_exc().strip().splitlines()[-3:]))


def corrupt(t, how):
    """a corrupted copy of a recorded history that the trace module must reject (None when not applicable)"""
    import copy
    t = {"init": t["init"], "events": copy.deepcopy(t["events"])}
    for e in t["events"]:
        r = e["res"]
        if how == "readnl" and e["op"] == "get" and r["e"] == "val":
            if r["t"] and r["t"][-1] == ["N", 0]:
                r["t"].pop()
            else:
                r["t"].append(["N", 0])
            return t
        if how == "readc" and e["op"] == "get" and r["e"] == "val" and any(q[0] == "C" for q in r["t"]):
            j = [q[0] for q in r["t"]].index("C")
            del r["t"][j:j + 2]
            return t
        if how == "readws" and e["op"] == "get" and r["e"] == "val" and r["t"] and r["t"][0][0] == "F":
            r["t"].insert(0, ["L", 1])
            return t
        if how == "amb" and r["e"] == "Ambiguous" and e["op"] in ("get", "has", "kv"):
            r["e"] = "KeyError"
            return t
        if how == "hasflip" and e["op"] == "has" and r["e"] in ("true", "false"):
            r["e"] = "true" if r["e"] == "false" else "false"
            return t
        # (only calls that are certainly inside the domain of the statement: a resolving view, a usable key)
        if e["op"] == "set" and r["e"] == "ok" and e["w"] & 4 and how in ("cmt", "ws", "frame", "others"):
            fs = [x for x in e["obs"] if x["t"] == "p"][e["p"] - 1]["fs"]
            tg = [x for x in fs if x["n"] == e["k"][0]]
            if not tg:
                continue
            x = tg[0] if e["k"][1] < 0 else (tg[e["k"][1]] if e["k"][1] < len(tg) else None)
            if x is None:
                continue
            if how == "cmt":
                x["c"] = [] if x["c"] else [["C", 1]]
                return t
            if how == "ws":
                if x["v"] and x["v"][0] == ["L", 1]:
                    x["v"].pop(0)
                else:
                    x["v"].insert(0, ["L", 1])
                return t
            oth = [y for y in fs if y["n"] != e["k"][0]]
            if how == "frame" and oth:
                oth[0]["v"] = oth[0]["v"] + [["V", 1], ["N", 0]]
                return t
            if how == "others" and e["k"][1] < 0 and len(tg) == 1:
                fs.append(dict(tg[0]))        # a second occurrence survives a plain assignment
                return t
        if how == "errwrites" and r["e"] == "ValueError" and e["op"] == "set" and e["w"] & 4 and e["k"][1] == -1:
            fs = [x for x in e["obs"] if x["t"] == "p"][e["p"] - 1]["fs"]
            fs[0]["c"] = fs[0]["c"] + [["C", 2]]
            return t
    return None


CONTROL_KINDS = ("readnl", "readc", "readws", "amb", "hasflip", "cmt", "ws", "frame", "others", "errwrites")
EVKEYS = ("op", "p", "k", "w", "s", "x", "mode", "cl", "j", "j2", "src", "ug", "res", "obs")


def validate(ctx, traces, with_controls=True, known=None):
    known = KNOWN_IDS if known is None else known
    tl = [{"init": t["init"], "events": [{k: e[k] for k in EVKEYS} for e in t["events"]]} for t in traces]
    controls, made = [], {}
    if with_controls:
        for how in CONTROL_KINDS:
            for t in tl:
                c = corrupt(t, how)
                if c:
                    controls.append(c)
                    made[how] = made.get(how, 0) + 1
                    break
    env = {"TRACE_DIAG": "0", "KNOWN_BLANK": "1" if K_BLANK in known else "0", "KNOWN_CONT": "1" if K_CONT in known else "0"}
    acc, _, r = core.validate_traces(ctx, "TraceReproView", "TraceReproView.cfg", tl, extra_env=env, controls=controls)
    rejected = [i for i in range(1, len(tl) + 1) if i not in acc]
    notes = {}
    for v in r.printed.get("REJECT", []):
        if isinstance(v, list) and len(v) >= 2 and v[0] in acc and v[0] <= len(tl):
            notes.setdefault(v[0], set()).add(K_BLANK if v[1] == "known-blank" else K_CONT)
    info = {}
    if rejected:
        pick = rejected[:5]
        env["TRACE_DIAG"] = "1"
        _, prog, _ = core.validate_traces(ctx, "TraceReproView", "TraceReproView.cfg", [tl[i - 1] for i in pick], extra_env=env)
        for j, i in enumerate(pick):
            info[i] = prog.get(j + 1, 0)
    return rejected, info, made, notes


# ------------------------------------------------------------------ configurations
def cfg_text(base, **sub):
    """a configuration derived from spec/<base> by replacing the right-hand side of constants"""
    txt = open(os.path.join(core.SPEC, base)).read()
    for k, v in sub.items():
        txt, n = re.subn(r"(?m)^  %s (=|<-) .*$" % k, lambda m: "  %s %s" % (k, v), txt)
        if n != 1:
            raise core.MachineryError("constant %s not found in %s" % (k, base))
    return txt


EMIT_OPS = '= {"reads", "has", "kv", "set", "del", "raw", "simple", "cmt", "val"}'


def emit_cfg(base, start, **sub):
    sub.setdefault("XOps", EMIT_OPS)
    return cfg_text(base, Start="<- " + start, Emit="= TRUE", **sub)


def run(ctx):
    quick = ctx.tier == "quick"
    rng = ctx.rng
    hits = {}
    ctx.assumptions += [
        "text is modelled as pieces (blanks after the colon, first-line content, blanks behind it, newline, blocks of continuation lines, blocks of comment lines, blank-only lines); the concretization gives every piece a text (sizes 1..8193 characters, 1..257 lines per block, Unicode stress) and lexes real text back by exact lookup",
        "first-line content does not start or end with a character of str.isspace() other than blank/tab (str.strip() would remove it: NBSP, U+3000 ... -- whether that is 'unnecessary whitespace' is not specified); no str.splitlines() boundary characters inside a line",
        "unspecified (executed, any outcome accepted; decided by SetDomain/DelDomain/RawDomain of the spec): writing an ambiguous plain name through a view with auto_resolve_ambiguous_fields=False and preserve_field_comments_on_field_updates=False, deleting an ambiguous plain name through a non-resolving view, calls with more than one cause of failure (error precedence), emptying a paragraph",
        "the final newline of a SINGLE-line value is hidden iff auto_map_initial_line_whitespace (docstring: 'all space including newline is pruned'), not iff auto_map_final_newline_in_multiline_values ('... in multiline values'): view['F'] = 'x' through (ws=False, nl=True) reads back 'x\\n' (negative control StrictNl)",
        "as_interpreted_dict_view: the key resolution and the words of non-empty values are judged (list views themselves are C11/X04; empty lists are unspecified there)",
        "exception classes: KeyError and IndexError are interchangeable for an index out of range (as in C05)",
        "trusted: TLC, the concretizer and its lexer, dump()/convert_to_text() byte comparison",
    ]
    design = {}
    emitted = {}

    def design_run():
        try:
            runs = []
            w = 3 if quick else 4
            plan = [("MC_ReproView_N.cfg", "MC_ReproView_N.cfg")]
            if not quick:
                plan += [("MC_ReproView_D.cfg", "MC_ReproView_D.cfg"), ("MC_ReproView_E.cfg", "MC_ReproView_E.cfg"),
                         ("MC_ReproView_H.cfg", "MC_ReproView_H.cfg"),
                         ("MC_ReproView_H.cfg[StartT]", cfg_text("MC_ReproView_H.cfg", Start="<- StartT")),
                         ("MC_ReproView_H.cfg[MaxW=3,XTiny]", cfg_text("MC_ReproView_H.cfg", MaxW="= 3", XVals="<- XTiny", RawVals="<- RawH",
                                                                      SimpleVals="<- SimpleB", Modes="<- ModesH"))]
            for name, cfg in plan:
                runs.append((name, ctx.tlc_must_hold("MC_ReproView", cfg, workers=w)))
            design["runs"] = runs
            neg = {}
            todo = [("MC_ReproView_find_blank.cfg", ("RoundTrip", "Rejects")), ("MC_ReproView_find_cont.cfg", ("ArResolves",)),
                    ("MC_ReproView_neg_stale.cfg", ("ViewsShare",)), ("MC_ReproView_neg_strict.cfg", ("ReadAgree",))]
            if not quick:
                todo += [("MC_ReproView_neg_keeps.cfg", ("CommentKept",)), ("MC_ReproView_neg_readc.cfg", ("ReadAgree", "ReadShape"))]
            for cfg, invs in todo:
                r = ctx.tlc("MC_ReproView", cfg, count=False, workers=2)
                if r.violated not in invs:
                    raise core.MachineryError("negative control %s: expected %s to fail, TLC says %r" % (cfg, "/".join(invs), r.violated))
                neg[cfg] = r.violated
            design["neg"] = neg
        except BaseException as e:
            design["error"] = e

    def emit_one(name, cfg):
        try:
            r = ctx.tlc_must_hold("MC_ReproView", cfg, workers=1, keep_raw=True, want_tags=set())
            r.edges = read_edges(r.raw_path)          # parsed here, while the other runs are still busy
            emitted[name] = r
        except BaseException as e:
            emitted[name] = e

    if quick:
        xq = "<- XQa" if ctx.seed % 2 == 0 else "<- XQb"
        emits = [("N", emit_cfg("MC_ReproView_N.cfg", "StartN", XVals=xq)),
                 ("D", emit_cfg("MC_ReproView_N.cfg", "StartD", XVals=xq, RawVals="<- RawD", SimpleVals="<- SimpleB", Modes="<- ModesD")),
                 ("E", emit_cfg("MC_ReproView_N.cfg", "StartE", XVals=xq, RawVals="<- RawE", SimpleVals="<- SimpleA", Modes="<- ModesE")),
                 ("H", emit_cfg("MC_ReproView_H.cfg", "StartS" if ctx.seed % 2 else "StartT", XVals="<- XTiny", RawVals="<- RawH", SimpleVals="<- SimpleB",
                                Modes="<- ModesH", XOps='= {"reads", "set", "del", "raw", "cmt"}'))]
    else:
        emits = [("N", emit_cfg("MC_ReproView_N.cfg", "StartN")), ("D", emit_cfg("MC_ReproView_N.cfg", "StartD")),
                 ("E", emit_cfg("MC_ReproView_N.cfg", "StartE")),
                 ("HS", emit_cfg("MC_ReproView_H.cfg", "StartS")), ("HT", emit_cfg("MC_ReproView_H.cfg", "StartT"))]
    threads = [threading.Thread(target=design_run)] + [threading.Thread(target=emit_one, args=e) for e in emits]
    tm = {"t0": time.time()}
    # ---- code -> spec: recorded histories (worker processes are forked before any thread exists), validated by TLC
    from multiprocessing import get_context
    ntr, nops = (220, 22) if quick else (2400, 30)
    nbig = 6 if quick else 60
    base = rng.getrandbits(30)
    rec_args = [(base + ti, nops if ti < ntr else nops * 3, ti >= ntr, ti % 8 == 5) for ti in range(ntr + nbig)]
    pool = get_context("fork").Pool(min(core.NCPU, 8))
    rec_async = pool.map_async(_rec_task, rec_args, chunksize=4)
    try:
        for th in threads:
            th.start()
        traces = []
        for a, out in zip(rec_args, rec_async.get()):
            if isinstance(out, dict):
                traces.append(out)
            elif out[0] == "machinery":
                raise core.MachineryError("while recording a history (seed %d): %s" % (a[0], out[1]))
            elif len(ctx.violations) < 3:
                ctx.violation({"kind": "record-crash", "seed": a[0], "nops": a[1], "big": a[2], "stress": a[3]},
                              "unexpected exception from the library while recording a history: %s" % out[1])
        pool.close()
        tm["recorded"] = time.time()
        for t in traces:
            if not t["init_ok"] and len(ctx.violations) < 3:
                ctx.violation({"kind": "parse", "seed": t["seed"], "text": t["start_text"]},
                              "the parsed document %r does not project back to the model document it was rendered from: %s vs %s"
                              % (t["start_text"], json.dumps(t["init"])[:600], json.dumps(t["start"])[:600]))
        chunk = 500
        nrej = 0
        ctl = {}
        parts = [traces[a:a + chunk] for a in range(0, len(traces), chunk)]
        from concurrent.futures import ThreadPoolExecutor
        with ThreadPoolExecutor(max_workers=4) as tpe:          # the chunks are validated by parallel TLC runs
            results = list(tpe.map(lambda part: validate(ctx, part), parts))
        for part, (rejected, info, made, notes) in zip(parts, results):
            for k, v in made.items():
                ctl[k] = ctl.get(k, 0) + v
            for ids in notes.values():
                for kid in ids:
                    hits[kid] = hits.get(kid, 0) + 1
            nrej += len(rejected)
            for i in rejected[:3]:
                t = part[i - 1]
                at = info.get(i, 0)
                ev = t["events"][at] if at < len(t["events"]) else None
                before = t["events"][at - 1]["obs"] if at > 0 else t["init"]
                conc = Conc.from_json(t["conc"])
                if len(ctx.violations) < 4:
                    ctx.violation({"kind": "trace", "seed": t["seed"], "calls": t["calls"][:at + 1], "conc": t["conc"], "start": t["start"]},
                                  "recorded history not explained by ReproView: document %r, event %d %s -> outcome %s; document before %r, after %r"
                                  % (t["start_text"][:1500], at + 1, json.dumps({k: ev[k] for k in EVKEYS if k not in ("obs", "res")}) if ev else None,
                                     ev and json.dumps(ev["res"]), conc.doc_text(before)[:1500], ev and conc.doc_text(ev["obs"])[:1500]))
        missing = [k for k in CONTROL_KINDS if not ctl.get(k)]
        if missing and not ctx.violations:
            raise core.MachineryError("no corrupted control trace of kind %s could be made" % missing)
        ctx.traces += len(traces)
        ctx.evaluations += sum(len(t["events"]) for t in traces)
        for t in traces[:400]:
            for e in t["events"]:
                ctx.distinct.add(("ev", e["op"], e["w"] if e["op"] in ("get", "set", "has", "del") else 0, e["res"]["e"]))
        t0 = traces[0]
        ctx.sample("recorded history on %r: %s" % (t0["start_text"][:300], json.dumps(
            [{k: e[k] for k in ("op", "p", "k", "w")} | {"res": e["res"]["e"]} for e in t0["events"][:5]], separators=(",", ":"))))
        ctx.extra["traces_recorded"] = len(traces)
        ctx.extra["traces_rejected"] = nrej
        ctx.extra["trace_events"] = sum(len(t["events"]) for t in traces)
        ctx.extra["trace_controls"] = ctl
        per = {}
        for t in traces:
            for e in t["events"]:
                per[e["op"]] = per.get(e["op"], 0) + 1
        ctx.extra["trace_events_per_action"] = per
        ctx.extra["trace_max_fields"] = max(sum(len(p_["fs"]) for p_ in t["init"]) for t in traces)
        ctx.extra["trace_max_value_chars"] = max(len(t["start_text"]) for t in traces)
        tm["validated"] = time.time()
        # ---- spec -> code: the LTS of every emission configuration replayed (no thread alive when the pool forks)
        for th in threads:
            th.join()
        if "error" in design:
            raise design["error"]
        runs = []
        for name, _ in emits:
            r = emitted.get(name)
            if isinstance(r, BaseException):
                raise r
            runs.append((name, r.edges))
        tm["emitted"] = time.time()
        if quick:
            replay_leg(ctx, runs, 700, 1, 6, hits, nprobes=12)
        else:
            replay_leg(ctx, runs, 10 ** 9, 2, 5, hits, nprobes=40)
        tm["replayed"] = time.time()
    finally:
        pool.terminate()
        for th in threads:
            if th.ident is not None:
                th.join()
    if "error" in design:
        raise design["error"]
    ctx.extra["phase_s"] = {k: round(v - tm["t0"], 1) for k, v in tm.items() if k != "t0"}
    ctx.extra["model"] = {"design_runs": [{"cfg": c, "distinct": r.distinct, "generated": r.generated, "wall_s": round(r.wall, 1)} for c, r in design["runs"]],
                          "emission_runs": {n: {"distinct": emitted[n].distinct, "generated": emitted[n].generated, "wall_s": round(emitted[n].wall, 1)} for n, _ in emits},
                          "negative_controls": design.get("neg")}
    ctx.extra["known_findings"] = {k["id"]: hits.get(k["id"], 0) for k in KNOWN}
    ctx.extra["extra"] = {"title": EXTRA["title"]}
    for k in KNOWN:
        if hits.get(k["id"]):
            print("KNOWN-FINDING: extra=X10 %s (%d occurrences; id=%s)" % (k["signature"], hits[k["id"]], k["id"]))


def replay(ctx, case):
    if case["kind"] == "path":
        msg, known, _ = run_path(case["start"], case["path"], case["probes"], case["seed"], case["canonical"], case["stress"])
        return msg
    if case["kind"] == "trace":
        t = record_trace(case["seed"], 0, script=case["calls"], conc_json=case["conc"], start=case["start"])
        rejected, info, _, _ = validate(ctx, [t], with_controls=False)
        if rejected:
            at = info.get(1, 0)
            ev = t["events"][at] if at < len(t["events"]) else None
            return "history still not explained by the specification at event %d: %s" % (at + 1, json.dumps(ev and {k: ev[k] for k in EVKEYS if k != "obs"})[:800])
        return None
    if case["kind"] == "parse":
        t = record_trace(case["seed"], 0)
        return None if t["init_ok"] else "the parsed document still does not project back"
    if case["kind"] == "record-crash":
        try:
            record_trace(case["seed"], case["nops"] * (3 if case["big"] else 1), big=case["big"], stress=case["stress"])
        except Exception as ex:
            return "still raises %s" % type(ex).__name__
        return None
    return "unknown case kind"
