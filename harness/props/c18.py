"""C18 -- ed-style patch scripts are applied exactly.

spec:      spec/EdScript.tla       reference (EdApply/EdRun/Target), text layer (ScriptLines,
                                   Corruptions), implementation layer (Parse = the line automaton of
                                   patches_from_ed_script, SliceAssign/ImplRun = patch_lines)
           spec/TraceEdScript.tla  trace validation re-using EdApply / Parse
model checking (bounded): every buffer of <= 3 (thorough 4) lines over 2 line ids x every generator
           script of <= 2 (thorough 3) commands with blocks of 1..2 lines: ImplEqualsEd,
           TargetReached, StructureConsistent, SequentiallyValid, CorruptRaises.  Quick replays
           every state of its bound; thorough model-checks the full bound (1.9 M states) and
           replays every state of the sub-bounds 4 lines x 2 commands and 3 lines x 3 commands.
           Spec-level negative controls, re-run in every check (each must make TLC report the named
           invariant): OffByOne -> ImplEqualsEd, AcceptUnterminated (the code before commit
           11ace49) -> CorruptRaises, Ascending -> TargetReached.
binding:   (a) every CASE line of TLC (old, script, expected new) and every CORRUPT line
               (corrupted token sequence, expected outcome) is concretized (str and bytes, several
               newline styles and source kinds: list / tuple / iterator / generator / file-like /
               readline-iterator) and replayed into
               patch_lines(list(old), patches_from_ed_script(source));
           (a') no state between calls: for every case (thorough: 1 in 4) one materialised
               patches list is applied to two copies of old (copy 1 mutated in between), the script
               is parsed twice with the first parse's hunk lists mutated in between, two generators
               over two different scripts are advanced alternately, and the caller's script / old
               lists must stay untouched; expected results are TLC's;
           (a") size stress (notes/SIZE_STRESS.md): the abstract case does not change, its
               concretization gets a size dimension -- every abstract line stands for a run of r
               concrete lines (files of 2..100000 lines, cut so that addresses fall next to
               9/10, 99/100, ..., 99999/100000: 1..6 digit line numbers), every text line for a run
               of up to 1025 lines, lines up to 64 KiB, identical lines sharing one object.  The
               expected result is the expansion of the tag structure `tnew` that TLC computes for
               the case (EdScript.tla, Structure / StructureConsistent: length-independent by
               construction).  Numbers >= 2**31 occur only syntactically (in corrupted command
               lines, must raise ValueError) and in the unspecified zone;
           (b) random (old, new) pairs, script from an independent differ (difflib opcodes emitted
               bottom-up in three styles; thorough: /usr/bin/diff -e), the real code applies every
               script prefix and the whole script; TLC (TraceEdScript) applies the logged commands
               with EdApply and must reach every observed buffer and `new`; randomly corrupted
               scripts are logged as token sequences and Parse must predict the outcome.
           (b') size stress in the recorded executions: files of 9..1001 lines with scripts of
               100+ commands validated line by line by TLC; files of 10^4 / 10^5 lines as scaled
               executions (runs of distinct lines, observed result collapsed run by run to line ids
               before TLC applies the logged commands to the abstract buffer); 64 KiB lines;
               thorough: diff -e on files up to 1001 lines.
API surface (notes/API_SURFACE.md) -- every public way of parsing / applying an ed script:
  entry point / variant                                   exercised by
  ------------------------------------------------------  ---------------------------------------------
  patches_from_ed_script(source), str lines               all legs (primary path), half of all calls
  patches_from_ed_script(source), bytes lines (auto-      all legs; str and bytes scripts alternate by
      detected pattern)                                       case hash within one process, both orders
  ... re_cmd given explicitly, positionally / keyword     replay (cases, corruptions, scaled), final call
      (standard pattern, str and bytes; `source=` too)        of every trace, stateless leg (2nd parse,
                                                              interleaved parser); auto and explicit calls
                                                              alternate in one process, both orders
  ... re_cmd = a pattern tolerating blanks after the      replay of TLC cases: the command lines carry
      command letter (custom command syntax)                  the blanks, same abstract case, same verdict
  ... re_cmd of the other type (str pattern, bytes lines) out of domain (TypeError from re, caller's error)
  source = list / tuple / iterator / generator / text     all legs, rotating (bare-line style only with
      and binary file object / iter(f.readline, '')           in-memory sequences)
  source = file NAME                                      not accepted by the function (iterates characters)
  patchesFromEdScript (function_deprecated_by)            replay rotating sample, traces (final call),
                                                              stateless leg (first parse)
  patch_lines(lines, patches), patches = generator        all legs (primary path)
  ... patches = list / tuple / iterator of triples        replay rotating sample, traces, stateless leg
  ... keyword arguments lines=, patches=                  replay rotating sample, traces
  patch_lines on anything but a list (tuple, str)         out of domain: documented "Updates lines in place"
  patchLines (function_deprecated_by)                     replay rotating sample, traces, stateless leg
  update_file(remote, local) -> download + patch_lines    indirect user, covered by C19 (UpdateFile); its
                                                              call patch_lines(lines, patches_from_ed_script(
                                                              list of str)) is the primary path here
  _patch_re / _patch_re_b, read_lines_sha1, replace_file  private / not part of the statement
verdict observables: result list == expected (TLC), ValueError for every corruption.
unspecified (executed, any outcome accepted, recorded in the evidence): 0c, 0d, reversed ranges,
           addresses beyond the buffer, non-ASCII digits, empty text blocks, white space / CR /
           print suffix around a command, relative addresses; a line that is exactly "." never
           occurs in file content (DESIGN D7); '' never occurs as a script line.
"""
import copy
import difflib
import io
import json
import os
import re
import subprocess
import zlib

import core

MANIFEST = dict(
    technique="TLA+ spec EdScript (ed reference semantics + declarative diff target + line automaton of patches_from_ed_script + slice assignment of patch_lines) model-checked by TLC over all bounded buffers x generator scripts x single corruptions; every TLC case replayed into the real functions (str/bytes, list/iterator/file-like sources); recorded executions on difflib / diff -e scripts validated by TLC (TraceEdScript)",
    text="TLC enumerates every buffer of at most 4 lines over 2 line ids and every script of at most 3 commands that a bottom-up differ can emit (a/c/d, one- and two-address forms, blocks of 1-2 lines, hunks that touch) and checks in each state that the (first,last,lines) conversion plus slice assignment equals ed's semantics, that command-by-command application reaches the declarative target of the diff, and that the parser automaton rejects every script with one syntactic corruption (8 kinds). Each enumerated case and corruption carries TLC's expected result and is replayed into patches_from_ed_script/patch_lines with str and bytes concretizations (lines such as '..', '.x', '1d', '2,3c', empty, non-ASCII) from list, iterator and file-like sources; for every case the check also shows that no state survives between calls (one materialised patches list applied to two buffers, the script parsed twice with the first parse's hunk lists mutated in between, two parsers over different scripts advanced alternately, caller's lists untouched). Every public entry point (camelCase aliases, explicit re_cmd positional/keyword, a custom re_cmd, patches as generator/list/tuple/iterator, keyword calls) is exercised on a rotating half of all calls with the same TLC verdicts, str and bytes interleaved in one process. Size stress in both directions: the same abstract cases are also concretized with every abstract line standing for a run of lines (files up to 100000 lines with addresses next to every power of ten, hunks up to 1025 lines, 64 KiB lines; the expected result is the expansion of the tag structure TLC computes for the case), and recorded executions include scripts of 100+ commands on files of 1000 lines (validated line by line by TLC) and of 10^4/10^5 lines (collapsed run by run). In the other direction random (old,new) pairs up to 30 lines get a script from an independent differ (difflib in three emission styles; diff -e in the thorough tier); the real code's result for every script prefix and for the whole script is logged and TLC must explain it with EdApply and reach new.",
    note="Small-scope for the exhaustive part (buffers <= 4 lines, scripts <= 3 commands); line text is sampled. Semantically odd commands (0c, 0d, reversed ranges, out-of-range addresses, non-ASCII digits, empty blocks, white space around commands) are executed but unspecified. Trusted: TLC, the concretizer, difflib/diff -e as script sources, the small parser that reads diff -e output back into a command list (a wrong parse is rejected by TLC, never accepted). Three spec-level negative controls and corrupted control traces are required to fail in every run.",
    design="5 (C18)")

NEG_CONTROLS = [("OffByOne", "ImplEqualsEd"), ("AcceptUnterminated", "CorruptRaises"), ("Ascending", "TargetReached")]

# ------------------------------------------------------------------ concretization
# file content per DESIGN D7: anything but a line that is exactly "."
POOL = ["..", ".x", "1d", "2,3c", "0a", "", "é中 ü", " .", ". ", "a", "foo bar", "\t", "1", ",", "d",
        "x.", "...", "0", "Package: x", "12,13d", ".\t", "#", "c", "1,2", "3a ", " 1d", "1D", "٣d", "-", ".a", "$"]
# A line is whatever ends in "\\n": characters that Python's str.splitlines (but not the line format,
# and not bytes.splitlines) treats as line boundaries are ordinary content -- in the middle of a
# line, at its start, right before the final newline, and next to a dot (look-alikes of the
# terminator).  The UTF-8 twins are used for bytes.  Only ".\\r" is left out (a CR right before the
# newline of a dot line is the CRLF spelling of the terminator: unspecified, run in unspecified_zone).
BOUNDARY_CHARS = ["\x0b", "\x0c", "\x1c", "\x1d", "\x1e", "\x85", "\u2028", "\u2029", "\r"]
POOL += [f % c for c in BOUNDARY_CHARS for f in ("a%sb", "%sx", "x%s", "%s.", ".%s", "%s")
         if (f % c) != ".\r"]
BYTES_EXTRA = [b"\xff\xfe", b"caf\xe9", b"\x80.", b"a\x85b", b".\x85", b"\x85."]
CANON = ["A", "B", "C", "D", "E", "F", "G", "H", "I", "J"]
UNKNOWN_LETTERS = ["x", "b", "o", "z", "A", "D", "C", "?", "é"]
GARBAGE_AFTER = ["x", " foo", "1", ".", "a", "!", ",2", "d"]
GARBAGE_BEFORE = ["x", "foo ", "a"]
# SIZE_STRESS.md: boundary neighbourhoods for line lengths, file sizes, hunk sizes
LINE_LENGTHS = [63, 64, 65, 127, 128, 129, 255, 256, 257, 1023, 1024, 1025, 4095, 4096, 4097, 8191, 8192, 8193,
                65535, 65536, 65537]
FILE_SIZES = [2, 9, 10, 11, 99, 100, 101, 999, 1000, 1001, 10000, 100000]
FILE_WEIGHTS = [2, 6, 6, 6, 8, 8, 8, 8, 8, 8, 8, 3]
CUTS = [1, 1, 2, 8, 9, 10, 98, 99, 100, 998, 999, 1000, 9998, 9999, 10000]
BIG_NUMBERS = [2**15, 2**16, 2**31 - 1, 2**31, 2**32 - 1, 2**32, 2**63 - 1, 2**63, 10**18, 10**30]
HUNK_SIZES = [1, 1, 1, 1, 2, 2, 3, 9, 10, 11, 1, 1, 16, 17, 31, 32, 33, 99, 100, 101, 255, 256, 257, 1, 2, 1000, 1024, 1025]
TYPES = ("str", "bytes")
NLS = ("nl", "lastbare", "bare")
SOURCES = ("list", "tuple", "iter", "gen", "file", "readline")
ITER_SOURCES = ("iter", "gen", "file", "readline")


def _pool(typ, nl, safe):
    p = list(POOL)
    if nl == "bare":
        p = [x for x in p if x != ""]          # '' is the readline end-of-stream sentinel
    if safe:
        # text that stands where a command is expected must not be read as a command by ANY
        # reasonable parser: no digit, not blank, not a terminator/comment/address look-alike
        p = [x for x in p if not any(ch.isdigit() for ch in x) and x.strip() not in ("", ".", "#", "-", ",", "$")]
    if typ == "bytes":
        p = [x.encode("utf-8") for x in p] + BYTES_EXTRA
    return p


class Conc:
    """line id -> distinct concrete text; typ: str/bytes; nl: every line ends in a newline /
    all but the last script line / no line has one (a script read with splitlines())"""

    def __init__(self, rng, nids, typ, nl, canonical=False, safe=False, longlines=False):
        self.typ, self.nl = typ, nl
        if canonical:
            texts = CANON[:nids]
            if typ == "bytes":
                texts = [x.encode() for x in texts]
        else:
            texts = rng.sample(_pool(typ, nl, safe), nids)
        if longlines:
            # SIZE_STRESS: very long lines; the pool text stays as prefix so that the line still
            # looks like '..', '1d', ... and the lines stay distinct
            fill = "x" if typ == "str" else b"x"
            texts = [t + fill * max(0, rng.choice(LINE_LENGTHS) - len(t)) for t in texts]
        self.text = {i + 1: t for i, t in enumerate(texts)}
        self.NL = "\n" if typ == "str" else b"\n"
        self.E = "" if typ == "str" else b""

    @classmethod
    def from_text(cls, typ, nl, text):
        c = cls.__new__(cls)
        c.typ, c.nl, c.text = typ, nl, dict(text)
        c.NL = "\n" if typ == "str" else b"\n"
        c.E = "" if typ == "str" else b""
        return c

    def enc(self, s):
        return s if self.typ == "str" else s.encode("utf-8")

    def line(self, i):
        """the concrete buffer/text line of id i (cached: lines may be 64 KiB long)"""
        c = self.__dict__.setdefault("_lines", {})
        if i not in c:
            c[i] = self.text[i] + (self.E if self.nl == "bare" else self.NL)
        return c[i]

    def buf(self, ids):
        return [self.line(i) for i in ids]

    def rev(self):
        return {self.line(i): i for i in self.text}

    def script(self, toks, rng=None, big_at=None):
        """token sequence (EncTok form: [] dot, [id] text, [k, n, m, g] command line) -> lines.
        big_at: index of a (corrupted) command token whose numbers are made huge (>= 2**31)"""
        end = self.E if self.nl == "bare" else self.NL
        out = []
        for idx, tk in enumerate(toks):
            if len(tk) == 0:
                out.append(self.enc(".") + end)
            elif len(tk) == 1:
                out.append(self.line(tk[0]))
            else:
                k, n, m, g = tk
                if idx == big_at:
                    big = rng.choice(BIG_NUMBERS)
                    n, m = (n + big if n >= 0 else n), (m + big if m >= 0 else m)
                if k == "x":
                    k = rng.choice(UNKNOWN_LETTERS) if rng else "x"
                s = ("" if n < 0 else str(n)) + ("" if m < 0 else ",%d" % m) + k
                if g:
                    if rng and rng.random() < 0.25:
                        s = rng.choice(GARBAGE_BEFORE) + s
                    else:
                        s = s + (rng.choice(GARBAGE_AFTER) if rng else "x")
                out.append(self.enc(s) + end)
        if self.nl == "lastbare" and out:
            out[-1] = out[-1][:-1]
        return out

    def to_json(self):
        return {"typ": self.typ, "nl": self.nl, "text": {str(k): v for k, v in self.text.items()}}


def cmd_tokens(script):
    """abstract command list -> tokens (what ScriptLines does in the specification; used for the
    recorded traces, where the script comes from a differ and not from TLC)"""
    toks = []
    for c in script:
        toks.append([c["k"], c["n"], c["m"] if c["r"] else -1, False])
        if c["k"] != "d":
            toks += [[i] for i in c["t"]] + [[]]
    return toks


def tok_record(tk):
    if len(tk) == 0:
        return {"ty": "dot", "k": "-", "n": -1, "m": -1, "g": False, "id": 0}
    if len(tk) == 1:
        return {"ty": "text", "k": "-", "n": -1, "m": -1, "g": False, "id": tk[0]}
    return {"ty": "cmd", "k": tk[0], "n": tk[1], "m": tk[2], "g": tk[3], "id": 0}


# ------------------------------------------------------------------ size-stressed concretization
# The abstract case does not change: every abstract line (tag) stands for a RUN of r >= 1 concrete
# lines and every address for the corresponding prefix sum.  EdApply never looks inside a line, so
# this commutes with ed's semantics (EdScript.tla, Structure / StructureConsistent): the expected
# result of a scaled case is the expansion of the tag structure computed by TLC (replay leg), and
# the observed result of a scaled execution is collapsed run by run to line ids before TLC sees
# it (trace leg).

class Scale:
    def __init__(self, conc, old_ids, runs, unique):
        """runs[p-1] = number of concrete lines the p-th abstract line stands for"""
        self.conc, self.unique = conc, unique
        self.old_ids = list(old_ids)
        self.runs = list(runs)
        self.P = [0]
        for r in self.runs:
            self.P.append(self.P[-1] + r)
        self.segs = [self._run(conc.text[i], "o%d" % (p + 1), r) for p, (i, r) in enumerate(zip(old_ids, runs))]
        self.first = {}
        if unique:
            for seg, i in zip(self.segs, old_ids):
                self.first[seg[0]] = (seg, i)

    def _run(self, text, label, r):
        c = self.conc
        end = c.E if c.nl == "bare" else c.NL
        if not self.unique:
            return [text + end] * r            # identical lines, one shared object
        return [text + c.enc("#%s.%d" % (label, k)) + end for k in range(r)]

    def old_lines(self):
        out = []
        for seg in self.segs:
            out += seg
        return out

    def text_run(self, label, line_id, k):
        run = self._run(self.conc.text[line_id], label, k)
        if self.unique:
            self.first[run[0]] = (run, line_id)
        return run

    def command(self, k, n, m, two):
        """command line for the abstract command k on abstract lines n..m"""
        if k == "a":
            return self.ctl("%da" % self.P[n])
        first, last = self.P[n - 1] + 1, self.P[m]
        if first == last and not two:
            return self.ctl("%d%s" % (first, k))
        return self.ctl("%d,%d%s" % (first, last, k))

    def ctl(self, s):
        """a command line or the terminator"""
        c = self.conc
        return c.enc(s) + (c.E if c.nl == "bare" else c.NL)

    def finish(self, script):
        """a well-formed script ends in a command line or a terminator: strip its newline in the
        'last line without newline' style"""
        if self.conc.nl == "lastbare" and script:
            script[-1] = script[-1][:-1]
        return script

    def collapse(self, lines):
        """observed concrete lines -> line ids, run by run; None when the lines are not a sequence
        of complete runs (then nothing the specification could produce)"""
        out, i, n = [], 0, len(lines)
        while i < n:
            ent = self.first.get(lines[i])
            if ent is None:
                return None
            run, line_id = ent
            if lines[i:i + len(run)] != run:
                return None
            out.append(line_id)
            i += len(run)
        return out


def scale_params(v, hc):
    """choose run lengths for a TLC case: a one-address c/d keeps its one-line segment (the form of
    the command is part of the case), one free segment absorbs the file size, the others get sizes
    that put the addresses next to 9/10, 99/100, 999/1000, 9999/10000"""
    n = len(v["old"])
    forced = {tk[1] for tk in v["lines"] if len(tk) == 4 and tk[0] in "cd" and tk[2] < 0}
    free = [p for p in range(1, n + 1) if p not in forced]
    runs = [1] * n
    if free:
        total = FILE_SIZES[_weighted(hc, FILE_WEIGHTS)]
        big = hc.choice(free)
        for p in free:
            if p != big:
                runs[p - 1] = hc.choice([c for c in CUTS if c < max(2, total // 2)] or [1])
        runs[big - 1] = max(1, total - (sum(runs) - 1))
    ks = {}
    j = i = 0
    for tk in v["lines"]:
        if len(tk) == 4:
            j, i = j + 1, 0
        elif len(tk) == 1:
            i += 1
            ks[str(100 * j + i)] = hc.choice(HUNK_SIZES)
    return {"runs": runs, "hunks": ks, "unique": hc.random() < 0.6}


def _weighted(hc, weights):
    x = hc._next() % sum(weights)
    for i, w in enumerate(weights):
        if x < w:
            return i
        x -= w
    return len(weights) - 1


def build_scaled(v, conc, params):
    """TLC case + run lengths -> (old_lines, script_lines, expected): expected is the expansion of
    the tag structure `tnew` computed by TLC"""
    unique = params["unique"] and max(len(t) for t in conc.text.values()) < 200
    sc = Scale(conc, v["old"], params["runs"], unique)
    script, runs = [], {}
    j = i = 0
    for tk in v["lines"]:
        if len(tk) == 4:
            j, i = j + 1, 0
            script.append(sc.command(tk[0], tk[1], tk[1] if tk[2] < 0 else tk[2], tk[2] >= 0))
        elif len(tk) == 1:
            i += 1
            tag = 100 * j + i
            runs[tag] = sc.text_run("t%d.%d" % (j, i), tk[0], params["hunks"][str(tag)])
            script += runs[tag]
        else:
            script.append(sc.ctl("."))
    expected = []
    for t in v["tnew"]:
        expected += sc.segs[t - 1] if t < 100 else runs[t]
    return sc.old_lines(), sc.finish(script), expected


# ------------------------------------------------------------------ driving the real code

def make_source(lines, kind, typ):
    if kind == "list":
        return list(lines)
    if kind == "tuple":
        return tuple(lines)
    if kind == "iter":
        return iter(list(lines))
    if kind == "gen":
        return (l for l in list(lines))
    joined = ("" if typ == "str" else b"").join(lines)
    f = io.StringIO(joined) if typ == "str" else io.BytesIO(joined)
    if kind == "file":
        return f
    if kind == "readline":
        return iter(f.readline, "" if typ == "str" else b"")
    raise AssertionError(kind)


def usable_source(kind, nl):
    # a file-like object cannot deliver lines without their newline (except the last one)
    return nl != "bare" or kind in ("list", "tuple", "iter", "gen")


# ------------------------------------------------------------------ public entry points (API surface)
# api = "parser/re_cmd/applier/patches":
#   parser   pfes  patches_from_ed_script            alias patchesFromEdScript (function_deprecated_by)
#   re_cmd   auto  not given (detected from the first line)   pos / kw  the standard pattern of the
#            script's type given explicitly (positionally / by keyword, `source` by keyword too)
#            ws    an explicit pattern that tolerates blanks after the command letter; the command
#                  lines of the script then carry such blanks (same abstract case, same verdict)
#   applier  pl    patch_lines     alias patchLines     kw  patch_lines(lines=..., patches=...)
#   patches  gen   the parser's generator as it is    list / tuple / iter  materialised first
DEFAULT_API = "pfes/auto/pl/gen"
_STD = r"^(\d+)(?:,(\d+))?([acd])$"
_WS = r"^(\d+)(?:,(\d+))?([acd])[ \t]*$"
_PATTERNS = {}


def _pattern(typ, ws):
    key = (typ, ws)
    if key not in _PATTERNS:
        raw = _WS if ws else _STD
        _PATTERNS[key] = re.compile(raw if typ == "str" else raw.encode("ascii"))
    return _PATTERNS[key]


def pick_api(hc, allow_ws=True):
    """rotating sample of entry-point variants (half of the calls use the primary one)"""
    if hc.random() < 0.5:
        return DEFAULT_API
    return "/".join((hc.choice(("pfes", "pfes", "alias")),
                     hc.choice(("auto", "pos", "kw", "ws") if allow_ws else ("auto", "pos", "kw")),
                     hc.choice(("pl", "pl", "alias", "kw")),
                     hc.choice(("gen", "gen", "list", "tuple", "iter"))))


def pad_commands(script_lines, toks, typ, hc):
    """blanks after the command letter of every command line (for the `ws` pattern)"""
    out = list(script_lines)
    for i, tk in enumerate(toks):
        if len(tk) == 4:
            pad = hc.choice((" ", "\t", "  "))
            pad = pad if typ == "str" else pad.encode()
            nl = "\n" if typ == "str" else b"\n"
            out[i] = out[i][:-1] + pad + nl if out[i].endswith(nl) else out[i] + pad
    return out


def run_real(old_lines, script_lines, kind, typ, api=None):
    """-> (outcome, resulting list): outcome 'ok' / 'ValueError' / 'EXC:<type>'.  Exceptions of the
    code under test are observations."""
    import debian.debian_support as ds
    if not _PATTERNS.get("warnings-off"):
        import warnings
        warnings.simplefilter("ignore", DeprecationWarning)     # the camelCase aliases warn on every call
        _PATTERNS["warnings-off"] = True
    lines = list(old_lines)
    try:
        src = make_source(script_lines, kind, typ)
        if api is None or api == DEFAULT_API:
            ds.patch_lines(lines, ds.patches_from_ed_script(src))
            return "ok", lines
        parser, recmd, applier, form = api.split("/")
        parse = ds.patches_from_ed_script if parser == "pfes" else ds.patchesFromEdScript
        apply_ = ds.patchLines if applier == "alias" else ds.patch_lines
        if recmd == "auto":
            patches = parse(src)
        elif recmd == "pos":
            patches = parse(src, _pattern(typ, False))
        elif recmd == "kw":
            patches = parse(source=src, re_cmd=_pattern(typ, False))
        else:
            patches = parse(src, re_cmd=_pattern(typ, True))
        if form == "list":
            patches = list(patches)
        elif form == "tuple":
            patches = tuple(patches)
        elif form == "iter":
            patches = iter(list(patches))
        if applier == "kw":
            apply_(lines=lines, patches=patches)
        else:
            apply_(lines, patches)
    except ValueError:
        return "ValueError", None
    except Exception as e:          # noqa: BLE001 -- observation
        return "EXC:" + type(e).__name__, None
    return "ok", lines


def _short(l):
    if len(l) <= 60:
        return repr(l)
    return "%r...(%d chars)...%r" % (l[:24], len(l), l[-12:])


def show(lines):
    if lines is None:
        return "None"
    if len(lines) <= 14:
        return "[" + ", ".join(_short(l) for l in lines) + "]"
    return "[" + ", ".join(_short(l) for l in lines[:8]) + ", ...(%d lines)..., " % len(lines) + ", ".join(_short(l) for l in lines[-4:]) + "]"


def where_differ(got, expected):
    if got is None or expected is None:
        return ""
    for i, (a, b) in enumerate(zip(got, expected)):
        if a != b:
            return " (first difference at line %d: %s instead of %s; %d lines instead of %d)" % (i + 1, _short(a), _short(b), len(got), len(expected))
    return " (%d lines instead of %d)" % (len(got), len(expected))


def _via(kind, api):
    return kind if api in (None, DEFAULT_API) else "%s; entry points %s" % (kind, api)


def check_apply(old_lines, script_lines, expected, kind, typ, api=None):
    res, got = run_real(old_lines, script_lines, kind, typ, api)
    kind = _via(kind, api)
    if res != "ok":
        return "script %s on %s (%s source): %s, specification says result %s" % (
            show(script_lines), show(old_lines), kind, res.replace("EXC:", "raised "), show(expected))
    if got != expected or [type(x) for x in got] != [type(x) for x in expected]:
        return "script %s on %s (%s source): result %s, specification says %s%s" % (
            show(script_lines), show(old_lines), kind, show(got), show(expected), where_differ(got, expected))
    return None


def check_raises(old_lines, script_lines, kind, typ, api=None):
    res, got = run_real(old_lines, script_lines, kind, typ, api)
    kind = _via(kind, api)
    if res != "ValueError":
        return "corrupted script %s (%s source): %s, specification says ValueError" % (
            show(script_lines), kind, ("accepted, result %s" % show(got)) if res == "ok" else res.replace("EXC:", "raised "))
    return None


# ------------------------------------------------------------------ no state between calls
# The property quantifies over ALL (old, new) pairs whatever was processed before: parsing and
# applying must not keep or share state (memoised parses, hunk lists that alias each other or the
# caller's data, a module-level accumulator).  Expected results are TLC's, as everywhere else.

def _hunks(patches):
    """the `lines` lists of materialised patches, or None when a patch is not a (first, last, list)
    triple any more (diagnostic: the hunk-level mutations are then skipped)"""
    try:
        out = [p[2] for p in patches]
        return out if all(isinstance(h, list) for h in out) else None
    except Exception:               # noqa: BLE001
        return None


def check_stateless(A, B, mix=0):
    """A, B: dicts(old_lines, script_lines, expected) of two different TLC cases.
    (1) one materialised patches list applied to two independent copies of old, copy 1 mutated in
        between;  (2) the same script parsed twice (list source), the hunk lists of the first parse
        mutated in between;  (3) two generators over two scripts advanced alternately;
    (4) parsing leaves the caller's script list alone, patch_lines touches only the list it is given.
    mix: bit set of entry-point substitutions, so that one history goes through several public
    ways of doing the same thing (1: first parse through patchesFromEdScript, 2: second parse with
    the standard pattern given explicitly as re_cmd, 4: second application through patchLines,
    8: the interleaved parser of B gets an explicit re_cmd, A's does not)
    -> None or a message"""
    import warnings
    import debian.debian_support as ds
    warnings.simplefilter("ignore", DeprecationWarning)
    patch_lines = ds.patch_lines
    patches_from_ed_script = ds.patches_from_ed_script
    typ = type(A["script_lines"][0]) if A["script_lines"] else type(A["old_lines"][0]) if A["old_lines"] else str
    tname = "str" if typ is str else "bytes"
    btyp = B["script_lines"][0] if B["script_lines"] else (B["old_lines"][0] if B["old_lines"] else "")
    bname = "str" if isinstance(btyp, str) else "bytes"
    junk = "<junk>\n" if typ is str else b"<junk>\n"
    what = "script %s on %s" % (show(A["script_lines"]), show(A["old_lines"]))
    step = "parsing"
    try:
        script = list(A["script_lines"])
        old = list(A["old_lines"])
        exp = list(A["expected"])
        # (1) + (4)
        patches = list((ds.patchesFromEdScript if mix & 1 else patches_from_ed_script)(script))
        if script != A["script_lines"]:
            return "%s: parsing modified the caller's script list: %s" % (what, show(script))
        hunks = _hunks(patches)
        snap = [list(h) for h in hunks] if hunks is not None else None
        step = "applying the materialised patches"
        c1 = list(old)
        patch_lines(c1, patches)
        if c1 != exp:
            return "%s: list(patches_from_ed_script(script)) applied afterwards gives %s, specification says %s" % (what, show(c1), show(exp))
        if old != A["old_lines"] or script != A["script_lines"]:
            return "%s: patch_lines modified a list it was not given" % what
        if hunks is not None and [list(h) for h in hunks] != snap:
            return "%s: patch_lines modified the hunk lists of the patches: %r" % (what, patches)
        c1.reverse()
        c1.append(junk)
        c1[0] = junk
        step = "applying the same patches to a second copy"
        c2 = list(old)
        (ds.patchLines if mix & 4 else patch_lines)(c2, patches)
        if c2 != exp:
            return "%s: the same patches applied to a second copy of the buffer (first result mutated) give %s, specification says %s" % (what, show(c2), show(exp))
        # (2)
        if hunks is not None:
            for h in hunks:
                h[:] = [junk, junk]
        del c2[:]
        step = "parsing the script a second time"
        patches2 = list(patches_from_ed_script(script, re_cmd=_pattern(tname, False)) if mix & 2 and script
                        else patches_from_ed_script(script))
        c3 = list(old)
        patch_lines(c3, patches2)
        if c3 != exp:
            return "%s: second parse of the same script (hunk lists of the first parse mutated) gives %s, specification says %s" % (what, show(c3), show(exp))
        # (3)
        step = "interleaving with the script %s" % show(B["script_lines"])
        ga = patches_from_ed_script(list(A["script_lines"]))
        gb = (patches_from_ed_script(list(B["script_lines"]), _pattern(bname, False)) if mix & 8 and B["script_lines"]
              else patches_from_ed_script(list(B["script_lines"])))
        pa, pb = [], []
        end = object()
        live = [(ga, pa), (gb, pb)]
        while live:
            for g, acc in list(live):
                x = next(g, end)
                if x is end:
                    live.remove((g, acc))
                else:
                    acc.append(x)
        ca, cb = list(old), list(B["old_lines"])
        patch_lines(ca, pa)
        patch_lines(cb, pb)
        if ca != exp:
            return "%s: parsed alternately with the script %s it gives %s, specification says %s" % (what, show(B["script_lines"]), show(ca), show(exp))
        if cb != B["expected"]:
            return "script %s on %s: parsed alternately with the script %s it gives %s, specification says %s" % (
                show(B["script_lines"]), show(B["old_lines"]), show(A["script_lines"]), show(cb), show(B["expected"]))
    except Exception as e:          # noqa: BLE001 -- observation
        return "%s: %s raised %s (%s), specification says result %s" % (what, step, type(e).__name__, e, show(A["expected"]))
    return None


# ------------------------------------------------------------------ TLC output

def cfg_constants(name):
    out = {}
    for line in open(os.path.join(core.SPEC, name)):
        m = re.match(r"^\s+(\w+) = (.+)$", line)
        if m:
            out[m.group(1)] = m.group(2).strip()
    return out


def stream_printed(path):
    """yield (tag, json value, hash of the text) for the <<"TAG", "json">> lines of a raw TLC output file"""
    with open(path, errors="replace") as f:
        for line in f:
            if not line.startswith('<<"C'):
                continue
            line = line.rstrip("\n")
            if not line.endswith('">>'):
                raise core.MachineryError("truncated TLC output line: %r" % line[:120])
            tag, _, rest = line[3:].partition('", "')
            yield tag, json.loads(rest[:-3].replace('\\"', '"')), zlib.crc32(rest.encode())


def spec_negative_controls(ctx):
    """the invariants are not vacuous: each switch to the buggy design must make TLC report it"""
    base = open(os.path.join(core.SPEC, "EdScript_neg.cfg")).read()
    done = {}
    for const, inv in NEG_CONTROLS:
        cfg = base.replace("%s = FALSE" % const, "%s = TRUE" % const)
        assert cfg != base
        r = ctx.tlc("EdScript", cfg, workers=1, count=False)
        if r.violated != inv:
            raise core.MachineryError("negative control %s: expected TLC to report %s, got %r" % (const, inv, r.violated))
        done[const] = inv
    ctx.extra["spec_negative_controls"] = done


# ------------------------------------------------------------------ (a) replay of TLC's cases

class HashChoice:
    """choices derived from the content of a case (TLC's output order depends on thread timing;
    what is done with a case must not)"""

    def __init__(self, h):
        self.h = h

    def _next(self):
        self.h = (self.h * 1103515245 + 12345) & 0x7FFFFFFF
        return self.h >> 8

    def choice(self, seq):
        return seq[self._next() % len(seq)]

    def random(self):
        return (self._next() % 10007) / 10007.0


def replay_cases(ctx, raw_paths, maxbuf, quick):
    rng = ctx.rng
    nids = 2
    # pre-drawn concretizations (seeded), selected per case by a hash of the case
    concs = {}
    for typ in TYPES:
        for nl in NLS:
            concs[(typ, nl, False)] = [Conc(rng, nids, typ, nl, canonical=(i == 0), longlines=(i >= 20)) for i in range(24)]
            concs[(typ, nl, True)] = [Conc(rng, nids, typ, nl, canonical=(i == 0), safe=True, longlines=(i >= 21)) for i in range(24)]
    ncase = ncorr = nrun = 0
    reps = 4 if quick else 2
    per_cmd = {}
    per_kind = {}
    per_style = {}
    per_api = {}
    samples = {}
    stash = []
    stash_mod = 1 if quick else 4
    scale_mod = 23 if quick else 37
    nscaled = 0
    scaled_sizes = {}
    for tag, v, h in (x for rp in raw_paths for x in stream_printed(rp)):
        if len(ctx.violations) >= 5:
            break
        hc = HashChoice(h ^ (ctx.seed * 2654435761 & 0x7FFFFFFF))
        if tag == "CASE":
            ncase += 1
            toks = v["lines"]
            for tk in toks:
                if len(tk) == 4:
                    key = tk[0] + ("2" if tk[2] >= 0 else "1")
                    per_cmd[key] = per_cmd.get(key, 0) + 1
            t0 = hc._next()
            for rep in range(reps):
                typ = TYPES[(t0 + rep) % 2]
                nl = hc.choice(NLS) if hc.random() < 0.6 else "nl"
                kind = hc.choice(SOURCES)
                if not usable_source(kind, nl):
                    kind = hc.choice(("list", "tuple", "iter", "gen"))
                conc = hc.choice(concs[(typ, nl, False)])
                old_lines = conc.buf(v["old"])
                script_lines = conc.script(toks)
                expected = conc.buf(v["new"])
                api = pick_api(hc)
                if api.split("/")[1] == "ws":
                    script_lines = pad_commands(script_lines, toks, typ, hc)
                msg = check_apply(old_lines, script_lines, expected, kind, typ, api)
                nrun += 1
                st = "%s/%s/%s" % (typ, nl, kind)
                per_style[st] = per_style.get(st, 0) + 1
                for part in api.split("/"):
                    per_api[part] = per_api.get(part, 0) + 1
                if msg:
                    ctx.violation({"kind": "apply", "abstract": v, "conc": conc.to_json(), "typ": typ, "src": kind, "api": api,
                                   "old_lines": old_lines, "script_lines": script_lines,
                                   "expected": {"res": "ok", "lines": expected}}, msg)
                    break
            if h % scale_mod == 0 and v["old"] and not ctx.violations:
                # size stress: the same abstract case, every abstract line a run of many lines
                hs = HashChoice((h + 29) ^ (ctx.seed * 69069 & 0x7FFFFFFF))
                params = scale_params(v, hs)
                typ = hs.choice(TYPES)
                nl = hs.choice(NLS)
                kind = hs.choice(SOURCES)
                if not usable_source(kind, nl):
                    kind = hs.choice(("list", "tuple", "iter", "gen"))
                conc = hs.choice(concs[(typ, nl, False)])
                s_old, s_script, s_exp = build_scaled(v, conc, params)
                api = pick_api(hs, allow_ws=False)
                msg = check_apply(s_old, s_script, s_exp, kind, typ, api)
                nrun += 1
                nscaled += 1
                b = len(str(len(s_old)))
                scaled_sizes["%d-digit" % b] = scaled_sizes.get("%d-digit" % b, 0) + 1
                if max(params["hunks"].values() or [0]) >= 1000:
                    scaled_sizes["hunk>=1000"] = scaled_sizes.get("hunk>=1000", 0) + 1
                if len(s_old) >= 10000 and ("scaled",) not in samples and len(toks) >= 4:
                    samples[("scaled",)] = "SCALED old=%s script=%s tnew=%s runs=%s: %s on %d lines -> %d lines" % (
                        v["old"], json.dumps(toks, separators=(",", ":")), v["tnew"], params["runs"], show(s_script), len(s_old), len(s_exp))
                if msg:
                    ctx.violation({"kind": "scaled", "abstract": v, "conc": conc.to_json(), "params": params, "typ": typ, "src": kind, "api": api},
                                  "[size stress: runs %s, hunks %s] %s" % (params["runs"], params["hunks"], msg))
            ctx.case_seen(("case", h, ncase), bool(toks))
            if h % stash_mod == 0:
                stash.append((h, json.dumps(v, separators=(",", ":"))))
            if len(toks) >= 5 and v["old"] and h % 3001 < 3:
                samples[("a", h)] = "CASE old=%s script=%s -> new=%s; e.g. %s on %s" % (
                    v["old"], json.dumps(toks, separators=(",", ":")), v["new"], show(script_lines), show(old_lines))
        elif tag == "CORRUPT":
            ncorr += 1
            per_kind[v["kind"]] = per_kind.get(v["kind"], 0) + 1
            if v["res"] != "ValueError":
                raise core.MachineryError("specification accepts a corruption: %r" % (v,))
            safe = v["kind"] in ("text", "nocmd")
            for rep in range(4):            # str / bytes x list-like / iterator-like source
                typ = TYPES[rep % 2]
                nl = hc.choice(NLS) if hc.random() < 0.6 else "nl"
                if rep < 2:
                    kind = "tuple" if hc.random() < 0.15 else "list"
                else:
                    kind = hc.choice(ITER_SOURCES)
                if not usable_source(kind, nl):
                    kind = "gen" if rep >= 2 else "list"
                conc = hc.choice(concs[(typ, nl, safe)])
                old_lines = conc.buf([1] * maxbuf)
                big = v["pos"] - 1 if rep == 3 and v["kind"] in ("letter", "nonum", "garbage", "arange") else None
                script_lines = conc.script(v["lines"], hc, big_at=big)
                api = pick_api(hc, allow_ws=False)
                for part in api.split("/"):
                    per_api[part] = per_api.get(part, 0) + 1
                msg = check_raises(old_lines, script_lines, kind, typ, api)
                nrun += 1
                if msg:
                    ctx.violation({"kind": "corrupt", "abstract": v, "conc": conc.to_json(), "typ": typ, "src": kind, "api": api,
                                   "old_lines": old_lines, "script_lines": script_lines,
                                   "expected": {"res": "ValueError"}}, "[%s] %s" % (v["kind"], msg))
                    break
            ctx.case_seen(("corrupt", h, ncorr), True)
            if len(v["lines"]) >= 4 and h % 1009 < 3:
                samples[("b", v["kind"], h)] = "CORRUPT kind=%s at line %d: %s -> ValueError" % (v["kind"], v["pos"], show(script_lines))
    # no state between calls: a deterministic subset of the cases, paired in hash order
    stash.sort()
    nstate = 0
    prev = None
    for h, txt in stash:
        if len(ctx.violations) >= 5:
            break
        v = json.loads(txt)
        hc = HashChoice((h + 17) ^ (ctx.seed * 40503 & 0x7FFFFFFF))
        typ = hc.choice(TYPES)
        nl = hc.choice(NLS) if hc.random() < 0.5 else "nl"
        conc = hc.choice(concs[(typ, nl, False)])
        cur = {"old_lines": conc.buf(v["old"]), "script_lines": conc.script(v["lines"]), "expected": conc.buf(v["new"]),
               "abstract": v}
        if prev is not None:
            mix = hc._next() % 16
            msg = check_stateless(cur, prev, mix)
            nstate += 1
            if msg:
                ctx.violation({"kind": "stateless", "A": cur, "B": prev, "mix": mix}, "[state between calls; entry-point mix %d] %s" % (mix, msg))
        prev = cur
    ctx.extra["stateless_pairs_checked"] = nstate
    ctx.evaluations += nstate
    ks = sorted(samples)
    ctx.extra["scaled_cases_replayed"] = nscaled
    ctx.extra["scaled_file_sizes"] = dict(sorted(scaled_sizes.items()))
    for k in [x for x in ks if x[0] == "a"][:2] + [x for x in ks if x[0] == "scaled"] + [x for x in ks if x[0] == "b"][:1]:
        ctx.sample(samples[k])
    ctx.extra["cases_replayed"] = ncase
    ctx.extra["corruptions_replayed"] = ncorr
    ctx.extra["real_calls_in_replay"] = nrun
    ctx.extra["commands_per_form"] = dict(sorted(per_cmd.items()))
    ctx.extra["corruptions_per_kind"] = dict(sorted(per_kind.items()))
    ctx.extra["replay_styles"] = dict(sorted(per_style.items()))
    ctx.extra["replay_entry_points"] = dict(sorted(per_api.items()))
    return ncase, ncorr


# ------------------------------------------------------------------ unspecified zone

def unspecified_zone(ctx):
    """executed, any outcome accepted (DESIGN: semantically odd but syntactically valid commands);
    an exception type other than ValueError is recorded as drift, never as a violation"""
    outcomes = {}
    for typ in TYPES:
        conc = Conc(ctx.rng, 3, typ, "nl", canonical=True)
        old = conc.buf([1, 2, 3])
        scripts = {
            "0c": ["0c", "A", "."], "0d": ["0d"], "reversed": ["3,2d"], "reversed-c": ["3,1c", "A", "."],
            "beyond": ["7d"], "beyond-a": ["9a", "A", "."], "empty-block-a": ["1a", "."], "empty-block-c": ["1c", "."],
            "nonascii-digit": ["٣d"], "trailing-space": ["1d "], "trailing-cr": ["1d\r"], "leading-space": [" 1d"],
            "print-suffix": ["1dp"], "relative": ["-1d"], "plus": ["+1d"], "ascending": ["1d", "3d"],
            "same-address-a": ["1a", "A", ".", "1a", "B", "."], "overlap": ["2,3d", "3d"],
            "number-2^31": ["2147483648d"], "number-2^32": ["1,4294967296d"], "number-2^64-a": ["18446744073709551616a", "A", "."],
            "dot-cr-text": ["1a", ".\r", "."], "crlf-script": ["1a\r", "A\r", ".\r"],
            "number-10^30": ["1" + "0" * 30 + "d"], "leading-zeros": ["003d"], "leading-zeros-range": ["01,00002c", "A", "."],
        }
        for name, sc in sorted(scripts.items()):
            lines = [conc.enc(s) + conc.NL for s in sc]
            res, _ = run_real(old, lines, "list", typ)
            outcomes.setdefault(name, {})[typ] = res
            if res.startswith("EXC:"):
                ctx.drift("unspecified input %s (%s): %s" % (name, typ, res))
    ctx.extra["unspecified_outcomes"] = outcomes


# ------------------------------------------------------------------ (b) recorded executions

def random_pair(rng, maxlen):
    """(old, new, nids): line-id sequences over a small alphabet, so that diffs are interesting"""
    nids = rng.randint(2, 7)
    ids = list(range(1, nids + 1))
    r = rng.random()
    n = rng.choice([0, 1, 2, 3, 5, 8, 12, 20, maxlen]) if rng.random() < 0.5 else rng.randint(0, maxlen)
    old = [rng.choice(ids) for _ in range(n)]
    if r < 0.06:
        return [], [rng.choice(ids) for _ in range(rng.randint(0, 6))], nids
    if r < 0.12:
        return old, [], nids
    if r < 0.15:
        return old, list(old), nids
    if r < 0.30:
        return old, [rng.choice(ids) for _ in range(rng.randint(0, maxlen))], nids
    new = list(old)
    for _ in range(rng.randint(1, 6)):
        where = rng.random()
        if where < 0.25:
            pos = 0
        elif where < 0.5:
            pos = len(new)
        else:
            pos = rng.randint(0, len(new))
        op = rng.random()
        k = rng.randint(1, 3)
        if op < 0.35:
            new[pos:pos] = [rng.choice(ids) for _ in range(k)]
        elif op < 0.7:
            if pos:
                del new[max(0, pos - k):pos]
            else:
                del new[0:k]
        else:
            lo = max(0, pos - k)
            new[lo:lo + k] = [rng.choice(ids) for _ in range(rng.randint(1, 3))]
    return old, new[:maxlen + 6], nids


def _cmd(rng, k, n, m, t):
    return {"k": k, "n": n, "m": m, "r": (n < m) or (k != "a" and rng.random() < 0.3), "t": list(t)}


def difflib_script(rng, old, new, style):
    """independent differ: difflib opcodes emitted bottom-up as ed commands.
    merged: one command per hunk (what diff -e does); split: a change becomes append + delete
    (hunks that touch); linewise: one line per command where possible (adjacent hunks)"""
    cmds = []
    ops = difflib.SequenceMatcher(None, old, new, autojunk=False).get_opcodes()
    for tag, i1, i2, j1, j2 in reversed(ops):
        t = new[j1:j2]
        if tag == "equal":
            continue
        if tag == "insert":
            cmds.append(_cmd(rng, "a", i1, i1, t))
        elif tag == "delete":
            if style == "linewise":
                cmds += [_cmd(rng, "d", q, q, []) for q in range(i2, i1, -1)]
            else:
                cmds.append(_cmd(rng, "d", i1 + 1, i2, []))
        elif style == "merged":
            cmds.append(_cmd(rng, "c", i1 + 1, i2, t))
        elif style == "split":
            cmds.append(_cmd(rng, "a", i2, i2, t))
            cmds.append(_cmd(rng, "d", i1 + 1, i2, []))
        else:
            k = min(i2 - i1, j2 - j1)
            cmds += [_cmd(rng, "d", q, q, []) for q in range(i2, i1 + k, -1)]
            if j2 - j1 > k:
                cmds.append(_cmd(rng, "a", i1 + k, i1 + k, t[k:]))
            cmds += [_cmd(rng, "c", i1 + q + 1, i1 + q + 1, [t[q]]) for q in range(k - 1, -1, -1)]
    return cmds


_DIFF_CMD = re.compile(br"^(\d+)(?:,(\d+))?([acd])$")


def diff_e_script(ctx, old_lines, new_lines, rev, n):
    """script from /usr/bin/diff -e; its output is read back into an abstract command list (ids via
    the reverse concretization).  Returns (script_lines as bytes, commands) or None."""
    po, pn = os.path.join(ctx.work, "ed-old-%d" % n), os.path.join(ctx.work, "ed-new-%d" % n)
    with open(po, "wb") as f:
        f.write(b"".join(old_lines))
    with open(pn, "wb") as f:
        f.write(b"".join(new_lines))
    p = subprocess.run(["/usr/bin/diff", "-a", "-e", po, pn], capture_output=True, env={"LC_ALL": "C"})
    os.unlink(po)
    os.unlink(pn)
    if p.returncode not in (0, 1) or p.stderr:
        raise core.MachineryError("diff -e failed: rc=%s %r" % (p.returncode, p.stderr[:200]))
    lines = [l + b"\n" for l in p.stdout.split(b"\n")[:-1]]     # a line ends in \n and nowhere else
    cmds, i = [], 0
    while i < len(lines):
        m = _DIFF_CMD.match(lines[i].rstrip(b"\n"))
        if not m:
            raise core.MachineryError("cannot read diff -e output line %r" % lines[i])
        n1 = int(m.group(1))
        n2 = int(m.group(2)) if m.group(2) else n1
        k = m.group(3).decode()
        i += 1
        t = []
        if k != "d":
            while lines[i] != b".\n":
                t.append(rev[lines[i]])
                i += 1
            i += 1
        cmds.append({"k": k, "n": n1, "m": n2, "r": m.group(2) is not None, "t": t})
    return lines, cmds


def observe(rev, res, lines):
    if res != "ok":
        return {"res": res, "obs": []}
    return {"res": "ok", "obs": [rev.get(l, 0) for l in lines]}


def record_apply(ctx, rng, old, new, nids, script, conc, final_kind, script_lines=None, scale=None, api=None):
    """run the real code on every prefix of the script (list source) and on the whole script
    (final_kind source); log what it produced as line-id sequences.
    scale = {"runs": [...], "ks": [...]}: size-stressed execution -- the p-th abstract line is a run
    of runs[p-1] distinct concrete lines, every text line of command j a run of ks[j-1] lines,
    addresses are prefix sums; the observed lines are collapsed run by run before they are logged."""
    if scale is None:
        rev = conc.rev()
        old_lines = conc.buf(old)

        def obs(res, got):
            return observe(rev, res, got)

        def prefix(i):
            return conc.script(cmd_tokens(script[:i]))
    else:
        sc = Scale(conc, old, scale["runs"], True)
        old_lines = sc.old_lines()
        per_cmd = []
        for j, c in enumerate(script, 1):
            ls = [sc.command(c["k"], c["n"], c["m"], c["r"])]
            if c["k"] != "d":
                for i, x in enumerate(c["t"], 1):
                    ls += sc.text_run("t%d.%d" % (j, i), x, scale["ks"][j - 1])
                ls.append(sc.ctl("."))
            per_cmd.append(ls)

        def obs(res, got):
            if res != "ok":
                return {"res": res, "obs": []}
            ids = sc.collapse(got)
            return {"res": "ok", "obs": ids if ids is not None else [0]}

        def prefix(i):
            out = []
            for ls in per_cmd[:i]:
                out += ls
            return sc.finish(out)
    events = []
    for i in range(1, len(script) + 1):
        res, got = run_real(old_lines, prefix(i), "list", conc.typ)
        events.append(dict(cmd=script[i - 1], **obs(res, got)))
    if script_lines is None:
        script_lines = prefix(len(script))
    if api is None and rng is not None:
        api = pick_api(rng, allow_ws=False)
    res, got = run_real(old_lines, script_lines, final_kind, conc.typ, api)
    trace = {"kind": "apply", "old": old, "new": new, "events": events, "final": obs(res, got)}
    meta = {"kind": "apply", "old": old, "new": new, "script": script, "conc": conc.to_json(), "typ": conc.typ,
            "src": final_kind, "old_lines": old_lines, "script_lines": script_lines, "scale": scale, "api": api}
    return trace, meta


def dense_pair(rng, n, nids, ncmds):
    """a file of n lines with about ncmds small edits spread over the whole file (first and last
    line included)"""
    ids = list(range(1, nids + 1))
    old = [rng.choice(ids) for _ in range(n)]
    p = min(0.9, float(ncmds) / max(n, 1))
    new = []
    for pos, x in enumerate(old):
        if pos in (0, n - 1) or rng.random() < p:
            r = rng.random()
            if r < 0.4:
                new.append(x % nids + 1)
            elif r < 0.7:
                pass
            else:
                new += [x, rng.choice(ids)] if rng.random() < 0.5 else [rng.choice(ids), x]
        else:
            new.append(x)
    return old, new


def scale_for(rng, nsegs, total, script):
    """run lengths whose prefix sums pass 1, 9, 99, 999 and reach `total` lines"""
    head = [1, 8, 90, 900][:max(0, nsegs - 1)]
    while sum(head) + (nsegs - len(head)) > total and head:
        head.pop()
    rest = nsegs - len(head)
    runs = list(head)
    if rest:
        base = (total - sum(head)) // rest
        runs += [max(1, base)] * rest
        runs[-1] = max(1, total - sum(runs[:-1]))
    ks = [rng.choice([1, 1, 1, 2, 9, 10, 11, 100]) for _ in script]
    if ks:
        ks[rng.randrange(len(ks))] = rng.choice([1000, 1024, 1025])
    return {"runs": runs, "ks": ks}


CORRUPT_KINDS = ("letter", "nonum", "garbage", "arange", "text", "nocmd", "dot", "unterminated", "dropdot")


def corrupt_tokens(rng, toks):
    """one random syntactic corruption of a token sequence (input generation only: what the result
    must be is decided by Parse in TLC)"""
    toks = copy.deepcopy(toks)
    cp = [i for i, t in enumerate(toks) if len(t) == 4]
    dots = [i for i, t in enumerate(toks) if len(t) == 0]
    kinds = [k for k in CORRUPT_KINDS if (k not in ("unterminated", "dropdot") or dots)
             and (k != "arange" or any(toks[i][0] == "a" for i in cp)) and (cp or k in ("text", "dot"))]
    kind = rng.choice(kinds)
    if kind in ("letter", "nonum", "garbage", "nocmd"):
        p = rng.choice(cp)
        if kind == "letter":
            toks[p][0] = "x"
        elif kind == "nonum":
            toks[p][1] = -1
        elif kind == "garbage":
            toks[p][3] = True
        else:
            toks[p] = [1]
    elif kind == "arange":
        p = rng.choice([i for i in cp if toks[i][0] == "a"])
        toks[p][2] = toks[p][1] + rng.randint(0, 2)
    elif kind in ("text", "dot"):
        p = rng.choice(cp + [len(toks)])
        toks.insert(p, [1] if kind == "text" else [])
    elif kind == "unterminated":
        del toks[dots[-1]]
    else:
        del toks[rng.choice(dots)]
    return kind, toks


def record_corrupt(rng, old, nids, script, typ, nl, kind_src):
    kind, toks = corrupt_tokens(rng, cmd_tokens(script))
    conc = Conc(rng, nids, typ, nl, safe=kind in ("text", "nocmd"))
    old_lines = conc.buf(old)
    script_lines = conc.script(toks, rng)
    api = pick_api(rng, allow_ws=False)
    res, _ = run_real(old_lines, script_lines, kind_src, typ, api)
    trace = {"kind": "corrupt", "lines": [tok_record(t) for t in toks], "res": res}
    meta = {"kind": "corrupt-trace", "corruption": kind, "tokens": toks, "conc": conc.to_json(), "typ": typ, "api": api,
            "src": kind_src, "old_lines": old_lines, "script_lines": script_lines}
    return trace, meta


def control_traces(traces):
    """corrupted copies the trace specification must reject"""
    out = []

    def first(pred):
        for t in traces:
            if pred(t):
                return copy.deepcopy(t)
        return None
    t = first(lambda t: t["kind"] == "apply" and t["events"] and t["final"]["res"] == "ok")
    if t:                                       # one observed line differs
        e = t["events"][len(t["events"]) // 2]
        e["obs"] = e["obs"] + [1] if not e["obs"] else [e["obs"][0] % 7 + 1] + e["obs"][1:]
        out.append(t)
    t = first(lambda t: t["kind"] == "apply" and t["final"]["res"] == "ok")
    if t:                                       # the target is not reached
        t["new"] = t["new"] + [1]
        out.append(t)
    t = first(lambda t: t["kind"] == "apply" and t["final"]["res"] == "ok" and t["events"])
    if t:                                       # the whole-script call raised
        t["final"] = {"res": "ValueError", "obs": []}
        out.append(t)
    t = first(lambda t: t["kind"] == "apply" and len(t["events"]) >= 2 and t["events"][-1]["obs"] != t["events"][-2]["obs"])
    if t:                                       # a command was not applied
        del t["events"][-1]
        out.append(t)
    t = first(lambda t: t["kind"] == "corrupt" and t["res"] == "ValueError")
    if t:                                       # a corrupted script was accepted
        t["res"] = "ok"
        out.append(t)
    return out


def validate(ctx, traces, with_controls=True):
    controls = control_traces(traces) if with_controls else []
    acc, _, r = core.validate_traces(ctx, "TraceEdScript", "TraceEdScript.cfg", traces,
                                     extra_env={"TRACE_DIAG": "0"}, controls=controls)
    if r.printed.get("REJECT"):
        raise core.MachineryError("harness logged a script outside the generator domain: %r" % r.printed["REJECT"][:3])
    rejected = [i for i in range(1, len(traces) + 1) if i not in acc]
    info = {}
    if rejected:
        sub = [traces[i - 1] for i in rejected[:20]]
        _, prog, _ = core.validate_traces(ctx, "TraceEdScript", "TraceEdScript.cfg", sub, extra_env={"TRACE_DIAG": "1"})
        for j, i in enumerate(rejected[:20]):
            info[i] = prog.get(j + 1, 0)
    return rejected, info


def explain(trace, meta, at):
    if trace["kind"] == "corrupt":
        return "corrupted script [%s] %s (%s source): outcome %s, the parser automaton of the specification says otherwise" % (
            meta["corruption"], show(meta["script_lines"]), _via(meta["src"], meta.get("api")), trace["res"])
    ev = trace["events"]
    if at < len(ev):
        e = ev[at]
        return "script %s on %s: after command %d (%s) the real code gives %s %s, not what EdApply gives (old=%s new=%s as line ids)" % (
            show(meta["script_lines"]), show(meta["old_lines"]), at + 1, json.dumps(e["cmd"], sort_keys=True), e["res"], e["obs"],
            trace["old"], trace["new"])
    return "script %s on %s (%s source): whole-script result %s %s; prefix runs end in %s; target new=%s (line ids)" % (
        show(meta["script_lines"]), show(meta["old_lines"]), _via(meta["src"], meta.get("api")), trace["final"]["res"], trace["final"]["obs"],
        ev[-1]["obs"] if ev else trace["old"], trace["new"])


def recorded_executions(ctx, quick):
    rng = ctx.rng
    npairs = 600 if quick else 3000
    ndiff = 0 if quick else 1500
    ncorrupt = 300 if quick else 2000
    traces, metas = [], []
    styles = ("merged", "split", "linewise")
    per_style = {}
    have_diff = os.path.exists("/usr/bin/diff")
    for n in range(npairs + ndiff):
        old, new, nids = random_pair(rng, 30)
        typ = TYPES[n % 2]
        if n >= npairs:
            if not have_diff:
                ctx.extra["diff_e"] = "skipped: /usr/bin/diff not installed"
                break
            conc = Conc(rng, nids, "bytes", "nl")
            rev = conc.rev()
            raw_lines, script = diff_e_script(ctx, conc.buf(old), conc.buf(new), rev, n)
            if typ == "str":
                try:
                    conc = Conc.from_text("str", "nl", {i: t.decode("utf-8") for i, t in conc.text.items()})
                    raw_lines = [l.decode("utf-8") for l in raw_lines]
                except UnicodeDecodeError:
                    typ = "bytes"
            kind = rng.choice(("file", "readline", "list"))
            tr, meta = record_apply(ctx, rng, old, new, nids, script, conc, kind, script_lines=raw_lines)
            style = "diff-e"
        else:
            style = styles[n % 3]
            script = difflib_script(rng, old, new, style)
            nl = rng.choice(NLS) if rng.random() < 0.5 else "nl"
            kind = rng.choice(SOURCES)
            if not usable_source(kind, nl):
                kind = rng.choice(("list", "iter", "gen"))
            conc = Conc(rng, nids, typ, nl)
            tr, meta = record_apply(ctx, rng, old, new, nids, script, conc, kind)
        meta["style"] = style
        per_style[style] = per_style.get(style, 0) + 1
        traces.append(tr)
        metas.append(meta)
    # ---- size stress (SIZE_STRESS.md): files around 10 / 100 / 1000 lines validated line by line
    # by TLC; files of 10^4 and 10^5 lines as scaled executions (runs collapsed to ids); scripts of
    # 100+ commands; hunks of 1000+ lines; 64 KiB lines
    plan = [(n, "direct") for n in (9, 10, 11, 99, 100, 101) for _ in range(2 if quick else 8)]
    big = [999, 1000, 1001]
    plan += [(big[(ctx.seed + i) % 3], "direct") for i in range(2 if quick else 9)]
    plan += [(10000, "scaled"), (100000, "scaled")] * (1 if quick else 5)
    plan += [(rng.choice((2, 9, 30)), "longlines") for _ in range(6 if quick else 40)]
    if have_diff and not quick:
        plan += [(n, "diff-e-big") for n in (99, 100, 101, 999, 1000, 1001)]
    max_cmds = 0
    for n, (size, how) in enumerate(plan):
        typ = TYPES[n % 2]
        kind = rng.choice(SOURCES)
        nl = rng.choice(("nl", "nl", "lastbare"))
        scale = None
        if how == "scaled":
            nsegs = rng.choice((180, 200, 255, 256, 257))
            old, new = dense_pair(rng, nsegs, 7, 110)
            nids = 7
            script = difflib_script(rng, old, new, styles[n % 3])
            scale = scale_for(rng, nsegs, size, script)
            conc = Conc(rng, nids, typ, nl)
            tr, meta = record_apply(ctx, rng, old, new, nids, script, conc, kind, scale=scale)
        elif how == "diff-e-big":
            nids = 25
            old, new = dense_pair(rng, size, nids, 120)
            conc = Conc(rng, nids, "bytes", "nl")
            raw_lines, script = diff_e_script(ctx, conc.buf(old), conc.buf(new), conc.rev(), 10 ** 6 + n)
            tr, meta = record_apply(ctx, rng, old, new, nids, script, conc, kind, script_lines=raw_lines)
        else:
            nids = 25 if size > 200 else 6
            if how == "longlines":
                old, new, nids = random_pair(rng, size)
                conc = Conc(rng, nids, typ, nl, longlines=True)
            else:
                old, new = dense_pair(rng, size, nids, 120 if size > 200 else max(3, size // 4))
                conc = Conc(rng, nids, typ, nl)
            script = difflib_script(rng, old, new, styles[n % 3])
            tr, meta = record_apply(ctx, rng, old, new, nids, script, conc, kind)
        max_cmds = max(max_cmds, len(script))
        style = "size:%s:%d" % (how, size)
        meta["style"] = style
        per_style[style] = per_style.get(style, 0) + 1
        traces.append(tr)
        metas.append(meta)
    ctx.extra["longest_recorded_script_commands"] = max_cmds
    if max_cmds < 100:
        raise core.MachineryError("size stress did not produce a script of 100+ commands (max %d)" % max_cmds)
    napply = len(traces)
    made = 0
    while made < ncorrupt:
        old, new, nids = random_pair(rng, 12)
        script = difflib_script(rng, old, new, styles[made % 3])
        if not script and rng.random() < 0.9:
            continue
        typ = TYPES[made % 2]
        nl = rng.choice(NLS) if rng.random() < 0.4 else "nl"
        kind = rng.choice(SOURCES)
        if not usable_source(kind, nl):
            kind = rng.choice(("list", "iter", "gen"))
        tr, meta = record_corrupt(rng, old, nids, script, typ, nl, kind)
        per_style["corrupt:" + meta["corruption"]] = per_style.get("corrupt:" + meta["corruption"], 0) + 1
        traces.append(tr)
        metas.append(meta)
        made += 1
    rejected, info = validate(ctx, traces)
    ctx.traces += len(traces)
    ctx.evaluations += len(traces)
    for i, t in enumerate(traces):
        ctx.distinct.add(("trace", i))
    ctx.extra["traces_recorded"] = {"apply": napply, "corrupt": len(traces) - napply}
    ctx.extra["traces_per_style"] = per_style
    ctx.extra["traces_rejected"] = len(rejected)
    ctx.extra["trace_commands"] = sum(len(t.get("events", ())) for t in traces)
    ex = next((i for i, t in enumerate(traces) if t["kind"] == "apply" and 2 <= len(t["events"]) <= 4 and len(t["old"]) <= 8), None)
    if ex is not None:
        ctx.sample("recorded (%s): old=%s new=%s script=%s -> %s" % (
            metas[ex]["style"], traces[ex]["old"], traces[ex]["new"], show(metas[ex]["script_lines"]), traces[ex]["final"]["obs"]))
    for i in rejected[:5]:
        t, meta = traces[i - 1], metas[i - 1]
        msg = "recorded execution not explained by EdScript: " + explain(t, meta, info.get(i, 0))
        if meta.get("scale"):       # rebuilt from the recipe on replay: do not store 10^5 lines
            meta = {k: v for k, v in meta.items() if k not in ("old_lines", "script_lines")}
        ctx.violation(dict(meta, kind="trace", trace=t), msg)


# ------------------------------------------------------------------ the check

def run(ctx):
    quick = ctx.tier == "quick"
    cfg = "EdScript_quick.cfg" if quick else "EdScript_bnd.cfg"
    consts = cfg_constants(cfg)
    ctx.extra["model_constants"] = consts
    ctx.assumptions += [
        "small scope for the exhaustive part: buffers <= %s lines over %s, scripts <= %s commands, blocks of %s..%s lines" % (
            consts["MaxBuf"], consts["Ids"], consts["MaxCmds"], consts["MinBlock"], consts["MaxBlock"]),
        "line text is sampled (seeded); file content never contains a line that is exactly '.' (DESIGN D7); '' is never a script line",
        "unspecified, executed but not judged: 0c, 0d, reversed ranges, out-of-range addresses, non-ASCII digits, empty blocks, white space/CR/print suffix around a command",
        "trusted: TLC, the concretizer, difflib and diff -e as script sources, the reader of diff -e output",
    ]
    # 1. the invariants can fail
    spec_negative_controls(ctx)
    # 2. design level + emission: all buffers x all generator scripts x all single corruptions.
    #    thorough: the full bound is model-checked without emission (and without StructureConsistent,
    #    which only matters for emitted cases and is checked in their configurations); the cases that are replayed
    #    come from the two largest sub-bounds (4 lines x 2 commands, 3 lines x 3 commands)
    if quick:
        emit = [(cfg, 4)]
    else:
        ctx.tlc_must_hold("EdScript", cfg, workers=8)
        emit = [("EdScript_emit42.cfg", 8), ("EdScript_emit33.cfg", 8)]
    raws, nstates, maxbuf = [], 0, 0
    for ecfg, w in emit:
        ec = cfg_constants(ecfg)
        ctx.extra.setdefault("emission_constants", {})[ecfg] = {k: ec[k] for k in ("MaxBuf", "MaxCmds")}
        maxbuf = max(maxbuf, int(ec["MaxBuf"]))
        r = ctx.tlc_must_hold("EdScript", ecfg, workers=w, keep_raw=True, want_tags=set())
        raws.append(r.raw_path)
        nstates += r.distinct
    ncase, ncorr = replay_cases(ctx, raws, maxbuf, quick)
    if not ctx.violations and ncase != nstates:
        raise core.MachineryError("TLC found %d states but %d CASE lines were read" % (nstates, ncase))
    if not ctx.violations and ncorr == 0:
        raise core.MachineryError("no CORRUPT line emitted")
    import shutil
    for rp in raws:
        shutil.rmtree(os.path.dirname(rp), ignore_errors=True)
    ctx.traces += ncase + ncorr
    # 3. unspecified zone: executed, recorded
    unspecified_zone(ctx)
    # 4. code -> spec
    if len(ctx.violations) < 5:
        recorded_executions(ctx, quick)


def replay(ctx, case):
    kind = case["kind"]
    if kind == "apply":
        return check_apply(case["old_lines"], case["script_lines"], case["expected"]["lines"], case["src"], case["typ"], case.get("api"))
    if kind == "corrupt":
        return check_raises(case["old_lines"], case["script_lines"], case["src"], case["typ"], case.get("api"))
    if kind == "stateless":
        return check_stateless(case["A"], case["B"], case.get("mix", 0))
    if kind == "scaled":
        conc = Conc.from_text(case["conc"]["typ"], case["conc"]["nl"], {int(k): v for k, v in case["conc"]["text"].items()})
        old_lines, script_lines, expected = build_scaled(case["abstract"], conc, case["params"])
        return check_apply(old_lines, script_lines, expected, case["src"], case["typ"], case.get("api"))
    if kind == "trace":
        t = case["trace"]
        if t["kind"] == "corrupt":
            res, _ = run_real(case["old_lines"], case["script_lines"], case["src"], case["typ"], case.get("api"))
            new = dict(t, res=res)
        else:
            conc = Conc.from_text(case["conc"]["typ"], case["conc"]["nl"],
                                  {int(k): v for k, v in case["conc"]["text"].items()})
            new, meta = record_apply(ctx, None, case["old"], case["new"], len(conc.text), case["script"], conc,
                                     case["src"], script_lines=case.get("script_lines"), scale=case.get("scale"),
                                     api=case.get("api") or DEFAULT_API)
            case = dict(case, old_lines=meta["old_lines"], script_lines=meta["script_lines"])
        rejected, info = validate(ctx, [new], with_controls=False)
        if rejected:
            return "execution still not explained by the specification: " + explain(new, case, info.get(1, 0))
        return None
    return "unknown case kind"
